"""
C07 - mol2 written by molli reads back as the same molecule (and the written text is a fixed point).

Bounded-exhaustive input enumeration (engine "enumx" of DESIGN 3.4) executed on the real writer /
reader code.  Every expected value comes from the *spec* the harness itself built the structure
from (a plain dict: name, atoms, frames, bonds) - never from the object under test.

Layers (each a complete product over the stated alphabets; ctx.seed only rotates alphabets):
  TA  every (element x atom type x geometry) triple, atom-locally:
        token = get_mol2_type(); a fresh atom accepts it; element survives; get(set(get(x))) == get(x)
  TB  the same triples through whole texts (100 atoms per molecule) as Molecule, Structure and
        ConformerEnsemble; thorough tier: every ordered pair of the distinct tokens as a bonded
        2-atom molecule
  BL  every BondType bond-locally, every history of <= 3 set_mol2_type calls over the tokens the
        writer can emit (the setter must apply the token it accepted)
  S0..S4  small-scope structures (0..3 atoms; names, labels, coordinate triples, charges, bond
        subsets x bond types x endpoint orders, 1..3 conformers) through EVERY class-level writer
        entry point and EVERY class-level reader entry point (full writer x reader matrix)

Signatures are built from (operation kind, input class, symptom); entry points are aggregated per
case ("*" = every entry point of that side shows the symptom on this input) so that one root cause
in the shared writer/reader gives one signature while a defect of a single wrapper names it.
"""
from __future__ import annotations

import hashlib
import io
import itertools
import math
import os
from collections import Counter
from pathlib import Path

import numpy as np

from mc.core import HarnessError

from molli.chem import (
    Atom,
    AtomStereo,
    AtomGeom,
    AtomType,
    Bond,
    BondType,
    ConformerEnsemble,
    Element,
    Molecule,
    Promolecule,
    Connectivity,
    Structure,
    Substructure,
)

LEVEL = "model_checking"

NAN = float("nan")
COORD_TOL = 1e-6  # "coordinates to the written precision (1e-6)"
CHARGE_TOL = 1e-3  # "partial charges to the written precision (1e-3)"

# bond types the Tripos mol2 format can express (1 2 3 am ar du un nc).  molli's own table says
# "orders of 4, 5, 6 are not canonical per the mol2 definition file"; those and the molli-only
# kinds (Ligand, FractionalOrder, H_Donor, H_Acceptor) need not survive - but their token must
# still be accepted by the reader and be a fixed point.
EXPRESSIBLE = {"Unknown", "Single", "Double", "Triple", "Aromatic", "Amide", "Dummy", "NotConnected"}
EMITTABLE_BOND_TOKENS = ["1", "2", "3", "am", "ar", "du", "un", "nc"]

KINDNAME = {"M": "Molecule", "S": "Structure", "E": "ConformerEnsemble"}
CLS = {"M": Molecule, "S": Structure, "E": ConformerEnsemble}

WRITERS = ["dumps_mol2", "dump_mol2[StringIO]", "dump_mol2[file]"]
READERS = (
    [f"{c}.{f}" for c in ("Molecule", "Structure") for f in ("loads_mol2", "loads_all_mol2", "load_mol2[StringIO]", "load_mol2[path]", "load_all_mol2[StringIO]", "load_all_mol2[path]")]
    + [f"ConformerEnsemble.{f}" for f in ("loads_mol2", "load_mol2[StringIO]", "load_mol2[path]")]
)
RCLASS = {"Molecule": Molecule, "Structure": Structure, "ConformerEnsemble": ConformerEnsemble}


# =================================================================================================
# helpers
# =================================================================================================
def rot(lst, k):
    lst = list(lst)
    if not lst:
        return lst
    k %= len(lst)
    return lst[k:] + lst[:k]


def fl(v):
    """floats come back from a replay artefact as 'NaN' / 'inf' / '-inf' strings"""
    if isinstance(v, str):
        return {"NaN": NAN, "inf": math.inf, "-inf": -math.inf}[v]
    return float(v)


def exc(e):
    return type(e).__name__


def tokclass(tok: str) -> str:
    """class of an atom type token: the element is abstracted to X"""
    if tok.startswith("Du."):
        return "Du.X"
    if "." in tok:
        return "X." + tok.split(".", 1)[1]
    return "X"


def digest(o) -> str:
    return hashlib.sha1(repr(o).encode()).hexdigest()[:12]


def clear_bond_cache():
    # Bond.set_mol2_type is wrapped in functools.cache on the pinned tree: every bond ever read is
    # kept alive for ever.  Dropping the entries between cases is memory hygiene only (a case never
    # depends on an earlier one; the hidden-state effect itself is exercised in layer BL).
    cc = getattr(Bond.set_mol2_type, "cache_clear", None)
    if cc is not None:
        cc()


# =================================================================================================
# spec -> object (the spec is the reference model)
# =================================================================================================
def mkspec(kind, name, atoms, frames, bonds):
    """atoms: [(Z, label, atype, geom)], frames: [{"xyz": [[x,y,z]..], "q": [..]}], bonds: [(i, j, btype)]"""
    return {
        "kind": kind,
        "name": name,
        "atoms": [list(a) for a in atoms],
        "frames": [{"xyz": [list(p) for p in f["xyz"]], "q": list(f["q"])} for f in frames],
        "bonds": [list(b) for b in bonds],
    }


def normspec(spec):
    """after a JSON round trip (replay)"""
    s = dict(spec)
    s["atoms"] = [[int(a[0]), a[1], int(a[2]), int(a[3])] + ([dict(a[4])] if len(a) > 4 else []) for a in spec["atoms"]]
    s["frames"] = [{"xyz": [[fl(c) for c in p] for p in f["xyz"]], "q": [fl(c) for c in f["q"]]} for f in spec["frames"]]
    s["bonds"] = [[int(b[0]), int(b[1]), int(b[2])] for b in spec["bonds"]]
    return s


def same_float(a, b):
    return (a != a and b != b) or a == b


class UnderTestDeviation(Exception):
    """the code under test (not the harness) prevented a case from being set up: reported as a violation"""

    def __init__(self, symptom, detail):
        super().__init__(f"{symptom}: {detail}")
        self.symptom, self.detail = symptom, detail


def raised_in_library(e: BaseException) -> bool:
    """does the innermost python frame of the traceback belong to molli (and not to the harness)?"""
    tb, last = e.__traceback__, None
    while tb is not None:
        last, tb = tb.tb_frame.f_code.co_filename, tb.tb_next
    return last is not None and (os.sep + "molli" + os.sep) in last and (os.sep + "mc" + os.sep + "props") not in last


def _same_arr(a, b):
    return a.shape == b.shape and bool(np.all((a == b) | (np.isnan(a) & np.isnan(b))))


def mk_atom(a):
    """[Z, label, atype, geom] or [Z, label, atype, geom, {fields mol2 does not store: isotope, stereo, formal_charge, formal_spin, attrib}]"""
    kw = dict(a[4]) if len(a) > 4 else {}
    if "stereo" in kw:
        kw["stereo"] = AtomStereo(kw["stereo"])
    if "attrib" in kw:
        kw["attrib"] = dict(kw["attrib"])
    return Atom(Element(a[0]), label=a[1], atype=AtomType(a[2]), geom=AtomGeom(a[3]), **kw)


def build(spec):
    """-> (object, reference spec).  The reference of the write -> read direction is what the OBJECT holds:
    normally exactly the spec; if a constructor stored other numbers (e.g. another dtype) the object's own
    coordinates / charges become the reference (never a harness error: the harness is not what deviates)."""
    kind = spec["kind"]
    n, k = len(spec["atoms"]), len(spec["frames"])
    try:
        atoms = [mk_atom(a) for a in spec["atoms"]]
        f0 = spec["frames"][0]
        xyz0 = np.array(f0["xyz"], dtype=float).reshape(n, 3)
        if kind == "S":
            obj = Structure(atoms, name=spec["name"], coords=xyz0)
        else:
            obj = Molecule(atoms, name=spec["name"], coords=xyz0)
            obj.atomic_charges = np.array(f0["q"], dtype=float).reshape(n)
        for i, j, bt in spec["bonds"]:
            obj.append_bond(Bond(atoms[i], atoms[j], btype=BondType(bt)))
        if kind == "E":
            xyz = np.array([f["xyz"] for f in spec["frames"]], dtype=float).reshape(k, n, 3)
            q = np.array([f["q"] for f in spec["frames"]], dtype=float).reshape(k, n)
            obj = ConformerEnsemble(obj, n_conformers=k, coords=xyz, atomic_charges=q)
        co = np.array(obj.coords, dtype=float)
        qq = None if kind == "S" else np.array(obj.atomic_charges, dtype=float)
        shape_ok = obj.name == spec["name"] and obj.n_atoms == n and obj.n_bonds == len(spec["bonds"])
        shape_ok = shape_ok and [int(a.element) for a in obj.atoms] == [a[0] for a in spec["atoms"]] and [a.label for a in obj.atoms] == [a[1] for a in spec["atoms"]]
    except Exception as e:
        raise UnderTestDeviation(f"constructor-raised-{exc(e)}", f"{KINDNAME[kind]} could not be constructed from valid parts: {exc(e)}: {e}")
    ex = np.array([f["xyz"] for f in spec["frames"]], dtype=float).reshape((k, n, 3))
    eq = np.array([f["q"] for f in spec["frames"]], dtype=float).reshape((k, n))
    if kind != "E":
        ex, eq = ex[0], eq[0]
    if not shape_ok or co.shape != ex.shape or (qq is not None and qq.shape != eq.shape):
        raise UnderTestDeviation("constructed-object-differs-from-its-parts", f"{KINDNAME[kind]} built from {n} atoms / {len(spec['bonds'])} bonds / name {spec['name']!r} does not hold them")
    ref = spec
    if not _same_arr(co, ex) or (qq is not None and not _same_arr(qq, eq)):
        cf = co if kind == "E" else co[None]
        qf = eq if qq is None else qq
        qf = qf if kind == "E" else qf[None]
        ref = dict(spec, frames=[{"xyz": cf[i].tolist(), "q": qf[i].tolist()} for i in range(k)])
    return obj, ref


# =================================================================================================
# entry points
# =================================================================================================
def do_write(obj, entry, tmp: Path):
    if entry == "dumps_mol2":
        return obj.dumps_mol2()
    if entry == "dump_mol2[StringIO]":
        s = io.StringIO()
        obj.dump_mol2(s)
        return s.getvalue()
    if entry == "dump_mol2[file]":
        with open(tmp, "wt", encoding="utf-8", newline="") as f:
            obj.dump_mol2(f)
        return tmp.read_text(encoding="utf-8")
    raise HarnessError(entry)


def do_read(entry, text, tmp: Path):
    cname, fn = entry.split(".", 1)
    cls = RCLASS[cname]
    if fn == "loads_mol2":
        return cls.loads_mol2(text)
    if fn == "loads_all_mol2":
        return cls.loads_all_mol2(text)
    if fn == "load_mol2[StringIO]":
        return cls.load_mol2(io.StringIO(text))
    if fn == "load_all_mol2[StringIO]":
        return cls.load_all_mol2(io.StringIO(text))
    if fn == "load_mol2[path]":
        return cls.load_mol2(Path(tmp))
    if fn == "load_all_mol2[path]":
        return cls.load_all_mol2(str(tmp))
    raise HarnessError(entry)


# =================================================================================================
# the oracle: one molecule-like observation against one frame of the spec
# =================================================================================================
def cmp_frame(spec, fi, name, atoms, coords, charges, bonds, want_charges):
    """-> list of (symptom, detail).  atoms/bonds are molli objects of the *read* structure."""
    out = []
    exp_atoms = spec["atoms"]
    fr = spec["frames"][fi]
    if name != spec["name"]:
        out.append(("name-changed", f"name {name!r} != {spec['name']!r}"))
    if len(atoms) != len(exp_atoms):
        out.append(("atom-count-changed", f"{len(atoms)} atoms read, {len(exp_atoms)} written"))
        return out
    n = len(atoms)
    got_el = [int(a.element) for a in atoms]
    exp_el = [a[0] for a in exp_atoms]
    if got_el != exp_el:
        sym = "atoms-reordered" if sorted(got_el) == sorted(exp_el) else "element-changed"
        i = next(i for i in range(n) if got_el[i] != exp_el[i])
        out.append((sym, f"atom {i}: element Z={got_el[i]} read, Z={exp_el[i]} written"))
    for i in range(n):
        lab = exp_atoms[i][1]
        if lab is not None and lab != "" and atoms[i].label != lab:
            out.append(("label-changed", f"atom {i}: label {atoms[i].label!r} read, {lab!r} written"))
            break
    co = np.asarray(coords, dtype=float)
    if co.shape != (n, 3):
        out.append(("coords-shape-changed", f"coords shape {co.shape}"))
    else:
        bad_nan = bad_tol = None
        for i in range(n):
            for c in range(3):
                e, g = fr["xyz"][i][c], float(co[i, c])
                if e != e or g != g:
                    if not (e != e and g != g):
                        bad_nan = bad_nan or (i, c, e, g)
                elif math.isinf(e) or math.isinf(g):
                    if e != g:
                        bad_tol = bad_tol or (i, c, e, g)
                elif abs(e - g) > COORD_TOL * (1 + 1e-6) + 4 * math.ulp(abs(e)):
                    bad_tol = bad_tol or (i, c, e, g)
        if bad_nan:
            out.append(("coords-nan-mismatch", "atom %d axis %d: written %r read %r" % bad_nan))
        if bad_tol:
            out.append(("coords-beyond-1e-6", "atom %d axis %d: written %r read %r" % bad_tol))
    if want_charges:
        q = np.asarray(charges, dtype=float)
        if q.shape != (n,):
            out.append(("charges-shape-changed", f"charges shape {q.shape}"))
        else:
            for i in range(n):
                e, g = fr["q"][i], float(q[i])
                if not (abs(e - g) <= CHARGE_TOL * (1 + 1e-6) + 4 * math.ulp(abs(e))):
                    out.append(("charges-beyond-1e-3", f"atom {i}: charge written {e!r} read {g!r}"))
                    break
    # bonds: multiset of (unordered endpoints, type when mol2 can express it)
    idx = {id(a): i for i, a in enumerate(atoms)}
    try:
        got = [(frozenset((idx[id(b.a1)], idx[id(b.a2)])), BondType(b.btype).name) for b in bonds]
    except (KeyError, ValueError) as e:
        out.append(("bond-endpoint-not-an-atom-of-the-structure", repr(e)))
        return out
    expb = [(frozenset((i, j)), BondType(bt).name) for i, j, bt in spec["bonds"]]
    if len(got) != len(expb):
        out.append(("bond-count-changed", f"{len(got)} bonds read, {len(expb)} written"))
    elif Counter(p for p, _ in got) != Counter(p for p, _ in expb):
        out.append(("bond-endpoints-changed", f"endpoints read {sorted(sorted(p) for p, _ in got)} written {sorted(sorted(p) for p, _ in expb)}"))
    else:
        gmap = {}
        for p, t in got:
            gmap.setdefault(p, []).append(t)
        emap = {}
        for p, t in expb:
            emap.setdefault(p, []).append(t)
        for p in sorted(emap, key=sorted):
            ge, ex = sorted(gmap[p]), sorted(emap[p])
            ex_need = Counter(t for t in ex if t in EXPRESSIBLE)
            if ex_need - Counter(ge):
                if len(ex) == 1:
                    out.append((f"bond-type-changed[{ex[0]}->{ge[0]}]", f"bond {sorted(p)}: type {ge[0]} read, {ex[0]} written"))
                else:
                    out.append(("bond-types-changed", f"bond {sorted(p)}: types {ge} read, {ex} written"))
                break
    return out


def observe(spec, entry, res):
    """compare what reader entry returned with the spec -> list of (symptom, detail)"""
    cname, fn = entry.split(".", 1)
    k = len(spec["frames"])
    wk = spec["kind"]
    want_q = wk in ("M", "E") and cname in ("Molecule", "ConformerEnsemble")
    out = []
    if cname == "ConformerEnsemble":
        if not isinstance(res, ConformerEnsemble):
            return [("wrong-result-type", f"{type(res).__name__}")]
        if res.n_conformers != k:
            out.append(("conformer-count-changed", f"{res.n_conformers} conformers read, {k} written"))
            return out
        per = []
        for fi in range(k):
            per.append(cmp_frame(spec, fi, res.name, res.atoms, res.coords[fi], res.atomic_charges[fi], res.bonds, want_q))
        return _frames_verdict(spec, per, [np.asarray(res.coords[fi], dtype=float) for fi in range(k)], "conformer")
    if "all" in fn:
        if not isinstance(res, list):
            return [("wrong-result-type", f"{type(res).__name__}")]
        if len(res) != k:
            out.append(("conformer-count-changed", f"{len(res)} molecules read, {k} written"))
            return out
        per = []
        for fi, m in enumerate(res):
            if not isinstance(m, RCLASS[cname]):
                return [("wrong-result-type", f"{type(m).__name__}")]
            per.append(cmp_frame(spec, fi, m.name, m.atoms, m.coords, getattr(m, "atomic_charges", None), m.bonds, want_q))
        return _frames_verdict(spec, per, [np.asarray(m.coords, dtype=float) for m in res], "conformer")
    if not isinstance(res, RCLASS[cname]):
        return [("wrong-result-type", f"{type(res).__name__}")]
    args = (res.name, res.atoms, res.coords, getattr(res, "atomic_charges", None), res.bonds, want_q)
    if k == 1:
        return cmp_frame(spec, 0, *args)
    # a first-molecule reader on a multi-molecule text is judged for SELECTION only: the data-level
    # clauses are judged where a reader returns everything it was given (k = 1, all-molecule readers)
    if not cmp_frame(spec, 0, *args):
        return []
    for j in range(1, k):
        if not cmp_frame(spec, j, *args):
            return [("first-molecule-reader-returned-a-later-conformer", f"conformer {j} of {k} returned instead of conformer 0")]
    return []


def _frames_verdict(spec, per, got_coords, word):
    k = len(per)
    flat = []
    coords_bad = [fi for fi in range(k) if any(s.startswith("coords-") for s, _ in per[fi])]
    if coords_bad and k > 1:
        # is it the right set of frames in the wrong order?
        n = len(spec["atoms"])
        exp = [np.array(f["xyz"], dtype=float).reshape(n, 3) for f in spec["frames"]]

        def close(a, b):
            return a.shape == b.shape and bool(np.all((np.abs(a - b) <= 2 * COORD_TOL) | (np.isnan(a) & np.isnan(b))))

        for perm in itertools.permutations(range(k)):
            if perm != tuple(range(k)) and all(close(got_coords[i], exp[perm[i]]) for i in range(k)):
                flat.append((f"{word}-order-changed", f"frames read in order {perm}"))
                per = [[x for x in p if not x[0].startswith("coords-")] for p in per]
                break
    seen = set()
    for fi in range(k):
        for s, d in per[fi]:
            if s not in seen:
                seen.add(s)
                flat.append((s, (f"{word} {fi}: " if k > 1 else "") + d))
    return flat


# =================================================================================================
# fixed point: W(R(text1)) == text1, differences classified by section / column
# =================================================================================================
ATOM_COLS = ["id", "label", "x", "y", "z", "type", "subst_id", "subst_name", "charge"]
BOND_COLS = ["id", "a1", "a2", "type"]


def _same_number(x, y):
    try:
        return float(x) == float(y)
    except ValueError:
        return False


def classify_text_diff(t1: str, t2: str):
    """-> sorted list of symptom classes (empty when identical)"""
    if t1 == t2:
        return []
    l1, l2 = t1.split("\n"), t2.split("\n")
    if len(l1) != len(l2):
        return ["line-count-changed"]
    out = set()
    section, since = None, 0
    for a, b in zip(l1, l2):
        if a.startswith("@<TRIPOS>"):
            section, since = a[len("@<TRIPOS>") :].strip(), 0
            if a != b:
                out.add("section-header-changed")
            continue
        since += 1
        if a == b:
            continue
        fa, fb = a.split(), b.split()
        if fa == fb:
            out.add(f"{section}.whitespace")
        elif section == "MOLECULE":
            out.add("MOLECULE." + {1: "name", 2: "counts", 3: "mol_type", 4: "charge_type"}.get(since, "other"))
        elif section == "ATOM" and len(fa) == len(fb) and len(fa) <= len(ATOM_COLS):
            for c, (x, y) in enumerate(zip(fa, fb)):
                if x != y:
                    col = ATOM_COLS[c]
                    if col == "type":
                        out.add(f"ATOM.type[{tokclass(x)}->{tokclass(y)}]")
                    elif col in ("x", "y", "z", "charge") and _same_number(x, y):
                        out.add(f"ATOM.{col}[same-number-written-differently]")
                    else:
                        out.add(f"ATOM.{col}")
        elif section == "BOND" and len(fa) == len(fb) and len(fa) <= len(BOND_COLS):
            for c, (x, y) in enumerate(zip(fa, fb)):
                if x != y:
                    col = BOND_COLS[c]
                    out.add(f"BOND.type[{x}->{y}]" if col == "type" else f"BOND.{col}")
        else:
            out.add(f"{section}.fields-changed")
    return sorted(out)


# =================================================================================================
# aggregation of a (writer x reader) matrix of symptoms into signatures
# =================================================================================================
def _desc(names, universe):
    names = sorted(set(names))
    if set(names) == set(universe):
        return "*"
    # compress whole reader classes
    out, rest = [], list(names)
    for c in ("Molecule", "Structure", "ConformerEnsemble"):
        allc = [u for u in universe if u.startswith(c + ".")]
        if allc and all(u in names for u in allc):
            out.append(c + ".*")
            rest = [x for x in rest if not x.startswith(c + ".")]
    return ",".join(out + rest)


def is_first_reader(r):
    return not r.startswith("ConformerEnsemble.") and "all" not in r


def reader_universe(sym, k):
    """the readers that can show symptom `sym` on a text of k molecules (see observe)"""
    if k == 1 or sym.startswith(("read-raised", "wrong-result-type")):
        return READERS
    if sym.startswith("first-molecule-reader"):
        return [r for r in READERS if is_first_reader(r)]
    return [r for r in READERS if not is_first_reader(r)]


# ---- "history before writing": other containers / views over the molecule's own Atom objects -------------
LIST_CONTAINERS = {"Promolecule": Promolecule, "Connectivity": Connectivity, "Structure": Structure, "Molecule": Molecule}


def history_tag(history):
    if not history:
        return ""
    tags = set()
    for op in history:
        if op.get("second"):
            tags.add(f"written-object-is-a-second-container({'original-alive' if op['keep'] else 'original-dropped'})")
        else:
            fam = "list-container" if op["c"] in LIST_CONTAINERS else ("substructure-view" if op["c"] == "Substructure" else "ensemble-conformer-view")
            tags.add(f"{fam}({'alive' if op['keep'] else 'dropped'})")
    return "after[" + "+".join(sorted(tags)) + "]|"


def prepare(spec, history):
    """-> (object to write, reference spec, objects kept alive)"""
    obj, ref = build(spec)
    keep = []
    for op in history or ():
        sel = op["sel"]
        try:
            if op.get("second"):
                # the written object is a SECOND container over (some of) the first one's atom objects
                src_atoms = [obj.atoms[i] for i in sel]
                fr = ref["frames"][0]
                xyz = np.array([fr["xyz"][i] for i in sel], dtype=float).reshape(len(sel), 3)
                second = LIST_CONTAINERS[op["c"]](src_atoms, name=spec["name"] + "-2", coords=xyz)
                if op["c"] == "Molecule":
                    second.atomic_charges = [fr["q"][i] for i in sel]
                pos = {i: p for p, i in enumerate(sel)}
                bonds = [(pos[i], pos[j], bt) for i, j, bt in spec["bonds"] if i in pos and j in pos]
                for i, j, bt in bonds:
                    second.append_bond(Bond(second.atoms[i], second.atoms[j], btype=BondType(bt)))
                if op["keep"]:
                    keep.append(obj)
                ref2 = mkspec("M" if op["c"] == "Molecule" else "S", spec["name"] + "-2", [spec["atoms"][i] for i in sel], [{"xyz": [fr["xyz"][i] for i in sel], "q": [fr["q"][i] for i in sel]}], bonds)
                # as in build(): the reference is what the written object holds
                co2 = np.array(second.coords, dtype=float)
                q2 = np.array(second.atomic_charges, dtype=float) if op["c"] == "Molecule" else np.array(ref2["frames"][0]["q"], dtype=float)
                if co2.shape != (len(sel), 3) or q2.shape != (len(sel),) or second.n_atoms != len(sel) or second.n_bonds != len(bonds):
                    raise UnderTestDeviation("constructed-object-differs-from-its-parts", f"{op['c']} over atoms {sel} with {len(bonds)} bonds does not hold them")
                if not _same_arr(co2, np.array(ref2["frames"][0]["xyz"], dtype=float).reshape(len(sel), 3)) or not _same_arr(q2, np.array(ref2["frames"][0]["q"], dtype=float)):
                    ref2 = dict(ref2, frames=[{"xyz": co2.tolist(), "q": q2.tolist()}])
                obj, ref = second, ref2
                continue
            if op["c"] in LIST_CONTAINERS:
                other = LIST_CONTAINERS[op["c"]]([obj.atoms[i] for i in sel])  # copy_atoms=False: the atom OBJECTS are shared
            elif op["c"] == "Substructure":
                other = Substructure(obj, list(sel))
            elif op["c"] == "EnsembleConformer":
                ens = obj if isinstance(obj, ConformerEnsemble) else ConformerEnsemble(obj, n_conformers=1)
                other = (ens, ens[0])
            else:
                raise HarnessError(f"unknown history op {op!r}")
        except (HarnessError, UnderTestDeviation):
            raise
        except Exception as e:
            raise UnderTestDeviation(f"history-op-raised-{exc(e)}", f"{op['c']} over atoms {sel} of the structure raised {exc(e)}: {e}")
        if op["keep"]:
            keep.append(other)
        del other
    return obj, ref, keep


def emit_matrix(ctx, spec, cells, detail, writers_ok, case=None, tag=""):
    """cells: {symptom: set((writer, reader))}; "w=*" = every writer entry that produced a text"""
    kn = KINDNAME[spec["kind"]]
    for sym in sorted(cells):
        cs = cells[sym]
        ws = sorted({w for w, _ in cs})
        rs = sorted({r for _, r in cs})
        groups = [(ws, rs)] if cs == set(itertools.product(ws, rs)) else [([w], [r]) for w, r in sorted(cs)]
        for gw, gr in groups:
            sig = f"rt|{kn}|{tag}{sym}|w={_desc(gw, writers_ok)}|r={_desc(gr, reader_universe(sym, len(spec['frames'])))}"
            ctx.violation(
                sig,
                f"{kn} {tag}written by {gw[0]} and read by {gr[0]}: {detail.get((sym, gw[0], gr[0]), detail.get(sym, sym))}",
                case or {"layer": "S", "spec": spec},
                repro=repro_spec((case or {}).get("spec", spec), gw[0], gr[0], (case or {}).get("history")),
            )


def repro_spec(spec, w, r, history=None):
    kind = spec["kind"]
    lines = [
        "import io, numpy as np, molli as ml",
        "from molli.chem import Atom, Bond, Element, AtomType, AtomGeom, BondType",
        f"atoms = [Atom(Element(a[0]), label=a[1], atype=AtomType(a[2]), geom=AtomGeom(a[3]), **(a[4] if len(a) > 4 else {{}})) for a in {spec['atoms']!r}]",
        "nan, inf = float('nan'), float('inf')",
        f"frames = {[f['xyz'] for f in spec['frames']]!r}",
        f"charges = {[f['q'] for f in spec['frames']]!r}",
        f"m = ml.{'Structure' if kind == 'S' else 'Molecule'}(atoms, name={spec['name']!r}, coords=np.array(frames[0], dtype=float).reshape(len(atoms), 3))",
    ]
    if kind != "S":
        lines.append("m.atomic_charges = charges[0]")
    lines.append(f"for i, j, t in {spec['bonds']!r}: m.append_bond(Bond(atoms[i], atoms[j], btype=BondType(t)))")
    if kind == "E":
        lines.append("m = ml.ConformerEnsemble(m, n_conformers=len(frames), coords=np.array(frames, dtype=float).reshape(len(frames), len(atoms), 3), atomic_charges=charges)")
    for op in history or ():
        sel = op["sel"]
        if op.get("second"):
            lines.append(f"orig = m; m = ml.{op['c']}([orig.atoms[i] for i in {sel}], name='second', coords=np.array([frames[0][i] for i in {sel}], dtype=float).reshape({len(sel)}, 3))")
            lines.append(f"pos = {{i: p for p, i in enumerate({sel})}}")
            lines.append(f"for i, j, t in {spec['bonds']!r}:\n    if i in pos and j in pos: m.append_bond(Bond(m.atoms[pos[i]], m.atoms[pos[j]], btype=BondType(t)))")
            if not op["keep"]:
                lines.append("del orig")
        elif op["c"] == "Substructure":
            lines.append(f"h = m.substructure({sel})" + ("" if op["keep"] else "; del h"))
        elif op["c"] == "EnsembleConformer":
            lines.append("h = ml.ConformerEnsemble(m, n_conformers=1); c0 = h[0]" + ("" if op["keep"] else "; del h, c0"))
        else:
            lines.append(f"h{'' if not op['keep'] else id(op) % 97} = ml.{op['c']}([m.atoms[i] for i in {sel}])  # shares the atom objects" + ("" if op["keep"] else "; del h"))
    if w == "dumps_mol2":
        lines.append("text = m.dumps_mol2()")
    else:
        lines.append("s = io.StringIO(); m.dump_mol2(s); text = s.getvalue()")
    lines.append("print(text)")
    cname, fn = r.split(".", 1)
    base = fn.split("[")[0]
    if "[" in fn:
        lines.append(f"r = ml.{cname}.{base}(io.StringIO(text))")
    else:
        lines.append(f"r = ml.{cname}.{base}(text)")
    lines.append("print(r, getattr(r, 'coords', None), getattr(r, 'atomic_charges', None), getattr(r, 'bonds', None))")
    lines.append("r0 = r[0] if isinstance(r, list) else r")
    lines.append("s = io.StringIO(); r0.dump_mol2(s); print(s.getvalue())  # second write")
    return "\n".join(lines)


# =================================================================================================
# one small-scope case through the full writer x reader matrix
# =================================================================================================
def is_nontrivial(spec):
    if not spec["atoms"]:
        return False
    for a, p, q in zip(spec["atoms"], spec["frames"][0]["xyz"], spec["frames"][0]["q"]):
        z, lab, t, g = a[:4]
        if len(a) > 4 or lab or t != int(AtomType.Regular) or g != 0 or q != 0 or any(c == c and c != 0 for c in p):
            return True
    return bool(spec["bonds"]) or len(spec["frames"]) > 1


def _evaluate(ctx, obj, spec, tmp, tmpw):
    """the written object through every writer x every reader + the fixed-point step
    -> (cells {symptom: {(writer, reader)}}, detail, texts {text: [writers]}, wfail {symptom: [(writer, detail)]})"""
    kind = spec["kind"]
    cells: dict = {}
    detail: dict = {}
    texts: dict = {}
    wfail: dict = {}
    for w in WRITERS:
        ctx.count(transitions=1)
        try:
            t = do_write(obj, w, tmpw)
        except Exception as e:
            wfail.setdefault(f"raised-{exc(e)}", []).append((w, f"{exc(e)}: {e}"))
            continue
        if not isinstance(t, str):
            wfail.setdefault("did-not-return-text", []).append((w, type(t).__name__))
            continue
        texts.setdefault(t, []).append(w)
    for text in sorted(texts):
        ws = texts[text]
        tmp.write_text(text, encoding="utf-8", newline="")
        for r in READERS:
            ctx.count(transitions=1)
            try:
                res = do_read(r, text, tmp)
            except Exception as e:
                syms = [(f"read-raised-{exc(e)}", f"{exc(e)}: {e}")]
            else:
                try:
                    syms = observe(spec, r, res)
                except Exception as e:
                    if not raised_in_library(e):
                        raise
                    syms = [(f"result-unusable-{exc(e)}", f"{exc(e)}: {e}")]
            for s, d in syms:
                for w in ws:
                    cells.setdefault(s, set()).add((w, r))
                    detail.setdefault((s, w, r), d)
                detail.setdefault(s, d)
        # ---- fixed point through the same class: W(R(text)) == text
        primary_r = KINDNAME[kind] + ".loads_mol2"
        for w in ws:
            ctx.count(transitions=2)
            try:
                o2 = do_read(primary_r, text, tmp)
                t2 = do_write(o2, w, tmpw)
            except Exception:
                continue  # reported above as read-raised / write raised
            for cl in classify_text_diff(text, t2):
                s = f"not-a-fixed-point:{cl}"
                cells.setdefault(s, set()).add((w, primary_r))
                detail.setdefault(s, f"second write differs from the first ({cl})")
    return cells, detail, texts, wfail


def check_spec(ctx, spec, history=None):
    tmp = Path(ctx.scratch) / f"c07-{os.getpid()}.mol2"
    tmpw = Path(ctx.scratch) / f"c07-{os.getpid()}-w.mol2"
    case = {"layer": "S", "spec": spec}
    if history:
        case["history"] = history
    tag = history_tag(history)
    xf = sorted({k_ for a in spec["atoms"] if len(a) > 4 for k_ in a[4]})
    if xf:  # input class: atoms carry fields the mol2 format does not store
        tag = "atom-fields[" + ("+".join(xf) if len(xf) <= 2 else "many") + "]|" + tag
    ctx.count(evaluations=1, states=1, traces=1)
    key = digest((spec, history))
    if is_nontrivial(spec):
        ctx.nontrivial(key)
    try:
        obj, espec, _keep_alive = prepare(spec, history)
    except UnderTestDeviation as e:
        # the history / atom-field tags describe what happens AFTER construction: only a failing history op carries one
        t = history_tag(history) if e.symptom.startswith("history-op") else ""
        ctx.violation(f"setup|{KINDNAME[spec['kind']]}|{t}{e.symptom}", e.detail, case)
        ctx.outcome(("setup", e.symptom))
        return {}
    kind = espec["kind"]
    cells, detail, texts, wfail = _evaluate(ctx, obj, espec, tmp, tmpw)
    base_syms: set = set()
    if tag and (cells or wfail):
        # which symptoms belong to the HISTORY / to the extra atom fields?  the same written structure, freshly built without
        # any history (and, when there is no history, without the extra fields), is evaluated too; what it shows as well
        # is reported without the tag (as the S layers do)
        try:
            plain = espec if history else dict(espec, atoms=[a[:4] for a in espec["atoms"]])
            obj0, espec0 = build(plain)
            c0, _d0, _t0, w0 = _evaluate(ctx, obj0, espec0, tmp, tmpw)
            base_syms = set(c0) | {"write:" + k for k in w0}
        except UnderTestDeviation:
            pass
    for sym in sorted(wfail):
        ws = [w for w, _ in wfail[sym]]
        t = "" if ("write:" + sym) in base_syms else tag
        ctx.violation(
            f"write|{KINDNAME[kind]}|{t}{sym}|w={_desc(ws, WRITERS)}",
            f"{KINDNAME[kind]}.{ws[0]} on a valid structure {t}: {wfail[sym][0][1]}",
            case,
            repro=repro_spec(spec, ws[0], KINDNAME[kind] + ".loads_mol2", history),
        )
    ctx.outcome((digest(sorted(texts)), tuple(sorted(cells)), tuple(sorted(wfail))))
    if cells:
        wok = sorted(w for ws in texts.values() for w in ws)
        plain = {k: v for k, v in cells.items() if k in base_syms or not tag}
        tagged = {k: v for k, v in cells.items() if k not in plain}
        if plain:
            emit_matrix(ctx, espec, plain, detail, wok, case, "")
        if tagged:
            emit_matrix(ctx, espec, tagged, detail, wok, case, tag)
    clear_bond_cache()
    return texts


# =================================================================================================
# alphabets of the small-scope layers
# =================================================================================================
NAMES = ["m", "a b", "#c", "x_1-2", "1", "Name-9"]  # one-line names (no leading/trailing blank, not empty)
LABELS = [None, "", "C", "x", "L2345678", "7", "C.ar"]  # whitespace-free labels (+ the two "empty" ones)
# coordinate values of DESIGN C07 (c) plus two half-way cases
CVALS = [0.0, -0.0000004, 1.5, -123456.789, 1e7, NAN, 0.1234565, 99999.9999995]
CHARGES = [0.0, 0.0004, -0.0005, 1.2345, -12.5, -0.0004]
REG, UNKG = int(AtomType.Regular), int(AtomGeom.Unknown)
EL_SMALL = [6, 0, 118]  # C, Unknown, Og
BT = {b.name: int(b) for b in BondType}
BT_QUICK = ["Single", "Double", "Triple", "Aromatic", "Amide", "Dummy", "NotConnected", "Unknown", "Quadruple", "Ligand"]
BT_ALL = [b.name for b in BondType]


def triples(seed, vals=CVALS):
    """len(vals) coordinate triples: every value occurs in every axis (seed rotates the pairing)"""
    n = len(vals)
    s1, s2 = 1 + seed % (n - 1), 1 + (2 * seed + 2) % (n - 1)
    return [(vals[i], vals[(i + s1) % n], vals[(i + s1 + s2) % n]) for i in range(n)]


def gen_S0(seed, thorough):
    for name in rot(NAMES, seed):
        for kind, k in (("M", 1), ("S", 1), ("E", 1), ("E", 2), ("E", 3)):
            yield mkspec(kind, name, [], [{"xyz": [], "q": []}] * k, [])


def gen_S1(seed, thorough):
    """one atom: name x label x coordinate triple x charge x element x kind"""
    names = rot(NAMES, seed)
    tr = triples(seed)
    for ni, name in enumerate(names):
        for lab in rot(LABELS, seed):
            # quick: the name (a line of its own) is crossed with the label only; thorough: with everything
            for p in tr if (thorough or ni == 0) else tr[:1]:
                for q in rot(CHARGES, seed) if (thorough or ni == 0) else CHARGES[3:4]:
                    for z in EL_SMALL if (thorough or ni == 0) else EL_SMALL[:1]:
                        for kind in ("M", "S", "E"):
                            yield mkspec(kind, name, [(z, lab, REG, UNKG)], [{"xyz": [p], "q": [q]}], [])
    if thorough:
        # every element
        for lab in rot(LABELS, seed):
            for p in triples(seed):
                for q in rot(CHARGES, seed):
                    for z in [int(e) for e in Element if int(e) not in EL_SMALL]:
                        for kind in ("M", "S", "E"):
                            yield mkspec(kind, names[0], [(z, lab, REG, UNKG)], [{"xyz": [p], "q": [q]}], [])
        # independent axes: every ordered triple of the coordinate values
        for p in itertools.product(CVALS, repeat=3):
            for q in CHARGES:
                for lab in ("x", None):
                    for kind in ("M", "S", "E"):
                        yield mkspec(kind, names[0], [(6, lab, REG, UNKG)], [{"xyz": [p], "q": [q]}], [])


def descriptors(seed, thorough):
    """atom descriptors that differ pairwise in element, label, position and charge"""
    tr = triples(seed + 1)
    base = [
        (6, "C1", 0),
        (1, None, 1),
        (7, "N", 2),
        (0, "", 3),
        (8, "L2345678", 4),
        (118, "7", 6),
    ]
    if thorough:
        base += [(26, "Fe.x", 7), (17, "x", 5)]
    out = []
    for i, (z, lab, ti) in enumerate(base):
        out.append(((z, lab, REG, UNKG), tr[ti % len(tr)], CHARGES[(i + seed) % len(CHARGES)]))
    return out


def gen_S2(seed, thorough):
    """2..3 (thorough: ..4) atoms: every sequence (with repetition) of the descriptors x bond layout x kind"""
    D = descriptors(seed, thorough)
    order = rot(BT_QUICK[:8], seed)
    lay = {
        2: [[], [(0, 1)], [(1, 0)]],
        3: [[], [(0, 1)], [(2, 0)], [(1, 2), (0, 1)], [(0, 2), (2, 1), (1, 0)]],
        4: [[], [(3, 0)], [(0, 1), (1, 2), (2, 3), (3, 0)], [(3, 1), (2, 0)]],
    }
    sizes = (2, 3, 4) if thorough else (2, 3)
    for n in sizes:
        Dn = D if n < 4 else D[:5]
        for seq in itertools.product(range(len(Dn)), repeat=n):
            atoms = [Dn[i][0] for i in seq]
            xyz = [Dn[i][1] for i in seq]
            q = [Dn[i][2] for i in seq]
            for li, layout in enumerate(lay[n]):
                bonds = [(i, j, BT[order[(bi + li) % len(order)]]) for bi, (i, j) in enumerate(layout)]
                for kind in ("M", "S", "E"):
                    frames = [{"xyz": xyz, "q": q}]
                    if kind == "E":
                        # second conformer: positions and charges of the atoms shifted cyclically
                        frames.append({"xyz": xyz[1:] + xyz[:1], "q": q[1:] + q[:1]})
                    yield mkspec(kind, "s2", atoms, frames, bonds)


def gen_S3(seed, thorough):
    """3 atoms, every subset of the 3 atom pairs x every bond type x both endpoint orders"""
    types = rot(BT_ALL if thorough else BT_QUICK, seed)
    tr = triples(seed + 2)
    atoms = [(6, "C1", REG, UNKG), (7, None, REG, UNKG), (8, "O3", REG, UNKG)]
    xyz = [tr[0], tr[2], tr[3]]
    q = [0.1, -0.2, 0.3]
    pairs = [(0, 1), (0, 2), (1, 2)]
    for r in range(0, 4):
        for sub in itertools.combinations(pairs, r):
            if thorough or r < 3:
                per_bond = [[(i, j, BT[t]) for t in types] + [(j, i, BT[t]) for t in types] for (i, j) in sub]
                combos = itertools.product(*per_bond)
            else:
                # quick tier, all three bonds present: the 8 expressible types per bond x 3 endpoint-order patterns
                ty = [t for t in types if t in EXPRESSIBLE]
                combos = (
                    tuple((i, j, BT[t]) if fwd else (j, i, BT[t]) for (i, j), t, fwd in zip(sub, ts, pat))
                    for ts in itertools.product(ty, repeat=3)
                    for pat in ((True, True, True), (False, False, False), (True, False, True))
                )
            for bonds in combos:
                for kind in ("M", "S", "E"):
                    yield mkspec(kind, "s3", atoms, [{"xyz": xyz, "q": q}], list(bonds))


def gen_S4(seed, thorough):
    """ensembles: every sequence of 1..3 frames (with repetition) from a frame alphabet, 1..2 atoms;
    the same texts are also what Molecule/Structure.loads_all_mol2 must return in order"""
    tr = triples(seed + 3)
    nF = 5 if thorough else 4
    for n in (1, 2):
        atoms = [(6, "C1", REG, UNKG), (1, "H2", REG, UNKG)][:n]
        F = [{"xyz": [tr[(f + a) % len(tr)] for a in range(n)], "q": [CHARGES[(f + 2 * a) % len(CHARGES)] for a in range(n)]} for f in range(nF)]
        bonds = [(1, 0, BT["Double"])] if n == 2 else []
        for k in (1, 2, 3):
            for seq in itertools.product(range(nF), repeat=k):
                yield mkspec("E", "ens", atoms, [F[i] for i in seq], bonds)


def gen_TC(seed, thorough):
    """every bond type x endpoint order on a 2-atom molecule, every kind"""
    tr = triples(seed)
    for t in rot(BT_ALL, seed):
        for i, j in ((0, 1), (1, 0)):
            for kind in ("M", "S", "E"):
                yield mkspec(kind, "bt", [(6, "C1", REG, UNKG), (7, "N2", REG, UNKG)], [{"xyz": [tr[0], tr[2]], "q": [0.5, -0.5]}], [(i, j, BT[t])])


def gen_SX(seed, thorough):
    """atoms that carry every field the mol2 format does NOT store (isotope, stereo, formal charge / spin, attrib): the text must still
    read back with everything the format does store"""
    tr = triples(seed + 9, [v for v in CVALS if v == v])
    single = [
        (1, {"isotope": 2}),
        (1, {"isotope": 3}),
        (6, {"isotope": 13}),
        (8, {"isotope": 18}),
        (7, {"formal_charge": 1}),
        (8, {"formal_charge": -2}),
        (6, {"formal_spin": 1}),
        (6, {"stereo": int(AtomStereo.R)}),
        (6, {"attrib": {"k": "v", "n": 1}}),
    ]
    everything = {"isotope": 2, "formal_charge": -1, "formal_spin": 1, "stereo": int(AtomStereo.S), "attrib": {"note": "x y"}}
    items = [(z, "L1", REG, UNKG, x) for z, x in single] + [(1, None, REG, UNKG, everything), (1, "D1", int(AtomType.Aromatic), int(AtomGeom.R1), everything), (6, "C9", int(AtomType.sp3), UNKG, dict(everything, isotope=13))]
    plain = (8, "O2", REG, UNKG)
    for i, a in enumerate(rot(items, seed)):
        for kind in ("M", "S", "E"):
            yield mkspec(kind, "sx", [a], [{"xyz": [tr[i % len(tr)]], "q": [0.25]}], [])
            frames = [{"xyz": [tr[0], tr[(i + 1) % len(tr)]], "q": [-0.5, 0.125]}]
            if kind == "E":
                frames.append({"xyz": [tr[2], tr[(i + 3) % len(tr)]], "q": [0.5, -0.125]})
            yield mkspec(kind, "sx", [plain, a], frames, [(1, 0, BT["Single"])])


S_LAYERS = {"SX": gen_SX, "S0": gen_S0, "S1": gen_S1, "S2": gen_S2, "S3": gen_S3, "S4": gen_S4, "TC": gen_TC}


# =================================================================================================
# TA : atom-local typing
# =================================================================================================
def all_triples():
    return [(int(e), int(t), int(g)) for e in Element for t in AtomType for g in AtomGeom]


def typing_violation(ctx, tok, sym, what, case, repro=None):
    ctx.violation(f"typing|token[{tokclass(tok)}]|{sym}", what, case, repro)


def repro_triple(z, t, g):
    return (
        "from molli.chem import Atom, Element, AtomType, AtomGeom\n"
        f"a = Atom(Element({z}), atype=AtomType({t}), geom=AtomGeom({g}))\n"
        "tok = a.get_mol2_type(); b = Atom(); b.set_mol2_type(tok)\n"
        "print(tok, '->', b.get_mol2_type(), b.element, b.atype, b.geom)"
    )


def check_triple(ctx, tr):
    z, t, g = tr
    case = {"layer": "TA", "triple": [z, t, g]}
    ctx.count(evaluations=1, states=1, traces=1)
    a = Atom(Element(z), atype=AtomType(t), geom=AtomGeom(g))
    ctx.count(transitions=1)
    try:
        tok = a.get_mol2_type()
    except Exception as e:
        ctx.violation(f"typing|get_mol2_type|raised-{exc(e)}", f"get_mol2_type of {Element(z).name}/{AtomType(t).name}/{AtomGeom(g).name} raised {exc(e)}: {e}", case)
        return None
    if not isinstance(tok, str) or not tok or tok.split() != [tok]:
        ctx.violation("typing|get_mol2_type|not-a-token", f"get_mol2_type returned {tok!r}", case)
        return None
    if t != REG or g != UNKG:
        ctx.nontrivial(("TA", z, t, g))
    b = Atom()
    ctx.count(transitions=1)
    try:
        b.set_mol2_type(tok)
    except Exception as e:
        typing_violation(ctx, tok, f"rejected-by-reader-{exc(e)}", f"token {tok!r} emitted for {Element(z).name}/{AtomType(t).name}/{AtomGeom(g).name} is rejected by set_mol2_type: {exc(e)}: {e}", case, repro_triple(z, t, g))
        ctx.outcome(("TA", tokclass(tok), "rejected"))
        return tok
    if int(b.element) != z:
        typing_violation(ctx, tok, "element-changed", f"token {tok!r}: element {Element(z).name} read back as {b.element!r}", case, repro_triple(z, t, g))
    ctx.count(transitions=1)
    tok2 = b.get_mol2_type()
    if tok2 != tok:
        ctx.add_note("TA_typings_not_a_fixed_point")
        typing_violation(
            ctx,
            tok,
            f"rewritten-as[{tokclass(tok2)}]",
            f"token {tok!r} (from {Element(z).name}/{AtomType(t).name}/{AtomGeom(g).name}) is read and written again as {tok2!r}: not a fixed point",
            case,
            repro_triple(z, t, g),
        )
    ctx.outcome(("TA", tokclass(tok), tokclass(tok2)))
    return tok


# =================================================================================================
# TB : typing through whole texts (primary entry points; only the atom-type clauses are judged
#      here - the other clauses are judged with the full entry matrix in the S layers)
# =================================================================================================
def tb_spec(kind, trs, seed, bonded=False):
    n = len(trs)
    atoms, xyz, q = [], [], []
    for i, (z, t, g) in enumerate(trs):
        atoms.append((z, f"a{i}", t, g))
        xyz.append((((i * 37 + seed * 11) % 1000) / 8.0 - 60.0, (i % 7) * -1.25, 0.001 * i))
        q.append(((i + seed) % 9 - 4) * 0.125)
    bonds = [(0, 1, BT["Single"])] if bonded and n == 2 else []
    return mkspec(kind, "typing", atoms, [{"xyz": xyz, "q": q}], bonds)


def hash_pair(trs):
    (z1, t1, g1), (z2, t2, g2) = trs
    return ((((z1 * 1000 + t1) * 100 + g1) * 1000 + z2) * 1000 + t2) * 100 + g2


def atom_type_column(text):
    out, on = [], False
    for line in text.split("\n"):
        if line.startswith("@<TRIPOS>"):
            on = line.strip() == "@<TRIPOS>ATOM"
            continue
        if on and line.strip():
            f = line.split()
            out.append(f[5] if len(f) > 5 else None)
    return out


def check_tb(ctx, kind, trs, seed, bonded=False):
    spec = tb_spec(kind, trs, seed, bonded)
    case = {"layer": "TB", "kind": kind, "triples": [list(t) for t in trs], "bonded": bonded}
    ctx.count(evaluations=1, states=1, traces=1)
    try:
        obj, _ = build(spec)
    except UnderTestDeviation as e:
        ctx.violation(f"setup|{KINDNAME[kind]}|{e.symptom}", e.detail, case)
        return
    tmp = Path(ctx.scratch) / f"c07-{os.getpid()}.mol2"
    w = "dump_mol2[StringIO]"  # (Structure.dumps_mol2 is judged in the S layers)
    rname = KINDNAME[kind] + ".loads_mol2"
    kn = KINDNAME[kind]
    ctx.count(transitions=1)
    try:
        t1 = do_write(obj, w, tmp)
    except Exception as e:
        ctx.violation(f"typing-text|{kn}|write-raised-{exc(e)}", f"writing atoms of every type raised {exc(e)}: {e}", case)
        return
    col1 = atom_type_column(t1)
    ctx.count(transitions=1)
    try:
        r = do_read(rname, t1, tmp)
    except Exception as e:
        # find the token(s) responsible: one atom at a time would be layer TA; name the classes present
        ctx.violation(f"typing-text|{kn}|read-raised-{exc(e)}", f"the reader rejects a text molli wrote ({exc(e)}: {e}); tokens {sorted(set(col1))[:6]}...", case)
        ctx.outcome(("TB", "read-raised"))
        return
    atoms = r.atoms
    if len(atoms) != len(trs) or len(col1) != len(trs):
        ctx.violation(f"typing-text|{kn}|atom-count-changed", f"{len(atoms)} atoms read / {len(col1)} atom lines, {len(trs)} written", case)
        return
    for i, (z, t, g) in enumerate(trs):
        if int(atoms[i].element) != z:
            typing_violation(ctx, col1[i] or "?", "element-changed", f"through {kn} text: token {col1[i]!r}: element {Element(z).name} read back as {atoms[i].element!r}", case)
            break
    ctx.count(transitions=1)
    try:
        t2 = do_write(r, w, tmp)
    except Exception as e:
        ctx.violation(f"typing-text|{kn}|second-write-raised-{exc(e)}", f"{exc(e)}: {e}", case)
        return
    col2 = atom_type_column(t2)
    seen = set()
    if len(col2) == len(col1):
        for i, (x, y) in enumerate(zip(col1, col2)):
            if x != y and (tokclass(x), tokclass(y)) not in seen:
                seen.add((tokclass(x), tokclass(y)))
                typing_violation(ctx, x, f"rewritten-as[{tokclass(y)}]", f"through {kn} text: atom {i} type {x!r} is written as {y!r} by the second write: not a fixed point", case)
    else:
        ctx.violation(f"typing-text|{kn}|atom-lines-changed", "second write has a different number of atom lines", case)
    if bonded:
        # pair layer: ~10^6 cases - keep the bookkeeping small (an int per case, outcome = classes)
        ctx.nontrivial(hash_pair(trs))
        ctx.outcome(("TB2", tuple(tokclass(x) for x in col1), tuple(tokclass(y) for y in col2)))
    else:
        ctx.nontrivial(("TB", digest(case)))
        ctx.outcome(("TB", digest(col1), digest(col2)))
    clear_bond_cache()


# =================================================================================================
# BL : bond types bond-locally + histories of set_mol2_type on ONE bond
# =================================================================================================
def check_bond_local(ctx, bt):
    case = {"layer": "BL", "btype": int(bt)}
    ctx.count(evaluations=1, states=1, traces=1)
    a1, a2 = Atom("C"), Atom("N")
    b = Bond(a1, a2, btype=BondType(bt))
    ctx.count(transitions=1)
    name = BondType(bt).name
    try:
        tok = b.get_mol2_type()
    except Exception as e:
        ctx.violation(f"bond-typing|get_mol2_type|raised-{exc(e)}", f"Bond.get_mol2_type for {name} raised {exc(e)}: {e}", case)
        return
    c = Bond(a1, a2)
    ctx.count(transitions=1)
    try:
        c.set_mol2_type(tok)
    except Exception as e:
        ctx.violation(f"bond-typing|token[{tok}]|rejected-by-reader-{exc(e)}", f"bond token {tok!r} emitted for {name} is rejected by set_mol2_type: {exc(e)}: {e}", case)
        return
    ctx.count(transitions=1)
    tok2 = c.get_mol2_type()
    if tok2 != tok:
        ctx.violation(f"bond-typing|token[{tok}]|rewritten-as[{tok2}]", f"bond token {tok!r} is read and written again as {tok2!r}", case)
    if name in EXPRESSIBLE and BondType(c.btype).name != name:
        ctx.violation(f"bond-typing|type-changed[{name}->{BondType(c.btype).name}]", f"bond type {name} -> {tok!r} -> {BondType(c.btype).name}", case)
    ctx.nontrivial(("BL", int(bt)))
    ctx.outcome(("BL", tok, tok2))


def check_bond_history(ctx, seq):
    """set_mol2_type(t1), set_mol2_type(t2), ... on one bond: after each accepted call the bond
    must carry the token it was given (the reader 'accepts' a token only if it applies it)"""
    case = {"layer": "BS", "seq": list(seq)}
    ctx.count(evaluations=1, states=1, traces=1)
    b = Bond(Atom("C"), Atom("N"))
    for step, tok in enumerate(seq):
        ctx.count(transitions=2)
        try:
            b.set_mol2_type(tok)
            got = b.get_mol2_type()
        except Exception as e:
            ctx.violation(f"bond-typing|set-history|raised-{exc(e)}", f"history {list(seq)[:step+1]} raised {exc(e)}: {e}", case)
            return
        if got != tok:
            repeated = tok in seq[:step]
            ctx.violation(
                "bond-typing|set-history|" + ("token-repeated-on-the-same-bond-is-ignored" if repeated else "token-not-applied"),
                f"after set_mol2_type calls {list(seq)[:step+1]} on one bond, get_mol2_type() is {got!r}, not {tok!r}",
                case,
                repro=(
                    "from molli.chem import Atom, Bond\nb = Bond(Atom('C'), Atom('N'))\n"
                    + "".join(f"b.set_mol2_type({t!r})\n" for t in seq[: step + 1])
                    + f"print(b.btype, b.get_mol2_type())  # expected token {tok!r}"
                ),
            )
            ctx.outcome(("BS", "stale"))
            return
    if len(seq) > 1:
        ctx.nontrivial(("BS", tuple(seq)))
    ctx.outcome(("BS", seq[-1]))


# =================================================================================================
# SH : multi-molecule texts whose blocks are DIFFERENT molecules (equal or different size):
#      per-stream / per-block state of the reader must not leak from one block into the next
#      (name, elements, labels, coordinates, charges, bond list, charge type of the block)
# =================================================================================================
MM_ALL = [f"{c}.{f}" for c in ("Molecule", "Structure") for f in ("loads_all_mol2", "load_all_mol2[StringIO]", "load_all_mol2[path]", "yield_from_mol2")]
MM_FIRST = [f"{c}.{f}" for c in ("Molecule", "Structure") for f in ("loads_mol2", "load_mol2[StringIO]", "load_mol2[path]")]
MM_SOURCES = ["molli:Molecule.dumps_mol2", "molli:Structure.dump_mol2", "harness:USER_CHARGES", "harness:NO_CHARGES/USER_CHARGES", "harness:USER_CHARGES/NO_CHARGES"]
BOND_TOKEN = {"Single": "1", "Double": "2", "Triple": "3", "Aromatic": "ar", "Amide": "am", "Dummy": "du", "Unknown": "un", "NotConnected": "nc"}


MM_PARSER = ["parsing.read_mol2"]


class _Shim:
    def __init__(self, **kw):
        self.__dict__.update(kw)


def mol2_block_shim(b):
    """a MOL2Block of the public parser API as a molecule-like object for the oracle (+ header/record consistency)"""
    atoms = []
    for a in b.atoms:
        tok = a.mol2_type.split(".")
        sym = tok[1] if tok[0] == "Du" and len(tok) > 1 else tok[0]
        atoms.append(_Shim(element=int(Element[sym]) if sym in Element.__members__ else -1, label=a.label))
    bonds = [_Shim(a1=atoms[bd.a1 - 1], a2=atoms[bd.a2 - 1], btype=BondType[BOND_OF_TOKEN[bd.mol2_type]]) for bd in (b.bonds or [])]
    return _Shim(
        name=b.header.name,
        atoms=atoms,
        coords=np.array([a.xyz for a in b.atoms], dtype=float).reshape(len(atoms), 3),
        atomic_charges=np.array([a.charge for a in b.atoms], dtype=float),
        bonds=bonds,
        header_ok=b.header.n_atoms == len(atoms) and (b.header.n_bonds in (None, len(bonds))),
        header=(b.header.n_atoms, b.header.n_bonds, len(atoms), len(bonds)),
    )


def mm_read(entry, text, tmp):
    if entry == "parsing.read_mol2":
        from molli.parsing import read_mol2

        blocks = list(read_mol2(io.StringIO(text)))  # consume the generator FIRST, look at the blocks afterwards
        return [mol2_block_shim(b) for b in blocks]
    cname, fn = entry.split(".", 1)
    if fn == "yield_from_mol2":
        return list(RCLASS[cname].yield_from_mol2(io.StringIO(text)))
    return do_read(entry, text, tmp)


def mm_block_is_no_charges(source, bi):
    if source == "harness:NO_CHARGES/USER_CHARGES":
        return bi % 2 == 0
    if source == "harness:USER_CHARGES/NO_CHARGES":
        return bi % 2 == 1
    return False


def mm_text(blocks, source, tmp):
    """-> (text, expected blocks as pseudo specs)"""
    exp = []
    if source.startswith("molli:"):
        kind = "M" if "Molecule" in source else "S"
        parts = []
        for b in blocks:
            spec = mkspec(kind, b["name"], b["atoms"], [{"xyz": b["xyz"], "q": b["q"]}], b["bonds"])
            obj, ref = build(spec)
            parts.append(do_write(obj, "dumps_mol2" if kind == "M" else "dump_mol2[StringIO]", tmp))
            exp.append(ref)
        return "".join(parts), exp
    out = []
    for bi, b in enumerate(blocks):
        noq = mm_block_is_no_charges(source, bi)
        n = len(b["atoms"])
        out.append(f"@<TRIPOS>MOLECULE\n{b['name']}\n{n} {len(b['bonds'])} 0 0 0\nSMALL\n{'NO_CHARGES' if noq else 'USER_CHARGES'}\n\n@<TRIPOS>ATOM\n")
        atoms = []
        for i, ((z, lab, t, g), p, q) in enumerate(zip(b["atoms"], b["xyz"], b["q"])):
            sym = Element(z).name
            lab = lab or f"{sym}{i + 1}"
            atoms.append([z, lab, t, g])
            out.append(f"{i + 1:>6} {lab} {p[0]:.6f} {p[1]:.6f} {p[2]:.6f} {sym} 1 UNL1 {0.0 if noq else q:.4f}\n")
        out.append("@<TRIPOS>BOND\n")
        for k, (i, j, bt) in enumerate(b["bonds"]):
            out.append(f"{k + 1:>6} {i + 1:>6} {j + 1:>6} {BOND_TOKEN[BondType(bt).name]}\n")
        exp.append(mkspec("M", b["name"], atoms, [{"xyz": b["xyz"], "q": [0.0] * n if noq else b["q"]}], b["bonds"]))
    return "".join(out), exp


_MM_CLAUSE = {"name-changed": "name", "atom-count-changed": "atom-count", "element-changed": "elements", "atoms-reordered": "elements", "label-changed": "labels"}


def mm_clause(sym):
    if sym in _MM_CLAUSE:
        return _MM_CLAUSE[sym]
    for pre in ("coords", "charges", "bond"):
        if sym.startswith(pre):
            return pre if pre != "bond" else "bonds"
    return sym


def mm_cmp(exp, m, want_q):
    return cmp_frame(exp, 0, m.name, m.atoms, m.coords, getattr(m, "atomic_charges", None), m.bonds, want_q)


def check_multimol(ctx, blocks):
    """blocks: [{"name", "atoms": [[Z,label,atype,geom]..], "xyz", "q", "bonds"}..] - each its own molecule"""
    tmp = Path(ctx.scratch) / f"c07-{os.getpid()}-mm.mol2"
    tmpw = Path(ctx.scratch) / f"c07-{os.getpid()}-mmw.mol2"
    k = len(blocks)
    case = {"layer": "SH", "blocks": blocks}
    ctx.count(evaluations=1, states=1, traces=1)
    if any(blocks[i] != blocks[i - 1] for i in range(1, k)):
        ctx.nontrivial(("SH", digest(blocks)))
    cells, detail = {}, {}

    def add(sym, src, r, d):
        cells.setdefault(sym, set()).add((src, r))
        detail.setdefault((sym, src, r), d)

    texts = []
    for src in MM_SOURCES:
        ctx.count(transitions=k if src.startswith("molli:") else 0)
        try:
            text, exp = mm_text(blocks, src, tmpw)
        except HarnessError:
            raise
        except UnderTestDeviation as e:
            add(f"build-{e.symptom}", src, "-", e.detail)
            continue
        except Exception as e:
            add(f"write-raised-{exc(e)}", src, "-", f"{exc(e)}: {e}")
            continue
        texts.append(text)
        tmp.write_text(text, encoding="utf-8", newline="")
        for r in MM_ALL + MM_FIRST + MM_PARSER:
            ctx.count(transitions=1)
            cname = r.split(".")[0]
            want_q = cname in ("Molecule", "parsing") and src != "molli:Structure.dump_mol2"
            try:
                res = mm_read(r, text, tmp)
            except Exception as e:
                add(f"read-raised-{exc(e)}", src, r, f"{exc(e)}: {e}")
                continue
            if r in MM_FIRST:
                if not isinstance(res, RCLASS[cname]):
                    add("wrong-result-type", src, r, type(res).__name__)
                    continue
                sy = mm_cmp(exp[0], res, want_q)
                if sy:
                    later = [j for j in range(1, k) if blocks[j] != blocks[0] and not mm_cmp(exp[j], res, want_q)]
                    if later:
                        add("first-molecule-reader-returned-a-later-molecule", src, r, f"molecule {later[0]} of {k} returned instead of molecule 0")
                    else:
                        for s_, d in sy:
                            add(s_, src, r, d)
                continue
            if not isinstance(res, list) or (r not in MM_PARSER and any(not isinstance(m, RCLASS[cname]) for m in res)):
                add("wrong-result-type", src, r, type(res).__name__)
                continue
            if len(res) != k:
                add("molecule-count-changed", src, r, f"{len(res)} molecules read, {k} written")
                continue
            if r in MM_PARSER and any(not m.header_ok for m in res):
                bad = next(m for m in res if not m.header_ok)
                add("block-header-counts-disagree-with-its-records", src, r, f"header says {bad.header[0]} atoms / {bad.header[1]} bonds, the block holds {bad.header[2]} / {bad.header[3]}")
            for bi in range(k):
                sy = mm_cmp(exp[bi], res[bi], want_q)
                if not sy:
                    continue
                if r in MM_PARSER:
                    # one symptom for the parser-level API (which clause differs is in the message)
                    add("parser-block-content-differs-from-the-text", src, r, f"block {bi} of {k} kept from list(read_mol2(...)): " + "; ".join(d for _s, d in sy)[:300])
                    continue
                mine = {mm_clause(s_) for s_, _ in sy}
                leaked = set()
                for j in range(bi):
                    theirs = {mm_clause(s_) for s_, _ in mm_cmp(exp[j], res[bi], want_q)}
                    if "atom-count" not in theirs:
                        leaked |= mine - theirs
                for s_, d in sy:
                    c = mm_clause(s_)
                    if c in leaked:
                        add(f"molecule-has-the-{c}-of-an-earlier-molecule", src, r, f"molecule {bi} of {k}: {d}")
                    else:
                        add(s_, src, r, f"molecule {bi} of {k}: {d}")
    ctx.outcome(("SH", digest(texts), tuple(sorted(cells))))
    clear_bond_cache()

    def rdesc(rs):
        rs = set(rs)
        if rs == set(MM_ALL + MM_FIRST + MM_PARSER):
            return "*"
        if rs == set(MM_ALL + MM_PARSER):
            return "all-molecule-readers"
        if rs == set(MM_ALL):
            return "object-level-all-molecule-readers"
        if rs == set(MM_FIRST):
            return "first-molecule-readers"
        for c in ("Molecule", "Structure"):
            if rs == {x for x in MM_ALL if x.startswith(c + ".")}:
                return f"{c}:all-molecule-readers"
            if rs == {x for x in MM_ALL + MM_FIRST if x.startswith(c + ".")}:
                return f"{c}:*"
        return ",".join(sorted(rs))

    def sdesc(ss):
        ss = set(ss)
        if ss == set(MM_SOURCES):
            return "*"
        if ss == {x for x in MM_SOURCES if x.startswith("harness:")}:
            return "harness:*"
        if ss == {x for x in MM_SOURCES if x.startswith("molli:")}:
            return "molli:*"
        # the two mixed-charge-type sources differ only in which block comes first: one input class
        names = ["harness:mixed-charge-types" if "/" in x else x for x in MM_SOURCES if x in ss]
        return ",".join(dict.fromkeys(names))

    for sym in sorted(cells):
        cs = cells[sym]
        srcs = sorted({a for a, _ in cs}, key=MM_SOURCES.index)
        rs = sorted({b for _, b in cs})
        groups = [(srcs, rs)] if cs == set(itertools.product(srcs, rs)) else [([a], sorted(b for a2, b in cs if a2 == a)) for a in srcs]
        for gs, gr in groups:
            ctx.violation(
                f"rt-multi|{sym}|src={sdesc(gs)}|r={rdesc(gr)}",
                f"{k}-molecule mol2 text of different molecules ({gs[0]}), read by {gr[0]}: {detail[(sym, gs[0], gr[0])]}",
                case,
                repro=repro_multimol(blocks, gs[0], gr[0]),
            )


def repro_multimol(blocks, src, r):
    if src.startswith("molli:"):
        src = "harness:USER_CHARGES"
    text, _ = mm_text(blocks, src, None)
    if "." not in r:  # a write-side finding: there is no reader in the cell
        r = "Molecule.loads_all_mol2"
    cname, fn = r.split(".", 1)
    base = fn.split("[")[0]
    arg = "text" if base.startswith("loads") else "io.StringIO(text)"
    return (
        "import io, molli as ml\n"
        f"text = {text!r}\n"
        f"r = ml.{cname}.{base}({arg})\n"
        "r = [r] if hasattr(r, 'atoms') else list(r)\n"
        "for m in r: print(m.name, [(a.element.name, a.label) for a in m.atoms], m.coords.tolist(), getattr(m, 'atomic_charges', None), "
        "[(m.atoms.index(b.a1), m.atoms.index(b.a2), b.btype.name) for b in m.bonds])"
    )


def mm_alphabet(seed, thorough):
    """molecules of EQUAL size that differ in name, elements, labels, coordinates, charges and bond list"""
    H, C, N, O = 1, 6, 7, 8
    S, D, T, AR = BT["Single"], BT["Double"], BT["Triple"], BT["Aromatic"]
    raw = {
        1: [([H], ["H1"], []), ([C], [None], []), ([O], ["Ox"], [])],
        2: [
            ([H, C], ["H1", "C2"], [(0, 1, S)]),
            ([C, H], ["Ca", "Hb"], [(1, 0, D)]),
            ([N, O], ["N", "O"], []),
            ([O, O], [None, None], [(0, 1, AR)]),
        ],
        3: [
            ([H, C, N], ["H1", "C2", "N3"], [(0, 1, S), (1, 2, T)]),
            ([H, N, C], ["H1", "N2", "C3"], [(0, 1, S), (2, 1, T)]),
            ([N, C, H], ["Nx", "Cy", "Hz"], [(1, 0, T), (1, 2, S)]),
            ([O, H, H], [None, "Ha", "Hb"], [(0, 1, S), (0, 2, S)]),
            ([C, O, O], ["C", "O1", "O2"], []),
        ]
        + ([([H, O, H], ["H1", "O2", "H3"], [(1, 0, S), (2, 1, S)]), ([O, C, O], ["Oa", "Cb", "Oc"], [(0, 1, D), (1, 2, D), (0, 2, AR)])] if thorough else []),
    }
    out, fid = {}, 0
    for n in (1, 2, 3):
        out[n] = []
        for els, labs, bonds in rot(raw[n], seed):
            fid += 1
            out[n].append(
                {
                    "name": f"mol{fid}",
                    "atoms": [[z, lab, REG, UNKG] for z, lab in zip(els, labs)],
                    "xyz": [[fid * 1.5 + a * 0.25 + seed * 0.125, -(fid * 2.0) + a, 0.001 * fid * (a + 1)] for a in range(n)],
                    "q": [0.125 * (((fid + 2 * a + seed) % 7) - 3) or 0.625 for a in range(n)],
                    "bonds": [list(b) for b in bonds],
                }
            )
    return out


def gen_SH(seed, thorough):
    A = mm_alphabet(seed, thorough)
    for n in (1, 2, 3):
        for L in (2, 3):
            for seq in itertools.product(range(len(A[n])), repeat=L):
                yield [A[n][i] for i in seq]
    mixed = [A[1][0], A[2][0], A[2][1], A[3][0], A[3][1]]
    for L in (2, 3):
        for seq in itertools.product(range(len(mixed)), repeat=L):
            if len({len(mixed[i]["atoms"]) for i in seq}) > 1:
                yield [mixed[i] for i in seq]


# =================================================================================================
# HW : history before writing - other containers / views created over the structure's own atom objects
# =================================================================================================
def gen_HW(seed, thorough):
    """(spec, history): 2 base structures x kinds x every history of depth 1 over (container x selection x
    kept alive / dropped), depth 2 over the atom-sharing list containers (thorough: depth 2 over everything),
    plus 'the written object is the second container'"""
    tr = triples(seed + 4, [v for v in CVALS if v == v])
    S, D, AR, T = BT["Single"], BT["Double"], BT["Aromatic"], BT["Triple"]
    bases = [
        ([(6, "C1", REG, UNKG), (7, None, REG, UNKG), (8, "O3", REG, UNKG)], [(0, 1, S), (2, 1, D), (0, 2, AR)], [[0, 1, 2], [2, 1, 0], [1, 2, 0], [2, 0], [1], [0, 2]]),
        ([(1, "H1", REG, UNKG), (6, "C2", REG, UNKG), (1, None, REG, UNKG), (8, "O4", REG, UNKG)], [(1, 0, S), (1, 2, S), (3, 1, D)], [[0, 1, 2, 3], [3, 2, 1, 0], [1, 3], [0, 2], [1], [2, 3, 0, 1]]),
    ]
    for bi, (atoms, bonds, sels) in enumerate(bases):
        n = len(atoms)
        xyz = [tr[(bi + 2 * a) % len(tr)] for a in range(n)]
        q = [CHARGES[(a + 1 + seed) % len(CHARGES)] for a in range(n)]
        sub2 = (sels[1], sels[3], sels[4])  # the same selections for every seed; the seed only rotates the order
        sels = rot(sels, seed)
        ops1 = [{"c": c, "sel": sel, "keep": keep} for c in ("Promolecule", "Connectivity", "Structure", "Molecule", "Substructure") for sel in sels for keep in (True, False)]
        ops1 += [{"c": "EnsembleConformer", "sel": [], "keep": keep} for keep in (True, False)]
        if thorough:
            ops2 = ops1
        else:
            ops2 = [{"c": c, "sel": sel, "keep": keep} for c in ("Promolecule", "Molecule") for sel in sub2 for keep in (True, False)]
        for kind in ("M", "S", "E"):
            frames = [{"xyz": xyz, "q": q}]
            if kind == "E":
                frames.append({"xyz": xyz[1:] + xyz[:1], "q": q[1:] + q[:1]})
            spec = mkspec(kind, f"hw{bi}", atoms, frames, bonds)
            usable = lambda op: not (kind == "E" and op["c"] == "Substructure")
            for op in ops1:
                if usable(op):
                    yield spec, [op]
            for a in ops2:
                for b in ops2:
                    if usable(a) and usable(b):
                        yield spec, [a, b]
            if kind != "E":
                for c in ("Molecule", "Structure"):
                    for sel in sels:
                        for keep in (True, False):
                            yield spec, [{"c": c, "sel": sel, "keep": keep, "second": True}]
                            # ... and after yet another container has listed the same atoms
                            yield spec, [{"c": "Promolecule", "sel": sub2[0], "keep": True}, {"c": c, "sel": sel, "keep": keep, "second": True}]


# =================================================================================================
# write - EDIT IN PLACE - write : whatever a writer derives from an object (type tokens, labels, names,
# end points) must follow the object's CURRENT state, not the state at the first write
# =================================================================================================
def fresh_token(z, t, g):
    return Atom(Element(z), atype=AtomType(t), geom=AtomGeom(g)).get_mol2_type()


def class_representatives():
    """up to 3 typings (different elements) per token CLASS emitted by the tree under test (measured)"""
    reps: dict = {}
    for z, t, g in all_triples():
        try:
            tok = fresh_token(z, t, g)
        except Exception:
            continue
        lst = reps.setdefault(tokclass(tok), [])
        if len(lst) < 3 and all(z != r[0] for r in lst) and z != 0:
            lst.append((z, t, g))
    return [tr for cl in sorted(reps) for tr in reps[cl]]


def check_retype(ctx, tr1, tr2, via):
    """one atom object: typed once (state tr1), edited in place to tr2, typed again"""
    case = {"layer": "TA2", "t1": list(tr1), "t2": list(tr2), "via": via}
    ctx.count(evaluations=1, states=1, traces=1)
    (z1, t1, g1), (z2, t2, g2) = tr1, tr2
    try:
        a = Atom(Element(z1), atype=AtomType(t1), geom=AtomGeom(g1))
        ctx.count(transitions=1)
        tok1 = a.get_mol2_type()
        if via == "fields":
            a.element, a.atype, a.geom = Element(z2), AtomType(t2), AtomGeom(g2)
        else:
            a.set_mol2_type(fresh_token(z2, t2, g2))
        ctx.count(transitions=2)
        got = a.get_mol2_type()
        want = fresh_token(int(a.element), int(a.atype), int(a.geom))  # a fresh atom with the same CURRENT fields
    except Exception as e:
        ctx.violation(f"typing-after-edit|{via}|raised-{exc(e)}", f"{exc(e)}: {e}", case)
        return
    if tr1 != tr2:
        ctx.nontrivial(("TA2", tr1, tr2, via))
    ctx.outcome(("TA2", tokclass(tok1), tokclass(got)))
    if got != want:
        stale = got == tok1
        ctx.violation(
            f"typing-after-edit|{via}|" + ("token-of-the-state-at-the-first-call" if stale else "token-differs-from-a-fresh-atom-with-the-same-fields"),
            f"atom typed as {tok1!r}, then edited in place ({via}) to {Element(int(a.element)).name}/{AtomType(int(a.atype)).name}/{AtomGeom(int(a.geom)).name}: get_mol2_type() gives {got!r}, a fresh atom with these fields gives {want!r}",
            case,
            repro=(
                "from molli.chem import Atom, Element, AtomType, AtomGeom\n"
                f"a = Atom(Element({z1}), atype=AtomType({t1}), geom=AtomGeom({g1})); print(a.get_mol2_type())\n"
                + (f"a.element, a.atype, a.geom = Element({z2}), AtomType({t2}), AtomGeom({g2})\n" if via == "fields" else f"a.set_mol2_type({fresh_token(z2, t2, g2)!r})\n")
                + "print(a.get_mol2_type(), 'expected', Atom(a.element, atype=a.atype, geom=a.geom).get_mol2_type())"
            ),
        )


def check_bond_retype(ctx, b1, b2, via):
    case = {"layer": "BL2", "b1": b1, "b2": b2, "via": via}
    ctx.count(evaluations=1, states=1, traces=1)
    try:
        b = Bond(Atom("C"), Atom("N"), btype=BondType(b1))
        ctx.count(transitions=3)
        tok1 = b.get_mol2_type()
        if via == "btype":
            b.btype = BondType(b2)
        else:
            b.set_mol2_type(Bond(Atom("C"), Atom("N"), btype=BondType(b2)).get_mol2_type())
        got = b.get_mol2_type()
        want = Bond(Atom("C"), Atom("N"), btype=BondType(b.btype)).get_mol2_type()
    except Exception as e:
        ctx.violation(f"bond-typing-after-edit|{via}|raised-{exc(e)}", f"{exc(e)}: {e}", case)
        return
    if b1 != b2:
        ctx.nontrivial(("BL2", b1, b2, via))
    ctx.outcome(("BL2", tok1, got))
    if got != want:
        ctx.violation(
            f"bond-typing-after-edit|{via}|" + ("token-of-the-state-at-the-first-call" if got == tok1 else "token-differs-from-a-fresh-bond-of-the-same-type"),
            f"bond typed as {tok1!r} ({BondType(b1).name}), edited in place ({via}) to {BondType(b.btype).name}: get_mol2_type() gives {got!r}, a fresh bond gives {want!r}",
            case,
        )


# ---- small scope: write, edit in place, write again -------------------------------------------------------
def we_edits(n_atoms, n_bonds, k):
    """the edit alphabet (harness model: how the reference spec changes)"""
    ed = []
    for i in range(n_atoms):
        ed += [{"f": "element", "i": i, "v": 9}, {"f": "element", "i": i, "v": 15}]
        ed += [{"f": "atype", "i": i, "v": int(AtomType.sp2)}, {"f": "atype", "i": i, "v": int(AtomType.Dummy)}]
        ed += [{"f": "geom", "i": i, "v": int(AtomGeom.R3_Planar)}]
        ed += [{"f": "label", "i": i, "v": "Zz9"}, {"f": "label", "i": i, "v": None}]
        ed += [{"f": "coordinate", "i": i, "c": i % 3, "fr": (i % k), "v": 7.25 + i}]
        ed += [{"f": "charge", "i": i, "fr": (i % k), "v": 0.75 - i}]
    for j in range(n_bonds):
        ed += [{"f": "bond-type", "j": j, "v": BT["Triple"]}, {"f": "bond-type", "j": j, "v": BT["Amide"]}, {"f": "bond-type(set_mol2_type)", "j": j, "v": "ar"}]
    ed += [{"f": "name", "v": "renamed one"}]
    return ed


BOND_OF_TOKEN = {v: k for k, v in {"Single": "1", "Double": "2", "Triple": "3", "Aromatic": "ar", "Amide": "am", "Dummy": "du", "Unknown": "un", "NotConnected": "nc"}.items()}


def apply_edit(obj, spec, e):
    """edit the OBJECT in place and return the updated reference spec (the harness's own model of the edit)"""
    sp = normspec(spec)
    kind = spec["kind"]
    f = e["f"]
    if f == "element":
        obj.atoms[e["i"]].element = Element(e["v"])
        sp["atoms"][e["i"]][0] = e["v"]
    elif f == "atype":
        obj.atoms[e["i"]].atype = AtomType(e["v"])
        sp["atoms"][e["i"]][2] = e["v"]
    elif f == "geom":
        obj.atoms[e["i"]].geom = AtomGeom(e["v"])
        sp["atoms"][e["i"]][3] = e["v"]
    elif f == "label":
        obj.atoms[e["i"]].label = e["v"]
        sp["atoms"][e["i"]][1] = e["v"]
    elif f == "coordinate":
        if kind == "E":
            obj.coords[e["fr"], e["i"], e["c"]] = e["v"]
        else:
            obj.coords[e["i"], e["c"]] = e["v"]
        sp["frames"][e["fr"] if kind == "E" else 0]["xyz"][e["i"]][e["c"]] = e["v"]
    elif f == "charge":
        if kind == "E":
            obj.atomic_charges[e["fr"], e["i"]] = e["v"]
        elif kind == "M":
            obj.atomic_charges[e["i"]] = e["v"]
        if kind != "S":
            sp["frames"][e["fr"] if kind == "E" else 0]["q"][e["i"]] = e["v"]
    elif f == "bond-type":
        obj.bonds[e["j"]].btype = BondType(e["v"])
        sp["bonds"][e["j"]][2] = e["v"]
    elif f == "bond-type(set_mol2_type)":
        obj.bonds[e["j"]].set_mol2_type(e["v"])
        sp["bonds"][e["j"]][2] = BT[BOND_OF_TOKEN[e["v"]]]
    elif f == "name":
        obj.name = e["v"]
        sp["name"] = e["v"]
    # ---- size-changing edits (records / atoms / bonds appear or disappear between two writes)
    elif f in ("append", "extend[list]", "extend[ensemble]"):
        n = len(sp["atoms"])
        geoms = []
        for fr in e["v"]:
            g = Molecule([Atom(Element(a[0])) for a in sp["atoms"]], coords=np.array(fr["xyz"], dtype=float).reshape(n, 3))
            g.atomic_charges = np.array(fr["q"], dtype=float).reshape(n)
            geoms.append(g)
        if f == "append":
            obj.append(geoms[0])
        elif f == "extend[list]":
            obj.extend(geoms)
        else:
            obj.extend(ConformerEnsemble(geoms))
        sp["frames"] = sp["frames"] + [{"xyz": [list(p) for p in fr["xyz"]], "q": list(fr["q"])} for fr in e["v"]]
    elif f == "add_atom":
        z, lab, xyz, q = e["v"]
        if kind == "M":
            obj.add_atom(Atom(Element(z), label=lab), list(xyz), charge=q)
        else:
            obj.add_atom(Atom(Element(z), label=lab), list(xyz))
        sp["atoms"].append([z, lab, REG, UNKG])
        sp["frames"][0]["xyz"].append(list(xyz))
        sp["frames"][0]["q"].append(q)
    elif f == "del_atom":
        i = e["i"]
        obj.del_atom(i)
        sp["atoms"].pop(i)
        sp["frames"][0]["xyz"].pop(i)
        sp["frames"][0]["q"].pop(i)
        sp["bonds"] = [[a - (a > i), b - (b > i), t] for a, b, t in sp["bonds"] if i not in (a, b)]
    elif f == "connect":
        i, j, t = e["v"]
        obj.connect(i, j, btype=BondType(t))
        sp["bonds"].append([i, j, t])
    elif f == "del_bond":
        obj.del_bond(obj.bonds[e["j"]])
        sp["bonds"].pop(e["j"])
    else:
        raise HarnessError(f"unknown edit {e!r}")
    return sp


def size_edits(kind, n_atoms, n_bonds, frames):
    """size-changing edits for a structure of this kind (harness model in apply_edit)"""
    if kind == "E":
        f1 = {"xyz": [[p[1] + 1.0, p[2] - 2.0, p[0]] for p in frames[0]["xyz"]], "q": [0.375 - x for x in frames[0]["q"]]}
        f2 = {"xyz": [[p[2], p[0] + 3.5, p[1]] for p in frames[0]["xyz"]], "q": [x + 0.0625 for x in frames[0]["q"]]}
        return [{"f": "append", "v": [f1]}, {"f": "extend[list]", "v": [f1, f2]}, {"f": "extend[ensemble]", "v": [f2, f1]}]
    ed = [{"f": "add_atom", "v": [17, "Cl9", [3.25, -4.5, 0.125], -0.375]}, {"f": "add_atom", "v": [1, None, [0.5, 0.25, -8.0], 0.0]}]
    ed += [{"f": "del_atom", "i": i} for i in range(n_atoms)]
    ed += [{"f": "del_bond", "j": j} for j in range(n_bonds)]
    return ed


def bond_type_column(text):
    out, on = [], False
    for line in text.split("\n"):
        if line.startswith("@<TRIPOS>"):
            on = line.strip() == "@<TRIPOS>BOND"
            continue
        if on and line.strip() and not line.lstrip().startswith("#"):
            f = line.split()
            out.append(f[3] if len(f) > 3 else None)
    return out


def check_write_edit_write(ctx, spec, first, edits):
    """first: how the object is 'typed once' (a writer entry, or 'get_mol2_type' = direct calls on atoms and bonds)"""
    tmp = Path(ctx.scratch) / f"c07-{os.getpid()}.mol2"
    tmpw = Path(ctx.scratch) / f"c07-{os.getpid()}-w.mol2"
    case = {"layer": "WE", "spec": spec, "first": first, "edits": edits}
    kn = KINDNAME[spec["kind"]]
    # (the edited fields are in the case and in the message, not in the signature; size-changing edits are their own input class)
    SIZE = ("append", "extend[list]", "extend[ensemble]", "add_atom", "del_atom", "connect", "del_bond")
    tag = "after[write+grow-or-shrink]|" if any(e["f"] in SIZE for e in edits) else "after[write+edit-in-place]|"
    ctx.count(evaluations=1, states=1, traces=1)
    ctx.nontrivial(("WE", digest(case)))
    try:
        obj, espec = build(spec)
        ctx.count(transitions=1)
        try:
            if first == "get_mol2_type":
                for a in obj.atoms:
                    a.get_mol2_type()
                for b in obj.bonds:
                    b.get_mol2_type()
            elif first == "iterate":
                for _c in obj:
                    pass
            else:
                do_write(obj, first, tmpw)
        except Exception:
            pass  # a failing first write is reported by the S layers
        for e in edits:
            try:
                espec = apply_edit(obj, espec, e)
            except HarnessError:
                raise
            except Exception as ex:
                raise UnderTestDeviation(f"edit-raised-{exc(ex)}", f"editing {e['f']} in place raised {exc(ex)}: {ex}")
    except UnderTestDeviation as e:
        ctx.violation(f"setup|{kn}|{tag if e.symptom.startswith('edit-') else ''}{e.symptom}", e.detail, case)
        return
    cells, detail, texts, wfail = _evaluate(ctx, obj, espec, tmp, tmpw)
    # the type columns of the second text against fresh atoms / bonds holding the CURRENT fields
    try:
        want_a = [fresh_token(z, t, g) for z, _l, t, g in espec["atoms"]]
        want_b = [Bond(Atom("C"), Atom("N"), btype=BondType(bt)).get_mol2_type() for _i, _j, bt in espec["bonds"]]
    except Exception:
        want_a = want_b = None
    k = len(espec["frames"])
    if want_a is not None:
        for text, ws in texts.items():
            ca, cb = atom_type_column(text), bond_type_column(text)
            if ca != want_a * k:
                bad = next(((x, y) for x, y in zip(ca, want_a * k) if x != y), (None, None))
                s_ = "atom-type-column-does-not-follow-the-current-state" if len(ca) == len(want_a) * k else "atom-type-column-has-another-length"
                for w in ws:
                    cells.setdefault(s_, set()).add((w, "-"))
                detail.setdefault(s_, f"type column {ca} written ({bad[0]!r}), the current state types as {want_a * k} ({bad[1]!r})")
            if cb != want_b * k:
                bad = next(((x, y) for x, y in zip(cb, want_b * k) if x != y), (None, None))
                s_ = "bond-type-column-does-not-follow-the-current-state" if len(cb) == len(want_b) * k else "bond-type-column-has-another-length"
                for w in ws:
                    cells.setdefault(s_, set()).add((w, "-"))
                detail.setdefault(s_, f"type column {cb} written ({bad[0]!r}), the current state types as {want_b * k} ({bad[1]!r})")
    base_syms: set = set()
    if cells or wfail:
        try:
            obj0, espec0 = build(espec)
            c0, _d, _t, w0 = _evaluate(ctx, obj0, espec0, tmp, tmpw)
            base_syms = set(c0) | {"write:" + x for x in w0}
        except UnderTestDeviation:
            pass
    ctx.outcome(("WE", digest(sorted(texts)), tuple(sorted(cells)), tuple(sorted(wfail))))
    # one symptom for "the bond type read back is not the edited one" (the from->to pair is in the message)
    for sym in [x for x in cells if x.startswith("bond-type-changed[") and x not in base_syms]:
        merged = "bond-type-read-back-is-not-the-current-one"
        cells.setdefault(merged, set()).update(cells.pop(sym))
        detail.setdefault(merged, detail.get(sym))
        for kk in [kk for kk in detail if isinstance(kk, tuple) and kk[0] == sym]:
            detail.setdefault((merged,) + kk[1:], detail[kk])
    wok = sorted(w for ws in texts.values() for w in ws)
    for sym in sorted(wfail):
        ws = [w for w, _ in wfail[sym]]
        t = "" if ("write:" + sym) in base_syms else tag
        ctx.violation(f"write|{kn}|{t}{sym}|w={_desc(ws, WRITERS)}", f"{kn}.{ws[0]} {t}: {wfail[sym][0][1]}", case)
    for sym in sorted(cells):
        t = "" if sym in base_syms else tag
        cs = cells[sym]
        ws = sorted({w for w, _ in cs})
        rs = sorted({r for _, r in cs})
        if rs == ["-"]:
            ctx.violation(f"write|{kn}|{t}{sym}|w={_desc(ws, wok)}", f"{kn}.{ws[0]} after {first} and in-place edits {[e['f'] for e in edits]}: {detail.get(sym)}", case, repro=repro_we(spec, first, edits))
            continue
        groups = [(ws, rs)] if cs == set(itertools.product(ws, rs)) else [([w], [r]) for w, r in sorted(cs)]
        for gw, gr in groups:
            ctx.violation(
                f"rt|{kn}|{t}{sym}|w={_desc(gw, wok)}|r={_desc(gr, reader_universe(sym, k))}",
                f"{kn} written ({first}), edited in place {[e['f'] for e in edits]}, written again by {gw[0]}, read by {gr[0]}: {detail.get((sym, gw[0], gr[0]), detail.get(sym, sym))}",
                case,
                repro=repro_we(spec, first, edits),
            )
    clear_bond_cache()


def repro_we(spec, first, edits):
    base = repro_spec(spec, "dumps_mol2" if spec["kind"] != "S" else "dump_mol2[StringIO]", KINDNAME[spec["kind"]] + ".loads_mol2").split("\n")
    cut = next(i for i, l in enumerate(base) if l.startswith("text = ") or l.startswith("s = io.StringIO(); m.dump_mol2"))
    lines = base[:cut] + ["s = io.StringIO(); m.dump_mol2(s); first = s.getvalue()  # first write"]
    for e in edits:
        f = e["f"]
        if f in ("element", "atype", "geom", "label"):
            val = {"element": f"Element({e['v']})", "atype": f"AtomType({e['v']})", "geom": f"AtomGeom({e['v']})", "label": repr(e["v"])}[f]
            lines.append(f"m.atoms[{e['i']}].{f} = {val}")
        elif f == "bond-type":
            lines.append(f"m.bonds[{e['j']}].btype = BondType({e['v']})")
        elif f == "bond-type(set_mol2_type)":
            lines.append(f"m.bonds[{e['j']}].set_mol2_type({e['v']!r})")
        elif f == "name":
            lines.append(f"m.name = {e['v']!r}")
        elif f == "coordinate":
            lines.append(f"m.coords[{(str(e['fr']) + ', ') if spec['kind'] == 'E' else ''}{e['i']}, {e['c']}] = {e['v']}")
        elif f in ("append", "extend[list]", "extend[ensemble]"):
            lines.append(f"new = [ml.Molecule(list(m.elements), coords=np.array(fr['xyz'], dtype=float)) for fr in {e['v']!r}]")
            lines.append({"append": "m.append(new[0])", "extend[list]": "m.extend(new)", "extend[ensemble]": "m.extend(ml.ConformerEnsemble(new))"}[f] + "  # the ensemble grows after its first write")
        elif f == "add_atom":
            lines.append(f"m.add_atom(Atom(Element({e['v'][0]}), label={e['v'][1]!r}), {e['v'][2]!r}" + (f", charge={e['v'][3]!r})" if spec["kind"] == "M" else ")"))
        elif f == "del_atom":
            lines.append(f"m.del_atom({e['i']})")
        elif f == "connect":
            lines.append(f"m.connect({e['v'][0]}, {e['v'][1]}, btype=BondType({e['v'][2]}))")
        elif f == "del_bond":
            lines.append(f"m.del_bond(m.bonds[{e['j']}])")
        elif f == "charge" and spec["kind"] != "S":
            lines.append(f"m.atomic_charges[{(str(e['fr']) + ', ') if spec['kind'] == 'E' else ''}{e['i']}] = {e['v']}")
    lines += ["s = io.StringIO(); m.dump_mol2(s); second = s.getvalue()", "print(first); print(second)  # the second text must describe the edited object"]
    return "\n".join(lines)


def gen_WE(seed, thorough):
    tr = triples(seed + 5, [v for v in CVALS if v == v])
    atoms = [(6, "C1", REG, UNKG), (7, None, int(AtomType.Unknown), UNKG), (16, "S3", REG, UNKG)]
    bonds = [(0, 1, BT["Single"]), (2, 1, BT["Double"]), (0, 2, BT["Aromatic"])]
    xyz = [tr[0], tr[2], tr[3]]
    q = [0.25, -0.5, 0.125]
    firsts = rot(WRITERS + ["get_mol2_type"], seed)
    for kind in ("M", "S", "E"):
        frames = [{"xyz": xyz, "q": q}]
        if kind == "E":
            frames.append({"xyz": xyz[1:] + xyz[:1], "q": q[1:] + q[:1]})
        spec = mkspec(kind, "we", atoms, frames, bonds)
        eds = we_edits(3, 3, len(frames))
        for first in firsts:
            for e in eds:
                yield spec, first, [e]
        # size-changing edits between the two writes (and two of them in a row, and followed by an in-place edit)
        sz = size_edits(kind, 3, 3, frames)
        sfirsts = firsts + (["iterate"] if kind == "E" else [])
        for first in sfirsts:
            for e in sz:
                yield spec, first, [e]
        for a in sz:
            for b in sz:
                if kind == "E" or (a["f"], b["f"]) in (("add_atom", "add_atom"), ("add_atom", "del_atom"), ("add_atom", "del_bond"), ("del_bond", "add_atom"), ("del_bond", "del_bond")) and a is not b and not (b["f"] == "del_bond" and a["f"] == "del_bond" and b["j"] >= 2):
                    yield spec, sfirsts[0], [a, b]
        if kind != "E":
            yield spec, firsts[0], [{"f": "add_atom", "v": [17, "Cl9", [3.25, -4.5, 0.125], -0.375]}, {"f": "connect", "v": [3, 0, BT["Single"]]}]
            yield spec, firsts[0], [{"f": "del_bond", "j": 0}, {"f": "connect", "v": [1, 0, BT["Triple"]]}]
        for a in sz[:3]:
            yield spec, firsts[0], [a, {"f": "name", "v": "renamed one"}]
        # two edits in a row (thorough: all ordered pairs; quick: every edit followed by an edit of another field of atom 0 / bond 0)
        seconds = eds if thorough else [e for e in eds if e.get("i", e.get("j", 0)) == 0]
        for a in eds:
            for b in seconds:
                if a["f"] != b["f"]:
                    yield spec, firsts[0], [a, b]


# =================================================================================================
# LC : character alphabet of the free-text fields that reach the mol2 text (atom label, molecule name)
#      alphabet = every printable non-blank ASCII character (all 94 survive on the reference tree - measured
#      when the layer was written; blanks are out of scope: they separate the fields of an ATOM line and are
#      stripped at the ends of the name line)
# =================================================================================================
PRINTABLE = [chr(c) for c in range(33, 127)]
PUNCT = [c for c in PRINTABLE if not c.isalnum()]
CHARNAME = {
    "!": "exclam", '"': "dquote", "#": "hash", "$": "dollar", "%": "percent", "&": "amp", "'": "quote", "(": "lparen", ")": "rparen", "*": "star",
    "+": "plus", ",": "comma", "-": "minus", ".": "dot", "/": "slash", ":": "colon", ";": "semicolon", "<": "lt", "=": "eq", ">": "gt", "?": "question",
    "@": "at", "[": "lbracket", "\\": "backslash", "]": "rbracket", "^": "caret", "_": "underscore", "`": "backquote", "{": "lbrace", "|": "pipe", "}": "rbrace", "~": "tilde",
}


def lc_labels():
    out = []
    for c in PRINTABLE:
        out += [c, c + "x1", "x" + c + "1", "x1" + c]
    for a in PUNCT:
        for b in PUNCT:
            out += [a + b, "x" + a + b]
    out += ["C5'", "H5''", 'C"5"', "H\\1", "O2*", "N(1)", "C[a]"]
    return list(dict.fromkeys(out))


def lc_names():
    out = []
    for c in PRINTABLE:
        out += [c, c + "x1", "x" + c + "1", "x1" + c, "a " + c + " b"]
    for a in PUNCT:
        for b in PUNCT:
            out += ["m" + a + b + "n"]
    out += ["2'-deoxy", 'the "best" one', "a\\b", "50% (w/w)", "x" * 120]
    return list(dict.fromkeys(out))


def specials_of(text):
    return sorted({c for c in text if c in CHARNAME})


_LC_ALONE: dict = {}


def lc_roundtrip(ctx, kind, name, labels, xyzs):
    """-> (symptoms [(sym, detail)], per-atom failing indices) through the primary entry points"""
    n = len(labels)
    atoms = [(6, lab, REG, UNKG) for lab in labels]
    frames = [{"xyz": xyzs, "q": [0.125 * ((i % 5) - 2) for i in range(n)]}]
    spec = mkspec(kind, name, atoms, frames, [(0, n - 1, BT["Single"])] if n > 1 else [])
    tmp = Path(ctx.scratch) / f"c07-{os.getpid()}-lc.mol2"
    obj, ref = build(spec)
    out = []
    ctx.count(transitions=1)
    try:
        t1 = do_write(obj, "dump_mol2[StringIO]", tmp)
    except Exception as e:
        return [(f"write-raised-{exc(e)}", f"{exc(e)}: {e}")], spec
    rname = KINDNAME[kind] + ".loads_mol2"
    ctx.count(transitions=1)
    try:
        r = do_read(rname, t1, tmp)
    except Exception as e:
        return [(f"read-raised-{exc(e)}", f"the reader rejects molli's own text: {exc(e)}: {e}")], spec
    out += observe(ref, rname, r)
    ctx.count(transitions=1)
    try:
        t2 = do_write(r, "dump_mol2[StringIO]", tmp)
        out += [(f"not-a-fixed-point:{cl}", f"second write differs ({cl})") for cl in classify_text_diff(t1, t2)]
    except Exception as e:
        out.append((f"second-write-raised-{exc(e)}", f"{exc(e)}: {e}"))
    # the name must also survive as the name of a LATER block of a multi-molecule text
    aname = KINDNAME["M" if kind == "E" else kind] + ".loads_all_mol2"
    ctx.count(transitions=1)
    try:
        rr = do_read(aname, t1 + t1, tmp)
        if len(rr) != 2 * len(ref["frames"]):
            out.append(("molecule-count-changed-when-the-text-is-doubled", f"{len(rr)} molecules read from the doubled text"))
        elif any(m.name != name for m in rr):
            out.append(("name-changed-in-a-later-block", f"names {[m.name for m in rr]!r}, written {name!r}"))
    except Exception as e:
        out.append((f"doubled-text-read-raised-{exc(e)}", f"{exc(e)}: {e}"))
    clear_bond_cache()
    return out, spec


def lc_alone(ctx, kind, field, c):
    """does the single special character c break the field on its own (memoised per process)?"""
    key = (kind, field, c)
    if key not in _LC_ALONE:
        bad = False
        for t in (c + "x1", "x" + c + "1", "x1" + c):
            try:
                sy, _ = lc_roundtrip(ctx, kind, t if field == "name" else "nm", [t] if field == "label" else ["C1"], [[1.0, 2.0, 3.0]])
            except UnderTestDeviation:
                sy = [("setup", "")]
            bad = bad or bool(sy)
        _LC_ALONE[key] = bad
    return _LC_ALONE[key]


def lc_report(ctx, kind, field, text, syms, spec):
    sp = specials_of(text)
    culprits = [c for c in sp if lc_alone(ctx, kind, field, c)] or sp
    cls = "+".join(CHARNAME[c] for c in culprits) if culprits else "plain"
    if len(culprits) > 2:
        cls = "several"
    names = {s_ for s_, _ in syms}
    if "label-changed" in names or "name-changed" in names:
        # the second write of a changed label / name differs as a consequence: one symptom, not two
        syms = [(s_, d) for s_, d in syms if s_ not in ("not-a-fixed-point:ATOM.label", "not-a-fixed-point:MOLECULE.name")]
    for sym, d in syms:
        ctx.violation(
            f"free-text|{field}|char[{cls}]|{sym}",
            f"{KINDNAME[kind]} with {field} {text!r}: {d}",
            {"layer": "LC", "kind": kind, "field": field, "text": text, "xyz": spec["frames"][0]["xyz"]},
            repro=(
                "import molli as ml\nfrom molli.chem import Atom\n"
                + (f"m = ml.Molecule([Atom('C', label={text!r})], name='nm', coords=[[1, 2, 3]])\n" if field == "label" else f"m = ml.Molecule([Atom('C', label='C1')], name={text!r}, coords=[[1, 2, 3]])\n")
                + "t = m.dumps_mol2(); print(t)\nr = ml.Molecule.loads_mol2(t); print(repr(r.name), [a.label for a in r.atoms])"
            ),
        )


LC_COORDS = [[0.0, 1.5, -2.25], [-123456.789, 1e7, 99999.9999995], [1e7, -123456.789, 0.1234565], [99999.9999995, 0.0, -0.0000004], [1.5, 1.5, 1.5]]


def lc_cases(seed):
    """('label', [labels], [xyz]) chunks of 100 atoms and ('name', name) cases"""
    labs = rot(lc_labels(), seed * 37)
    items = [(lab, LC_COORDS[i % len(LC_COORDS)]) for i, lab in enumerate(labs)]
    # long labels (1..12 characters) x coordinate magnitudes: fields must not glue together
    for k in range(1, 13):
        for lab in ("L" * k, "L" * (k - 1) + "'", "9" * k):
            for xyz in LC_COORDS:
                items.append((lab, xyz))
    out = [("label", [it[0] for it in items[i : i + 100]], [it[1] for it in items[i : i + 100]]) for i in range(0, len(items), 100)]
    out += [("name", nm, None) for nm in rot(lc_names(), seed * 41)]
    return out


def check_lc(ctx, kind, case):
    field = case[0]
    ctx.count(evaluations=1, states=1, traces=1)
    ctx.nontrivial(("LC", kind, field, digest(case[1])))
    try:
        if field == "name":
            name = case[1]
            syms, spec = lc_roundtrip(ctx, kind, name, ["C1"], [[1.0, 2.0, 3.0]])
            ctx.outcome(("LC", "name", tuple(s_ for s_, _ in syms)))
            if syms:
                lc_report(ctx, kind, "name", name, syms, spec)
            return
        labels, xyzs = case[1], case[2]
        syms, spec = lc_roundtrip(ctx, kind, "labels", labels, xyzs)
        ctx.outcome(("LC", "label", digest(labels), tuple(s_ for s_, _ in syms)))
        if syms:
            # localise: every label of the chunk on its own
            hit = False
            for lab, xyz in zip(labels, xyzs):
                sy, sp1 = lc_roundtrip(ctx, kind, "labels", [lab], [xyz])
                if sy:
                    hit = True
                    lc_report(ctx, kind, "label", lab, sy, sp1)
            if not hit:
                ctx.violation(f"free-text|label|only-in-combination|{syms[0][0]}", f"{KINDNAME[kind]} with labels {labels[:5]}...: {syms[0][1]}", {"layer": "LC", "kind": kind, "field": "labels", "labels": labels, "xyz": xyzs})
    except UnderTestDeviation as e:
        ctx.violation(f"free-text|{field}|setup-{e.symptom}", e.detail, {"layer": "LC", "kind": kind, "field": field, "text": case[1] if field == "name" else None, "labels": case[1] if field != "name" else None, "xyz": case[2]})


# =================================================================================================
# TR : the same (element, atype, geom) triple in other REPRESENTATIONS of the enum-valued fields: plain ints,
#      numpy ints, objects that went through pickle / a MoleculeLibrary / a ConformerLibrary (msgpack gives ints)
# =================================================================================================
def check_repr_local(ctx, tr):
    z, t, g = tr
    ctx.count(evaluations=1, states=1, traces=1)
    try:
        want = fresh_token(z, t, g)
    except Exception:
        return  # reported by layer TA
    for rep, mk in (("int", int), ("numpy.int64", np.int64)):
        ctx.count(transitions=1)
        case = {"layer": "TR", "triple": [z, t, g], "rep": rep}
        try:
            got = Atom(Element(z), atype=mk(t), geom=mk(g)).get_mol2_type()
        except Exception as e:
            ctx.violation(f"typing-representation|{rep}|raised-{exc(e)}", f"Atom(atype={rep}({t}), geom={rep}({g})).get_mol2_type() raised {exc(e)}: {e}", case)
            continue
        ctx.outcome(("TR", rep, tokclass(want), tokclass(got)))
        if got != want:
            ctx.violation(
                f"typing-representation|{rep}|typed-differently-from-enum-members",
                f"{Element(z).name}/{AtomType(t).name}/{AtomGeom(g).name} given as {rep} values is typed {got!r}; given as enum members it is typed {want!r}",
                case,
                repro=f"from molli.chem import Atom, AtomType, AtomGeom\nprint(Atom({Element(z).name!r}, atype={t}, geom={g}).get_mol2_type(), Atom({Element(z).name!r}, atype=AtomType({t}), geom=AtomGeom({g})).get_mol2_type())",
            )
    if t != REG or g != UNKG:
        ctx.nontrivial(("TR", z, t, g))


REPR_OBJECTS = ["int-fields", "pickle", "MoleculeLibrary", "ConformerLibrary"]


def check_repr_objects(ctx, trs, seed):
    """100 typings in one molecule; the molecule in another representation is written; its type column must be the one of enum-built atoms"""
    import pickle

    import molli as ml

    case = {"layer": "TRO", "triples": [list(t) for t in trs]}
    spec = tb_spec("M", trs, seed)
    try:
        want = [fresh_token(z, t, g) for z, t, g in trs]
    except Exception:
        return
    tmp = Path(ctx.scratch) / f"c07-{os.getpid()}-tr.mol2"
    for rep in REPR_OBJECTS:
        ctx.count(evaluations=1, states=1, traces=1, transitions=3)
        try:
            obj, _ = build(spec)
            if rep == "int-fields":
                for a in obj.atoms:
                    a.atype, a.geom = int(a.atype), int(a.geom)
            elif rep == "pickle":
                obj = pickle.loads(pickle.dumps(obj))
            elif rep == "MoleculeLibrary":
                lp = Path(ctx.scratch) / f"c07-{os.getpid()}.mlib"
                lib = ml.MoleculeLibrary(lp, readonly=False, overwrite=True)
                with lib.writing():
                    lib["k"] = obj
                with lib.reading():
                    obj = lib["k"]
            else:
                lp = Path(ctx.scratch) / f"c07-{os.getpid()}.clib"
                lib = ml.ConformerLibrary(lp, readonly=False, overwrite=True)
                with lib.writing():
                    lib["k"] = ConformerEnsemble(obj, n_conformers=1, coords=np.array(obj.coords, dtype=float)[None])
                with lib.reading():
                    obj = lib["k"]
            text = do_write(obj, "dump_mol2[StringIO]", tmp)
        except UnderTestDeviation as e:
            ctx.violation(f"typing-representation|{rep}|setup-{e.symptom}", e.detail, case)
            continue
        except Exception as e:
            if not raised_in_library(e):
                raise
            ctx.violation(f"typing-representation|{rep}|raised-{exc(e)}", f"{rep} round trip + dump_mol2 raised {exc(e)}: {e}", case)
            continue
        col = atom_type_column(text)
        ctx.nontrivial(("TRO", rep, digest(case)))
        ctx.outcome(("TRO", rep, digest(col)))
        if len(col) != len(want):
            ctx.violation(f"typing-representation|{rep}|atom-lines-changed", f"{len(col)} atom lines, {len(want)} atoms", case)
            continue
        seen = set()
        for i, (x, y) in enumerate(zip(want, col)):
            if x != y and (tokclass(x), tokclass(y)) not in seen:
                seen.add((tokclass(x), tokclass(y)))
                ctx.violation(
                    f"typing-representation|{rep}|typed-differently-from-enum-members",
                    f"atom {i} ({Element(trs[i][0]).name}/{AtomType(trs[i][1]).name}/{AtomGeom(trs[i][2]).name}) of a molecule that went through {rep} is written as {y!r}; built from enum members it is {x!r}",
                    case,
                )


# =================================================================================================
# SV : VIEWS and copies of views as written objects: Substructure over ascending / reversed / shuffled index
#      lists, Structure(sub) / Molecule(sub) copies, Conformer views and Molecule(conformer) copies.
#      Atom k of the text = (element, label, coordinates, ...) of source.atoms[k] by the PARENT's own data
# =================================================================================================
SV_SOURCES = ["Substructure", "Structure(sub)", "Molecule(sub)"]


def sv_order(idx):
    return "ascending" if idx == sorted(idx) else ("reversed" if idx == sorted(idx, reverse=True) else "shuffled")


def check_views(ctx, pspec, idx, pedit=None):
    """pspec: spec of the parent (kind M or S); idx: the index list of the view"""
    tmp = Path(ctx.scratch) / f"c07-{os.getpid()}.mol2"
    tmpw = Path(ctx.scratch) / f"c07-{os.getpid()}-w.mol2"
    case = {"layer": "SV", "spec": pspec, "idx": idx, "pedit": pedit}
    order = sv_order(idx) + ("|after[parent-edited]" if pedit else "")
    ctx.count(evaluations=1, states=1, traces=1)
    ctx.nontrivial(("SV", digest(case)))
    pos = {i: p for p, i in enumerate(idx)}
    bonds = [(pos[i], pos[j], bt) for i, j, bt in pspec["bonds"] if i in pos and j in pos]
    fr = pspec["frames"][0]
    for src in SV_SOURCES:
        try:
            parent, pref = build(pspec)
            fr = pref["frames"][0]
            sub = Substructure(parent, list(idx))
            if pedit:
                # the PARENT is edited after the view was made (a non-member atom is deleted / an atom is added):
                # every member atom keeps its own data
                if pedit[0] == "del":
                    parent.del_atom(parent.atoms[pedit[1]])
                elif parent.__class__ is Molecule:
                    parent.add_atom(Atom(Element(17), label="Cl9"), [9.5, -9.5, 0.5], charge=0.0)
                else:
                    parent.add_atom(Atom(Element(17), label="Cl9"), [9.5, -9.5, 0.5])
            if src == "Substructure":
                obj, kind = sub, "S"
            elif src == "Structure(sub)":
                obj, kind = Structure(sub), "S"
            else:
                obj, kind = Molecule(sub), "M"
            name = obj.name if hasattr(obj, "name") else "unknown"
            q = [float(x) for x in np.array(obj.atomic_charges, dtype=float)] if kind == "M" else [fr["q"][i] for i in idx]
        except UnderTestDeviation as e:
            ctx.violation(f"setup|view|{e.symptom}", e.detail, case)
            return
        except Exception as e:
            if not raised_in_library(e):
                raise
            ctx.violation(f"setup|view[{src}]|raised-{exc(e)}", f"{src} over atoms {idx}: {exc(e)}: {e}", case)
            continue
        # the reference: the PARENT's data in the order of the index list (harness spec of the parent)
        espec = mkspec(kind, name, [pspec["atoms"][i] for i in idx], [{"xyz": [fr["xyz"][i] for i in idx], "q": q}], bonds)
        cells, detail, texts, wfail = _evaluate(ctx, obj, espec, tmp, tmpw)
        ctx.outcome(("SV", src, digest(sorted(texts)), tuple(sorted(cells)), tuple(sorted(wfail))))
        wok = sorted(w for ws in texts.values() for w in ws)
        for sym in sorted(wfail):
            ws = [w for w, _ in wfail[sym]]
            ctx.violation(f"write|view[{src}]|order={order}|{sym}|w={_desc(ws, WRITERS)}", f"{src} over atoms {idx}: {wfail[sym][0][1]}", case)
        for sym in sorted(cells):
            cs = cells[sym]
            ws, rs = sorted({w for w, _ in cs}), sorted({r for _, r in cs})
            groups = [(ws, rs)] if cs == set(itertools.product(ws, rs)) else [([w], [r]) for w, r in sorted(cs)]
            for gw, gr in groups:
                ctx.violation(
                    f"rt|view[{src}]|order={order}|{sym}|w={_desc(gw, wok)}|r={_desc(gr, reader_universe(sym, 1))}",
                    f"{src} over atoms {idx} of a {KINDNAME[pspec['kind']]}, written by {gw[0]}, read by {gr[0]}: {detail.get((sym, gw[0], gr[0]), detail.get(sym, sym))}",
                    case,
                )
    clear_bond_cache()


def gen_SV(seed, thorough):
    tr = triples(seed + 10, [v for v in CVALS if v == v])
    atoms = [(1, "H1", REG, UNKG), (6, "C2", REG, UNKG), (7, None, int(AtomType.sp2), UNKG), (8, "O4", REG, UNKG), (9, "F5", REG, UNKG)]
    bonds = [(1, 0, BT["Single"]), (1, 2, BT["Double"]), (3, 1, BT["Aromatic"]), (4, 1, BT["Single"]), (2, 3, BT["Triple"])]
    xyz = [tr[i % len(tr)] for i in range(5)]
    xyz = [[p[0] + i, p[1], p[2] - i] for i, p in enumerate(xyz)]
    q = [0.125, -0.25, 0.375, -0.5, 0.625]
    lists = [[0, 1, 2, 3, 4], [4, 3, 2, 1, 0], [4, 1, 3], [1, 3, 4], [3, 1], [2], [2, 4, 0, 3, 1], [1, 2]]
    if thorough:
        lists += [list(p) for p in itertools.permutations(range(5), 3)]
    for kind in ("M", "S"):
        spec = mkspec(kind, "parent", atoms, [{"xyz": xyz, "q": q}], bonds)
        for idx in rot(lists, seed):
            yield spec, idx, None
        for idx in rot(lists[:8], seed):
            for x in [x for x in range(5) if x not in idx]:
                yield spec, idx, ["del", x]
            yield spec, idx, ["add"]


# =================================================================================================
# SQ : partial charge VALUES: every 3-decimal value k/1000 in windows around 0, 1 e and 2 e (both signs), the
#      half-way 4-decimal values between them, larger magnitudes - written by the Molecule and the
#      ConformerEnsemble writer (100 atoms per molecule, primary entry points)
# =================================================================================================
def sq_values():
    ks = list(range(0, 31)) + list(range(985, 1031)) + list(range(1995, 2016)) + [2500, 9999, 10001, 12345, 99999, 123456]
    exact = [k / 1000 for k in ks] + [-k / 1000 for k in ks if k]
    half = [(k + 0.5) / 1000 for k in list(range(0, 8)) + list(range(998, 1008)) + list(range(2000, 2008))]
    half = half + [-h for h in half]
    return [(q, True) for q in exact] + [(q, False) for q in half]


def check_charge_values(ctx, kind, items):
    """items: [(q, exactly_representable_with_3_decimals)]"""
    n = len(items)
    qs = [q for q, _ in items]
    xyz = [[0.5 * i, -0.25 * i, 1.0] for i in range(n)]
    frames = [{"xyz": xyz, "q": qs}]
    if kind == "E":
        frames.append({"xyz": xyz[::-1], "q": qs[::-1]})
    spec = mkspec(kind, "charges", [(6, f"c{i}", REG, UNKG) for i in range(n)], frames, [])
    case = {"layer": "SQ", "kind": kind, "items": [[q, e] for q, e in items]}
    tmp = Path(ctx.scratch) / f"c07-{os.getpid()}-sq.mol2"
    kn = KINDNAME[kind]
    ctx.count(evaluations=1, states=1, traces=1, transitions=3)
    ctx.nontrivial(("SQ", kind, digest(qs)))
    try:
        obj, ref = build(spec)
    except UnderTestDeviation as e:
        ctx.violation(f"charges|{kn}|setup-{e.symptom}", e.detail, case)
        return
    rname = kn + ".loads_mol2"
    try:
        t1 = do_write(obj, "dump_mol2[StringIO]", tmp)
        r = do_read(rname, t1, tmp)
        t2 = do_write(r, "dump_mol2[StringIO]", tmp)
    except Exception as e:
        ctx.violation(f"charges|{kn}|round-trip-raised-{exc(e)}", f"{exc(e)}: {e}", case)
        return
    syms = observe(ref, rname, r)
    for s_, d in syms:
        ctx.violation(f"charges|{kn}|{s_}", f"{kn} with charges above 1 e: {d}", case)
    ctx.outcome(("SQ", kind, digest(t1), t1 == t2))
    if t1 != t2:
        cl = classify_text_diff(t1, t2)
        l1 = [l for l in t1.split("\n") if "UNL1" in l]
        l2 = [l for l in t2.split("\n") if "UNL1" in l]
        ex = next(((a.split()[-1], b.split()[-1]) for a, b in zip(l1, l2) if a != b), ("?", "?"))
        for c in cl:
            ctx.violation(f"charges|{kn}|not-a-fixed-point:{c}", f"{kn}: first write has charge {ex[0]}, the second write of what was read has {ex[1]}", case,
                          repro="import molli as ml\nfrom molli.chem import Atom\nm = ml.Molecule([Atom('C')], coords=[[0, 0, 0]])\nfor q in (1.003, 2.01, -1.0035):\n    m.atomic_charges = [q]; t1 = m.dumps_mol2(); t2 = ml.Molecule.loads_mol2(t1).dumps_mol2()\n    print(q, t1.splitlines()[8].split()[-1], t2.splitlines()[8].split()[-1])")
    # a value the format can hold exactly (k/1000) must be written as itself
    col = [l.split()[-1] for l in t1.split("\n") if "UNL1" in l][:n]
    for (q, exact), txt in zip(items, col):
        if exact and obj is not None:
            want = f"{q:.3f}"
            if want == "-0.000":
                want = "0.000"
            if txt != want:
                ctx.violation(f"charges|{kn}|three-decimal-value-not-written-as-itself", f"{kn}: charge {q!r} is written as {txt}", case)
                break


# =================================================================================================
# partitioned drivers
# =================================================================================================
def _part_inner(ctx, part):
    layer, i, nparts = part
    seed, thorough = ctx.seed, ctx.thorough
    if layer in S_LAYERS:
        for idx, spec in enumerate(S_LAYERS[layer](seed, thorough)):
            if idx % nparts != i:
                continue
            check_spec(ctx, spec)
            ctx.add_note(f"cases_{layer}")
            if idx == i == 0 or (idx == i == 1):
                ctx.sample({"layer": layer, "spec": spec})
        return
    if layer == "HW":
        for idx, (spec, hist) in enumerate(gen_HW(seed, thorough)):
            if idx % nparts != i:
                continue
            check_spec(ctx, spec, hist)
            ctx.add_note("cases_HW")
        return
    if layer == "SH":
        for idx, blocks in enumerate(gen_SH(seed, thorough)):
            if idx % nparts != i:
                continue
            check_multimol(ctx, blocks)
            ctx.add_note("cases_SH")
        return
    if layer == "TA":
        trs = rot(all_triples(), seed * 7919)
        for idx in range(i, len(trs), nparts):
            check_triple(ctx, trs[idx])
            ctx.add_note("cases_TA")
        return
    if layer == "TB":
        trs = rot(all_triples(), seed * 7919)
        chunks = [trs[k : k + 100] for k in range(0, len(trs), 100)]
        for idx in range(i, len(chunks), nparts):
            for kind in ("M", "S", "E"):
                check_tb(ctx, kind, chunks[idx], seed)
                ctx.add_note("cases_TB")
        return
    if layer == "TB2":
        reps = token_representatives()
        m = len(reps)
        for a in range(i, m, nparts):
            for b in range(m):
                check_tb(ctx, "M", [reps[a], reps[b]], seed, bonded=True)
                ctx.add_note("cases_TB2")
        return
    if layer == "SQ":
        vals = rot(sq_values(), seed * 17)
        chunks = [vals[k : k + 100] for k in range(0, len(vals), 100)]
        for idx in range(i, len(chunks), nparts):
            for kind in ("M", "E"):
                check_charge_values(ctx, kind, chunks[idx])
                ctx.add_note("cases_SQ")
        return
    if layer == "TR":
        trs = rot(all_triples(), seed * 7919)
        for idx in range(i, len(trs), nparts):
            check_repr_local(ctx, trs[idx])
            ctx.add_note("cases_TR")
        chunks = [trs[k : k + 100] for k in range(0, len(trs), 100)]
        for idx in range(i, len(chunks), nparts):
            check_repr_objects(ctx, chunks[idx], seed)
            ctx.add_note("cases_TR_objects")
        return
    if layer == "SV":
        for idx, (spec, ilist, pedit) in enumerate(gen_SV(seed, thorough)):
            if idx % nparts != i:
                continue
            check_views(ctx, spec, ilist, pedit)
            ctx.add_note("cases_SV")
        return
    if layer == "LC":
        cases = lc_cases(seed)
        for idx in range(i, len(cases), nparts):
            for kind in ("M", "S", "E"):
                check_lc(ctx, kind, cases[idx])
                ctx.add_note("cases_LC")
        return
    if layer == "TA2":
        reps = rot(class_representatives(), seed)
        pairs = [(a, b, via) for a in reps for b in reps for via in ("fields", "set_mol2_type")]
        for idx in range(i, len(pairs), nparts):
            check_retype(ctx, *pairs[idx])
            ctx.add_note("cases_TA2")
        return
    if layer == "WE":
        for idx, (spec, first, edits) in enumerate(gen_WE(seed, thorough)):
            if idx % nparts != i:
                continue
            check_write_edit_write(ctx, spec, first, edits)
            ctx.add_note("cases_WE")
        return
    if layer == "BL":
        if i == 0:
            for bt in BondType:
                check_bond_local(ctx, int(bt))
            for b1 in BondType:
                for b2 in BondType:
                    for via in ("btype", "set_mol2_type"):
                        check_bond_retype(ctx, int(b1), int(b2), via)
        toks = rot(EMITTABLE_BOND_TOKENS, seed)
        seqs = [s for d in (1, 2, 3) for s in itertools.product(toks, repeat=d)]
        for idx in range(i, len(seqs), nparts):
            check_bond_history(ctx, seqs[idx])
            ctx.add_note("cases_BL_histories")
        return
    raise HarnessError(f"unknown layer {layer}")


def _part(ctx, part):
    """a check may exit 2 only for its own bugs: an exception that escapes from the library through a path
    the harness did not anticipate is a finding about the library, not a harness error"""
    try:
        _part_inner(ctx, part)
    except HarnessError:
        raise
    except UnderTestDeviation as e:
        ctx.violation(f"setup|{part[0]}|{e.symptom}", e.detail, None)
    except Exception as e:
        if not raised_in_library(e):
            raise
        import traceback

        ctx.violation(f"unexpected-exception-in-the-library|{part[0]}|{exc(e)}", f"{exc(e)}: {e} :: " + traceback.format_exc()[-600:], None)


def token_representatives():
    """first triple (in enum order) that emits each distinct token - measured on the tree"""
    reps = {}
    for tr in all_triples():
        z, t, g = tr
        try:
            tok = Atom(Element(z), atype=AtomType(t), geom=AtomGeom(g)).get_mol2_type()
        except Exception:
            continue
        reps.setdefault(tok, tr)
    return [reps[k] for k in sorted(reps)]


def run(ctx):
    seed, thorough = ctx.seed, ctx.thorough
    ctx.rule = (
        "bounded-exhaustive inputs: every (element x AtomType x AtomGeom) triple atom-locally and through 100-atom texts of all "
        "three classes; every BondType x endpoint order; every history of <= 3 set_mol2_type calls over the 8 emittable bond tokens; "
        "small-scope structures (0..3 atoms; thorough ..4) as full products of the stated name/label/coordinate/charge/bond alphabets, each "
        "pushed through every writer entry point x every reader entry point (3 x 15 matrix) and one W(R(text)) fixed-point step; expected values "
        "come from the harness's own spec of the structure. A case is non-trivial when some atom deviates from the constructor defaults "
        "(label, non-zero coordinate, charge, type, geometry) or the structure has a bond or a second conformer"
    )
    ctx.assumptions += [
        "name alphabet: one-line names without leading/trailing blanks and not empty (a mol2 reader strips lines; an all-blank name is not a name)",
        "labels None and '' are 'empty' (the property only speaks about non-empty labels); all other labels are whitespace-free",
        "coordinates: |read - written| <= 1e-6 (the precision the property states; the writer's rounding needs 0.5e-6), NaN must read back as NaN",
        "charges: |read - written| <= 1e-3; compared only when writer and reader class both carry partial charges (Molecule, ConformerEnsemble)",
        "bond list compared as a multiset of (unordered endpoint pair, type); bond types mol2 can express = Tripos 1 2 3 am ar du un nc "
        "(Single Double Triple Amide Aromatic Dummy Unknown NotConnected); the other 7 molli bond types only need an accepted, fixed-point token",
        "fixed point = the text of the first write is reproduced byte for byte by writing what the same class read from it",
        "loads_mol2/load_mol2 of a multi-molecule text return the first molecule (documented behaviour); loads_all/ConformerEnsemble return all, in order",
        "an ensemble with 0 conformers has no mol2 text and is out of scope",
        "layer SQ: charge values k/1000 around 0, 1 e, 2 e (both signs), half-way 4-decimal values, magnitudes up to 123: read back within 1e-3, the text is a fixed point, and a value the "
        "format holds exactly (k/1000) is written as itself (not one thousandth off)",
        "layer TR: the enum-valued atom fields may be held as enum members, plain ints or numpy ints (msgpack libraries return ints): every (element, atype, geom) triple must be typed "
        "the same in each representation, atom-locally and in molecules that went through pickle / MoleculeLibrary / ConformerLibrary",
        "layer SV: views as written objects - Substructure over ascending / reversed / shuffled index lists and Structure(sub) / Molecule(sub) copies; atom k of the text is "
        "source.atoms[k] with the PARENT's element, label, coordinates, and the parent's bonds among the selected atoms; the name compared is the one the written object reports",
        "generator-returning entry points (yield_from_mol2, parsing.read_mol2) are consumed with list() first and compared afterwards",
        "layer SX: atoms carrying fields the mol2 format does not store (isotope 2/3 on H, 13 on C, 18 on O, formal charge / spin, stereo, attrib) must still be written as a "
        "text that reads back with everything the format does store (the existing oracle)",
        "layer LC: free-text alphabet = every printable non-blank ASCII character (33..126) in atom labels (alone, at the start / middle / end, every ordered pair of "
        "the 32 punctuation characters, labels of 1..12 characters next to coordinates of every magnitude) and in molecule names (same, plus an inner blank); all 94 "
        "characters round-trip on the reference tree; excluded: blanks in labels (they separate the fields of an ATOM line) and leading/trailing blanks or an empty "
        "name (the reader strips lines); the writer emits no other free-text field (substructure name is the constant UNL1)",
        "write - edit in place - write (layers TA2, BL bond pairs, WE): whatever a writer derives from an object follows the object's CURRENT state: "
        "get_mol2_type of an edited atom/bond equals that of a fresh atom/bond with the same fields; a structure written once, edited in place (element, atype, "
        "geom, label, bond type, coordinate, charge, name) and written again reads back as the edited structure, and its type columns are those of fresh atoms/bonds "
        "with the current fields",
        "layer HW (history before writing): creating other containers (Promolecule/Connectivity/Structure/Molecule over a list of the structure's own Atom "
        "objects, copy_atoms=False), a Substructure view or an ensemble + Conformer view, alive or dropped, does not change the structure: its mol2 text "
        "must still read back as the structure (its own atom order is the reference); likewise when the written object is such a second container",
        "the write -> read reference is what the constructed OBJECT holds (normally exactly the requested numbers; never a harness error if a constructor stores other numbers)",
        "layer SH (multi-molecule texts of DIFFERENT molecules): texts are concatenated molli dumps of each molecule and harness-formatted texts "
        "(also with NO_CHARGES and USER_CHARGES blocks mixed; a NO_CHARGES block carries 0.0 in its charge column and must give zero charges); every "
        "molecule must come back with its own name, elements, labels, coordinates, charges and bond list",
        "Bond.set_mol2_type histories: a reader accepts a token only if the bond carries it afterwards (needed for 'every token is accepted by its own reader')",
    ]
    nE, nT, nG, nB = len(Element), len(AtomType), len(AtomGeom), len(BondType)
    ctx.bound.update(
        {
            "elements": nE,
            "atom_types": nT,
            "atom_geometries": nG,
            "typing_triples": nE * nT * nG,
            "bond_types": nB,
            "max_atoms_small_scope": 4 if thorough else 3,
            "max_conformers": 3,
            "writer_entries": WRITERS,
            "reader_entries": READERS,
            "names": NAMES,
            "labels": LABELS,
            "coordinate_values": [repr(v) for v in CVALS],
            "charges": CHARGES,
            "bond_set_history_depth": 3,
        }
    )
    ctx.note("property_text_says_triples", "119 x 22 x 17; the tree under test has %d x %d x %d" % (nE, nT, nG))
    np_ = 16 if thorough else 8
    parts = []
    for layer in ("TA", "TA2", "TR", "TB", "BL", "S0", "SQ", "SX", "SV", "TC", "S4", "SH", "LC", "WE", "HW", "S2", "S1", "S3"):
        n = 1 if layer in ("S0",) else np_ * (4 if layer in ("S1", "S3", "S2") or (thorough and layer == "HW") else 1)
        parts += [(layer, i, n) for i in range(n)]
    if thorough:
        parts += [("TB2", i, np_ * 8) for i in range(np_ * 8)]
        ctx.bound["distinct_atom_tokens_pairwise"] = len(token_representatives())
    ctx.pmap(_part, parts)
    # a few TA samples
    for tr in all_triples()[seed % 5 :: 9973][:3]:
        z, t, g = tr
        ctx.sample({"layer": "TA", "triple": [Element(z).name, AtomType(t).name, AtomGeom(g).name], "token": Atom(Element(z), atype=AtomType(t), geom=AtomGeom(g)).get_mol2_type()})


def replay(ctx, case):
    layer = case["layer"]
    if layer == "S":
        check_spec(ctx, normspec(case["spec"]), case.get("history"))
    elif layer == "SH":
        check_multimol(
            ctx,
            [
                {
                    "name": b["name"],
                    "atoms": [[int(a[0]), a[1], int(a[2]), int(a[3])] for a in b["atoms"]],
                    "xyz": [[fl(c) for c in p] for p in b["xyz"]],
                    "q": [fl(c) for c in b["q"]],
                    "bonds": [[int(x) for x in bb] for bb in b["bonds"]],
                }
                for b in case["blocks"]
            ],
        )
    elif layer == "TA":
        check_triple(ctx, tuple(int(x) for x in case["triple"]))
    elif layer == "TB":
        check_tb(ctx, case["kind"], [tuple(int(x) for x in t) for t in case["triples"]], ctx.seed, bonded=bool(case.get("bonded")))
    elif layer == "SQ":
        check_charge_values(ctx, case["kind"], [(fl(q), bool(e)) for q, e in case["items"]])
    elif layer == "TR":
        check_repr_local(ctx, tuple(int(x) for x in case["triple"]))
    elif layer == "TRO":
        check_repr_objects(ctx, [tuple(int(x) for x in t) for t in case["triples"]], ctx.seed)
    elif layer == "SV":
        check_views(ctx, normspec(case["spec"]), [int(x) for x in case["idx"]], case.get("pedit"))
    elif layer == "LC":
        if case["field"] == "name":
            check_lc(ctx, case["kind"], ("name", case["text"], None))
        elif case["field"] == "label":
            check_lc(ctx, case["kind"], ("label", [case["text"]], [[fl(c) for c in p] for p in case.get("xyz") or [[1.0, 2.0, 3.0]]]))
        else:
            check_lc(ctx, case["kind"], ("label", case["labels"], [[fl(c) for c in p] for p in case["xyz"]]))
    elif layer == "TA2":
        check_retype(ctx, tuple(int(x) for x in case["t1"]), tuple(int(x) for x in case["t2"]), case["via"])
    elif layer == "BL2":
        check_bond_retype(ctx, int(case["b1"]), int(case["b2"]), case["via"])
    elif layer == "WE":
        check_write_edit_write(ctx, normspec(case["spec"]), case["first"], case["edits"])
    elif layer == "BL":
        check_bond_local(ctx, int(case["btype"]))
    elif layer == "BS":
        check_bond_history(ctx, tuple(case["seq"]))
    else:
        raise HarnessError(f"unknown layer {layer}")
