"""
C01 - library round trip: what is stored in a .mlib / .clib is what is read back.

Bounded-exhaustive enumeration of a small-scope grammar of molecules / ensembles / conformer views:
  * every value of every field alphabet alone (1-way) and every pair of values of two different
    fields (2-way: inside the atom record, inside the bond record, inside the molecule record and
    across all three), all other fields at their constructor defaults,
  * every shape (n_atoms 0..3, n_bonds 0..3, n_conformers 0..3),
  * every put order x read order x {same handle, new handle} x {one session, one session per put}
    of 1..3 objects,
each through a real MoleculeLibrary / ConformerLibrary for the current (v2) and the legacy (v1)
encoding.  The expected value is a field-by-field snapshot of the object taken before the write by
the harness's own walker over the public accessors (never molli's as_tuple / serializers).

Comparison = what the property text says, up to the data model of the storage format:
  enums by value, list == tuple, floats (fractional bond order, floats inside attribute
  dictionaries, coordinates, charges, weights) at single precision with NaN == NaN, everything else
  exactly; v1 is compared on the fields of its schema only.
"""
from __future__ import annotations

import atexit
import hashlib
import itertools
import os
import traceback
from pathlib import Path

import numpy as np

from mc.core import HarnessError

import molli as ml
from molli.chem import Atom, Bond, Element, AtomType, AtomStereo, AtomGeom, BondType, BondStereo, Molecule, ConformerEnsemble
from molli.storage.ukvfile import UKVFile

LEVEL = "model_checking"

NAN = float("nan")
INF = float("inf")

# -------------------------------------------------------------------------------------------------
# alphabets (name -> value); names are what a replay case stores
# -------------------------------------------------------------------------------------------------
ATTRIBS = {
    "empty": {},
    "flat": {"a": 1, "b": "x"},
    "nested": {"d": {"l": [1, [2, "y"]], "n": None}, "t": (1, 2), "": "empty key"},
    "bytes": {"raw": b"\x00\xff", "s": "α"},
    "float": {"f": 0.1, "g": 1.5, "nan": NAN, "inf": -INF},
    "intbool": {"t": True, "f": False, "neg": -5, "big": 2**40},
}
LABELS = {"None": None, "empty": "", "C1": "C1", "space": "a b", "nonascii": "Cα–é"}
VALS = {"0": 0.0, "-1.5": -1.5, "1e-9": 1e-9, "16777217": 16777217.0, "nan": NAN, "inf": INF, "-inf": -INF}


def enum_alpha(cls, raw):
    out = {}
    for name, m in cls.__members__.items():
        if m.name != name:
            continue  # alias
        out[name] = m
        if raw:
            out[name + "/int"] = int(m)
    return out


def alphabets(thorough: bool):
    el = {m.name: m for m in Element} if thorough else {"Unknown": Element.Unknown, "H": Element.H, "C": Element.C, "Og": Element.Og}
    A = {
        "atom.element": el,
        "atom.isotope": {"None": None, "0": 0, "2": 2, "13": 13, "300": 300},
        "atom.label": LABELS,
        "atom.atype": enum_alpha(AtomType, True),
        "atom.stereo": enum_alpha(AtomStereo, thorough),
        "atom.geom": enum_alpha(AtomGeom, thorough),
        "atom.formal_charge": {"-2": -2, "0": 0, "1": 1},
        "atom.formal_spin": {"0": 0, "1": 1, "2": 2},
        "atom.attrib": ATTRIBS,
        "bond.ends": {"01": (0, 1), "10": (1, 0), "02": (0, 2), "20": (2, 0), "12": (1, 2), "21": (2, 1)},
        "bond.label": LABELS,
        "bond.btype": enum_alpha(BondType, True),
        "bond.stereo": enum_alpha(BondStereo, thorough),
        "bond.f_order": {"0": 0.0, "1": 1.0, "1.5": 1.5, "-0.5": -0.5, "1e-3": 1e-3},
        "bond.attrib": ATTRIBS,
        "mol.name": {"None": None, "empty": "", "plain": "mol1", "spaces": "my mol é"},
        "mol.charge": {"-2": -2, "0": 0, "3": 3},
        "mol.mult": {"1": 1, "2": 2, "3": 3},
        "mol.attrib": ATTRIBS,
        "coords.val": VALS,
        "charges.val": VALS,
        "weights.val": VALS,  # ensembles only
        "nc": {"0": 0, "1": 1, "2": 2, "3": 3},  # ensembles only
    }
    return A


ENS_ONLY = ("weights.val", "nc")
V1_ABSENT = ("atom.formal_charge", "atom.formal_spin", "atom.attrib", "bond.attrib", "mol.attrib")
ATOM_FIELDS = ("element", "isotope", "label", "atype", "stereo", "geom", "formal_charge", "formal_spin", "attrib")
BOND_FIELDS = ("label", "btype", "stereo", "f_order", "attrib")
BASE_EL = ["C", "H", "O"]
BASE_ENDS = [(0, 1), (1, 2), (0, 2)]


def base_coords(nc, na):
    a = np.zeros((nc, na, 3))
    for c in range(nc):
        for j in range(na):
            for x in range(3):
                a[c, j, x] = 0.25 * (1 + x + 3 * j + 9 * c) * (-1 if (j + x) % 2 else 1)
    return a


def base_charges(nc, na):
    return np.array([[0.125 * (j + 1) - 0.5 * c for j in range(na)] for c in range(nc)], dtype=float).reshape((nc, na))


def base_weights(nc):
    return np.array([0.5 / (2**c) for c in range(nc)], dtype=float).reshape((nc,))


# -------------------------------------------------------------------------------------------------
# building an object of the grammar through the public API
# -------------------------------------------------------------------------------------------------
DTYPE_HOOK = {"float32": np.float32, "float64": np.float64, ">f4": ">f4", "<f4": "<f4", "float16": np.float16, ">f8": ">f8"}
# measured on the repaired tree: the documented subclass hook `class M(ml.Molecule, coords_dtype=...)`
# accepts these (an integer dtype fails at construction: NaN fill); ConformerEnsemble has no such hook;
# the coords / atomic_charges / weights setters and constructor keywords convert to float64 whatever
# dtype, byte order or layout the caller's array has.
ASSIGN_FORMS = ["float32", ">f4", ">f8", "float16", "non-contiguous", "fortran-order"]
_SUBCLS = {}


def molecule_class(dtname):
    if dtname not in _SUBCLS:
        _SUBCLS[dtname] = type(f"Molecule_{dtname.strip('<>')}_{len(_SUBCLS)}", (Molecule,), {}, coords_dtype=DTYPE_HOOK[dtname])
    return _SUBCLS[dtname]


def _as_form(a, form):
    """the same values, handed over as an array of another dtype / byte order / memory layout"""
    a = np.asarray(a, dtype=np.float64)
    if form is None:
        return a
    if form in ("float32", ">f4", ">f8", "float16"):
        return a.astype(form)
    if form == "non-contiguous":
        big = np.zeros(tuple(2 * n for n in a.shape), dtype=np.float64)
        v = big[tuple(slice(None, None, 2) for _ in a.shape)]
        v[...] = a
        return v
    if form == "fortran-order":
        return np.asfortranarray(a)
    raise HarnessError(form)


def build(A, kind, shape, over, seed, tag=None, bonds=None, dtype=None, assign=None):
    """kind: 'mol' | 'ens' | 'conf' (a Conformer view of an ensemble).  shape = (na, nb, nc).
    over = {dimension: value name}.  bonds = explicit bond topology [[a1, a2, {field: value name}], ...]
    (replaces the nb base bonds).  Returns the object to store.

    The object is deliberately NOT built the way the decoders build theirs: the record-level fields
    (name, charge, mult, attrib) and the atom fields are assigned AFTER construction (so that a
    value a constructor might derive or default - charge 0 on an ion, mult 1 on a radical, name ''
    - really is what the object holds), and bonds are explicit Bond objects handed to append_bond
    (never connect())."""
    na, nb, nc = shape
    if "nc" in over:
        nc = A["nc"][over["nc"]]
    fa = seed % na if na else 0
    fb = seed % nb if nb else 0
    fc = nc - 1
    atoms = []
    for j in range(na):
        el = BASE_EL[j]
        if j == fa and "atom.element" in over:
            el = A["atom.element"][over["atom.element"]]
        atoms.append(Atom(el))
    if kind == "mol":
        obj = (molecule_class(dtype) if dtype else Molecule)(atoms)
        C = base_coords(1, na)[0]
        Q = base_charges(1, na)[0]
        if na:
            if "coords.val" in over:
                C[fa, 0] = A["coords.val"][over["coords.val"]]
            if "charges.val" in over:
                Q[fa] = A["charges.val"][over["charges.val"]]
            obj.coords = _as_form(C, assign)
            obj.atomic_charges = _as_form(Q, assign)
    else:
        if na:
            obj = ConformerEnsemble(atoms, n_conformers=nc)
        else:
            obj = ConformerEnsemble(n_conformers=nc, n_atoms=0)
        C = base_coords(nc, na)
        Q = base_charges(nc, na)
        W = base_weights(nc)
        if nc:
            if na and "coords.val" in over:
                C[fc, fa, 0] = A["coords.val"][over["coords.val"]]
            if na and "charges.val" in over:
                Q[fc, fa] = A["charges.val"][over["charges.val"]]
            if "weights.val" in over:
                W[fc] = A["weights.val"][over["weights.val"]]
        obj.coords = _as_form(C, assign)
        obj.atomic_charges = _as_form(Q, assign)
        obj.weights = _as_form(W, assign)
    # bonds: explicit Bond objects, appended in the given order and direction
    if bonds is None:
        blist = []
        for b in range(nb):
            e1, e2 = BASE_ENDS[b]
            kw = {}
            if b == fb:
                if "bond.ends" in over:
                    e1, e2 = A["bond.ends"][over["bond.ends"]]
                for f in BOND_FIELDS:
                    d = "bond." + f
                    if d in over:
                        kw[f] = _fresh(A[d][over[d]])
            blist.append((e1, e2, kw))
    else:
        blist = [(e1, e2, {f: _fresh(A["bond." + f][v]) for f, v in (kw or {}).items()}) for e1, e2, kw in bonds]
    for e1, e2, kw in blist:
        obj.append_bond(Bond(obj.atoms[e1], obj.atoms[e2], **kw))
    # atom fields of the focus atom and record-level fields: assigned after construction
    if na:
        for f in ATOM_FIELDS:
            d = "atom." + f
            if d in over and f != "element":
                setattr(obj.atoms[fa], f, _fresh(A[d][over[d]]))
    for f in ("name", "charge", "mult", "attrib"):
        d = "mol." + f
        if d in over:
            setattr(obj, f, _fresh(A[d][over[d]]))
    if tag is not None:
        obj.name = f"{obj.name}{tag}"  # makes the stored record byte-unique for this case
    if kind == "conf":
        return obj[fc]
    return obj


def _fresh(v):
    """alphabet values are shared between cases: hand out copies of the mutable ones"""
    if isinstance(v, dict):
        return {k: _fresh(x) for k, x in v.items()}
    if isinstance(v, list):
        return [_fresh(x) for x in v]
    return v


# -------------------------------------------------------------------------------------------------
# the harness's own walker
# -------------------------------------------------------------------------------------------------
def _deep(v):
    """a snapshot owns its values (the object may be changed in place afterwards)"""
    if isinstance(v, dict):
        return {k: _deep(x) for k, x in v.items()} if v else {}
    if isinstance(v, list):
        return [_deep(x) for x in v]
    if isinstance(v, tuple):
        return tuple(_deep(x) for x in v)
    return v


def snapshot(obj):
    d = {}
    is_ens = isinstance(obj, ConformerEnsemble)
    d["type"] = "ensemble" if is_ens else ("molecule" if isinstance(obj, Molecule) else type(obj).__name__)
    d["mol.name"] = obj.name
    d["mol.charge"] = obj.charge
    d["mol.mult"] = obj.mult
    d["mol.attrib"] = _deep(obj.attrib)
    atoms = list(obj.atoms)
    bonds = list(obj.bonds)
    d["n_atoms"] = obj.n_atoms
    d["n_bonds"] = obj.n_bonds
    d["len(atoms)"] = len(atoms)
    d["len(bonds)"] = len(bonds)
    for f in ATOM_FIELDS:
        d["atom." + f] = [_deep(getattr(a, f)) for a in atoms] if f == "attrib" else [getattr(a, f) for a in atoms]
    pos = {id(a): i for i, a in enumerate(atoms)}
    d["bond.ends"] = [(pos.get(id(b.a1)), pos.get(id(b.a2))) for b in bonds]
    for f in BOND_FIELDS:
        d["bond." + f] = [_deep(getattr(b, f)) for b in bonds] if f == "attrib" else [getattr(b, f) for b in bonds]
    c = np.array(obj.coords)
    q = np.array(obj.atomic_charges)
    d["coords.shape"] = tuple(c.shape)
    d["charges.shape"] = tuple(q.shape)
    d["coords.val"] = c
    d["charges.val"] = q
    if is_ens:
        w = np.array(obj.weights)
        d["n_conformers"] = obj.n_conformers
        d["weights.shape"] = tuple(w.shape)
        d["weights.val"] = w
    return d


def f32eq(a, b):
    try:
        a = np.asarray(a, dtype=np.float64).astype(np.float32)
        b = np.asarray(b, dtype=np.float64).astype(np.float32)
    except (TypeError, ValueError):
        return False
    if a.shape != b.shape:
        return False
    return bool(((a == b) | ((a != a) & (b != b))).all())


def eqv(a, b):
    """equality up to the storage format's data model"""
    if isinstance(a, float) or isinstance(b, float):
        if isinstance(a, (int, float)) and isinstance(b, (int, float)) and not isinstance(a, bool) and not isinstance(b, bool):
            return f32eq(a, b)
        return False
    if isinstance(a, dict) or isinstance(b, dict):
        if not (isinstance(a, dict) and isinstance(b, dict)) or set(a) != set(b):
            return False
        return all(eqv(a[k], b[k]) for k in a)
    if isinstance(a, (list, tuple)) or isinstance(b, (list, tuple)):
        if not (isinstance(a, (list, tuple)) and isinstance(b, (list, tuple))) or len(a) != len(b):
            return False
        return all(eqv(x, y) for x, y in zip(a, b))
    if isinstance(a, (bytes, str)) or isinstance(b, (bytes, str)):
        return type(a) is type(b) and a == b
    if a is None or b is None:
        return a is None and b is None
    try:
        return bool(a == b)  # ints, IntEnum == int, bool
    except Exception:
        return False


def vclass(v):
    import enum

    if v is None:
        return "None"
    if isinstance(v, enum.Enum):
        return "enum"
    if isinstance(v, bool):
        return "bool"
    if isinstance(v, int):
        return "int0" if v == 0 else ("int-neg" if v < 0 else "int-pos")
    if isinstance(v, float):
        if v != v:
            return "nan"
        if v in (INF, -INF):
            return "inf"
        if v == 0:
            return "float0"
        return "float32-exact" if float(np.float32(v)) == v else "float"
    if isinstance(v, str):
        if v == "":
            return "empty-str"
        return "str" if v.isascii() else "str-nonascii"
    if isinstance(v, bytes):
        return "bytes"
    if isinstance(v, dict):
        return "dict-empty" if not v else "dict"
    if isinstance(v, (list, tuple)):
        return "seq"
    return type(v).__name__


FLOAT_ARRAYS = ("coords.val", "charges.val", "weights.val")
V1_SKIP = {"atom.formal_charge", "atom.formal_spin", "atom.attrib", "bond.attrib", "mol.attrib"}


def compare(exp, got, enc, conf_source=False):
    """-> list of (field, symptom) where what was read differs from what was written"""
    out = []
    # a lost / extra atom or bond is one finding, not one per field of the record
    skip = set()
    for what, pre in (("atoms", "atom."), ("bonds", "bond.")):
        ln = f"len({what})"
        if ln in got and exp[ln] != got[ln]:
            out.append((ln, f"{what[:-1]}-sequence:length-differs"))
            skip |= {ln, f"n_{what}"} | {k for k in exp if k.startswith(pre)}
            if what == "atoms":
                skip |= {"coords.shape", "charges.shape", "coords.val", "charges.val"}
    for k in exp:
        if k in skip:
            continue
        if enc == "v1" and k in V1_SKIP:
            continue
        if k == "type":
            want = "molecule" if conf_source else exp[k]
            if got.get(k) != want:
                out.append((k, f"type:read-back-as-{got.get(k)}"))
            continue
        if k not in got:
            out.append((k, f"{k}:missing"))
            continue
        e, g = exp[k], got[k]
        if k in FLOAT_ARRAYS:
            if not f32eq(e, g):
                if np.asarray(e).shape != np.asarray(g).shape:
                    continue  # reported through the .shape field
                ea = np.asarray(e, dtype=float).ravel()
                ga = np.asarray(g, dtype=float).ravel()
                bad = [i for i in range(len(ea)) if not f32eq(ea[i], ga[i])]
                # one element: the class of the value written; several: the block as a whole is wrong
                # (which element comes first would depend on the seed's focus atom)
                cls_ = vclass(float(ea[bad[0]])) if len(bad) == 1 else "several-elements"
                out.append((k, f"{k}:differs[written={cls_}]"))
            continue
        if isinstance(e, list) and k.startswith(("atom.", "bond.")):
            if not isinstance(g, list) or len(e) != len(g):
                out.append((k, f"{k}:sequence-length-differs"))
                continue
            for x, y in zip(e, g):
                if not eqv(x, y):
                    out.append((k, f"{k}:differs[written={vclass(x)}]"))
                    break
            continue
        if not eqv(e, g):
            out.append((k, f"{k}:differs[written={vclass(e)}]"))
    return out


def digest(snap):
    def enc(v):
        if isinstance(v, np.ndarray):
            return ("nd", v.shape, v.astype(np.float32).tobytes())
        if isinstance(v, dict):
            return tuple(sorted((repr(k), enc(x)) for k, x in v.items()))
        if isinstance(v, (list, tuple)):
            return tuple(enc(x) for x in v)
        if isinstance(v, float):
            return ("f", np.float32(v).tobytes())
        if isinstance(v, int) and not isinstance(v, bool):
            return int(v)
        return repr(v)

    return hashlib.blake2b(repr(enc(snap)).encode(), digest_size=10).hexdigest()


def exc_sig(e):
    """exception class + innermost molli frame (module.function): class-level, no run-specific text"""
    where = "?"
    for fr in traceback.extract_tb(e.__traceback__):
        fn = fr.filename.replace("\\", "/")
        if "/molli/" in fn and "/mc/props/" not in fn:
            where = f"{os.path.basename(fn)[:-3]}.{fr.name}"
    return f"raised-{type(e).__name__}@{where}"


# -------------------------------------------------------------------------------------------------
# libraries
# -------------------------------------------------------------------------------------------------
LIBCLS = {"mlib": ml.MoleculeLibrary, "clib": ml.ConformerLibrary}


class Libs:
    def __init__(self, scratch):
        self.dir = Path(scratch) / f"c01-{os.getpid()}"
        self.dir.mkdir(parents=True, exist_ok=True)
        self.n = 0
        self.open_handles = []

    def new_path(self, lib, enc):
        self.n += 1
        p = self.dir / f"l{self.n % 4}_{enc}.{lib}"
        if p.exists():
            p.unlink()
        if enc == "v1":
            UKVFile(p, mode="x", h1=b"ML10Library").close()
        return p

    def open(self, lib, path, readonly=False, **kw):
        h = LIBCLS[lib](path, readonly=readonly, **kw)
        self.open_handles.append(h)
        return h

    def done(self):
        for h in self.open_handles:
            be = h._backend
            try:
                be._write_queue.clear()
                uf = getattr(be, "_ukvfile", None)
                if uf is not None and not uf.closed:
                    uf._stream.close()
            except Exception:
                pass
            atexit.unregister(be.flush)
        self.open_handles.clear()


def check_version(h, enc):
    name = getattr(h._deserializer, "__name__", "")
    if ("_v1" in name) != (enc == "v1"):
        raise HarnessError(f"library handle selected codec {name} for encoding {enc}")


def roundtrip_batch(libs, lib, enc, objs):
    """put every object under its own key in one writing session, read all back in one reading
    session through a second handle.  -> list of ('ok', obj) | ('put', exc) | ('get', exc)"""
    path = libs.new_path(lib, enc)
    res = [None] * len(objs)
    hw = libs.open(lib, path, readonly=False)
    check_version(hw, enc)
    with hw.writing(timeout=10):
        for i, o in enumerate(objs):
            try:
                hw[f"k{i}"] = o
            except Exception as e:
                res[i] = ("put", e)
    hr = libs.open(lib, path, readonly=True)
    check_version(hr, enc)
    with hr.reading(timeout=10):
        for i, o in enumerate(objs):
            if res[i] is not None:
                continue
            try:
                res[i] = ("ok", hr[f"k{i}"])
            except Exception as e:
                res[i] = ("get", e)
    libs.done()
    return res


# -------------------------------------------------------------------------------------------------
# case generation
# -------------------------------------------------------------------------------------------------
def case_key(c):
    return (c["kind"], tuple(c["shape"]), tuple(sorted(c["over"].items())), repr(c.get("bonds")), c.get("dtype"), c.get("assign"))


def gen_field_cases(A, thorough, seed):
    """1-way and 2-way field-value combinations on the base shapes"""
    cases = {}

    def add(kind, shape, over, tag):
        c = {"kind": kind, "shape": list(shape), "over": dict(over), "tag": tag}
        cases.setdefault(case_key(c), c)

    for kind, shape in (("mol", (3, 2, 1)), ("ens", (3, 2, 1))):
        dims = [d for d in A if kind == "ens" or d not in ENS_ONLY]
        r = seed % len(dims)
        dims = dims[r:] + dims[:r]
        add(kind, shape, {}, "defaults")
        for d in dims:
            for v in A[d]:
                add(kind, shape, {d: v}, "1-way")
        for d1, d2 in itertools.combinations(dims, 2):
            for v1 in A[d1]:
                for v2 in A[d2]:
                    add(kind, shape, {d1: v1, d2: v2}, "2-way")
        if thorough:
            # the same pairs on multi-conformer / 3-bond bases
            for d1, d2 in itertools.combinations(dims, 2):
                if "nc" in (d1, d2):
                    continue
                for v1 in A[d1]:
                    for v2 in A[d2]:
                        add(kind, (3, 3, 2), {d1: v1, d2: v2}, "2-way/base2")
    # a Conformer view stored in a MoleculeLibrary: 1-way
    dims = list(A)
    for d in dims:
        for v in A[d]:
            if d == "nc" and A[d][v] == 0:
                continue
            add("conf", (3, 2, 2), {d: v}, "1-way/conformer")
    if thorough:
        # 3-way inside the atom record (elements restricted to the 4 representatives)
        ad = [d for d in A if d.startswith("atom.")]
        el4 = ["Unknown", "H", "C", "Og"]
        for d1, d2, d3 in itertools.combinations(ad, 3):
            for v1 in el4 if d1 == "atom.element" else A[d1]:
                for v2 in el4 if d2 == "atom.element" else A[d2]:
                    for v3 in el4 if d3 == "atom.element" else A[d3]:
                        add("mol", (2, 1, 1), {d1: v1, d2: v2, d3: v3}, "3-way/atom")
        # 3-way inside the bond record, on an ensemble
        bd = [d for d in A if d.startswith("bond.")]
        for d1, d2, d3 in itertools.combinations(bd, 3):
            for v1 in A[d1]:
                for v2 in A[d2]:
                    for v3 in A[d3]:
                        add("ens", (3, 2, 2), {d1: v1, d2: v2, d3: v3}, "3-way/bond")
    return list(cases.values())


def gen_topology_cases(thorough):
    """bond sequences the decoders must reproduce as they are: several bonds over one atom pair
    (same direction and reversed, with different fields), a bond from an atom to itself, every order
    and every direction of three bonds"""
    S, L_, D = {"label": "C1"}, {"label": "space", "btype": "Ligand", "attrib": "flat"}, {"btype": "Double", "stereo": "E", "f_order": "1.5"}
    topo = [
        [[0, 1, S], [0, 1, L_]],
        [[0, 1, S], [1, 0, L_]],
        [[1, 0, {}], [1, 0, {}]],
        [[0, 1, S], [1, 2, {}], [0, 1, L_]],
        [[0, 1, S], [0, 1, L_], [1, 0, D]],
        [[0, 0, S]],
        [[0, 1, {}], [1, 1, L_]],
        [[2, 2, {}], [2, 2, S]],
    ]
    pairs = [(0, 1), (1, 2), (0, 2)]
    for perm in itertools.permutations(range(3)):
        for flips in itertools.product((0, 1), repeat=3):
            topo.append([[pairs[i][flips[n]], pairs[i][1 - flips[n]], {"label": ["C1", "space", "nonascii"][i]}] for n, i in enumerate(perm)])
    cases = []
    for bonds in topo:
        na = 1 + max(max(b[0], b[1]) for b in bonds)
        for kind, nc in (("mol", 1), ("ens", 2), ("conf", 2)):
            cases.append({"kind": kind, "shape": [max(na, 2), 0, nc], "over": {}, "bonds": bonds, "tag": "bond-topology"})
    return cases


def gen_dtype_cases(A, thorough):
    """the dtype of the stored object's own arrays (Molecule subclasses declared through the
    coords_dtype hook) and the dtype / byte order / layout of arrays handed to the setters"""
    cases = []
    vals = [v for v in A["coords.val"]]
    for dt in DTYPE_HOOK:
        for shape in ([1, 0, 1], [2, 1, 1], [3, 2, 1]):
            cases.append({"kind": "mol", "shape": shape, "over": {}, "dtype": dt, "tag": "dtype"})
        for d in ("coords.val", "charges.val"):
            for v in vals:
                if dt == "float16" and v in ("1e-9", "16777217"):
                    pass  # kept: the snapshot is taken from the object, i.e. after its own rounding
                cases.append({"kind": "mol", "shape": [3, 2, 1], "over": {d: v}, "dtype": dt, "tag": "dtype"})
    for form in ASSIGN_FORMS:
        for kind, shape in (("mol", [3, 2, 1]), ("ens", [3, 2, 2]), ("conf", [3, 2, 2])):
            cases.append({"kind": kind, "shape": shape, "over": {}, "assign": form, "tag": "assign"})
            if thorough:
                for d in ("coords.val", "charges.val", "weights.val"):
                    if d == "weights.val" and kind == "mol":
                        continue
                    for v in vals:
                        cases.append({"kind": kind, "shape": shape, "over": {d: v}, "assign": form, "tag": "assign"})
    return cases


def gen_shape_cases(A, thorough):
    cases = []
    for na in range(4):
        for nb in range(4):
            if nb and na < 2:
                continue
            if nb > (1 if na == 2 else 3):
                pass  # parallel bonds are produced through bond.ends below; BASE_ENDS needs 3 atoms for >1
            if na == 2 and nb > 1:
                continue
            cases.append({"kind": "mol", "shape": [na, nb, 1], "over": {}, "tag": "shape"})
            for nc in range(4):
                cases.append({"kind": "ens", "shape": [na, nb, nc], "over": {}, "tag": "shape"})
                if nc:
                    cases.append({"kind": "conf", "shape": [na, nb, nc], "over": {}, "tag": "shape"})
    # parallel / reversed bonds on two atoms
    for ends in ("01", "10"):
        for kind in ("mol", "ens"):
            cases.append({"kind": kind, "shape": [3, 3, 2 if kind == "ens" else 1], "over": {"bond.ends": ends}, "tag": "shape/parallel"})
    if thorough:
        base = list(cases)
        for c in base:
            if c["tag"] != "shape" or c["shape"][0] == 0:
                continue
            for d in A:
                if d in ENS_ONLY and c["kind"] == "mol":
                    continue
                if d == "nc":
                    continue
                if d.startswith("bond.") and c["shape"][1] == 0:
                    continue
                if d == "bond.ends" and c["shape"][0] < 3:
                    continue
                if d == "weights.val" and c["shape"][2] == 0:
                    continue
                for v in A[d]:
                    cases.append({"kind": c["kind"], "shape": list(c["shape"]), "over": {d: v}, "tag": "shape x 1-way"})
    return cases


LIB_OF = {"mol": "mlib", "conf": "mlib", "ens": "clib"}


# -------------------------------------------------------------------------------------------------
# evaluation of a block of cases
# -------------------------------------------------------------------------------------------------
def eval_cases(ctx, A, cases, seed, minimise=True):
    libs = Libs(ctx.scratch)
    B = 128
    mini = Minimiser(libs, A, seed) if minimise else None
    for kind in ("mol", "ens", "conf"):
        sub = [c for c in cases if c["kind"] == kind]
        lib = LIB_OF[kind]
        for s in range(0, len(sub), B):
            blk = sub[s : s + B]
            objs, exps = [], []
            for c in blk:
                try:
                    o = build(A, c["kind"], tuple(c["shape"]), c["over"], seed, bonds=c.get("bonds"), dtype=c.get("dtype"), assign=c.get("assign"))
                    e = snapshot(o)
                except Exception as ex:
                    raise HarnessError(f"cannot construct case {c}: {type(ex).__name__}: {ex}")
                objs.append(o)
                exps.append(e)
            results = {}
            for enc in ("v2", "v1"):
                results[enc] = roundtrip_batch(libs, lib, enc, objs)
            for i, c in enumerate(blk):
                judge(ctx, c, lib, exps[i], {enc: results[enc][i] for enc in ("v2", "v1")}, objs[i], mini)


def classify(case, lib, exp, res):
    """-> (list of (signature, enc, symptom), outcome vector) of one case over both encodings"""
    fails = {}
    outs = []
    for enc in ("v2", "v1"):
        stage, val = res[enc]
        if stage == "ok":
            try:
                got = snapshot(val)
            except Exception as e:
                fails[enc] = [f"walk-read-object:{exc_sig(e)}"]
                outs.append((enc, "walk-exc"))
                continue
            diffs = compare(exp, got, enc, conf_source=(case["kind"] == "conf"))
            fails[enc] = [sym for _, sym in diffs]
            outs.append((enc, digest(got)))
        else:
            fails[enc] = [f"{stage}:{exc_sig(val)}"]
            outs.append((enc, fails[enc][0]))
    src = "conformer-view>" if case["kind"] == "conf" else ""
    sigs = []
    common = [s for s in fails["v2"] if s in fails["v1"]]
    for s in common:
        sigs.append((f"{src}{lib}|enc=any|{s}", "any", s))
    for enc in ("v2", "v1"):
        for s in fails[enc]:
            if s not in common:
                sigs.append((f"{src}{lib}|enc={enc}|{s}", enc, s))
    return sigs, tuple(outs), fails


def judge(ctx, case, lib, exp, res, obj, mini=None):
    """classify one case over both encodings and report"""
    sigs, outs, fails = classify(case, lib, exp, res)
    ctx.count(evaluations=2, states=1, transitions=4, traces=2)
    ctx.outcome(outs)
    if exp["n_atoms"] >= 1 and case["over"]:
        ctx.nontrivial((case["kind"], tuple(case["shape"]), tuple(sorted(case["over"].items()))))
    if case.get("sample"):
        ctx.sample({"case": case, "fields_compared": len(exp), "read_back_ok": {e: not fails[e] for e in fails}})
    # the source object must not have been altered by being stored
    try:
        after = snapshot(obj)
        if compare(exp, after, "v2", conf_source=False):
            ctx.violation(f"{lib}|put:source-object-altered", "storing an object in a library changed the object itself", _case(case, "v2"))
    except Exception:
        pass
    pre = f"arrays[{case['dtype']}-subclass]|" if case.get("dtype") else (f"arrays[assigned-as-{case['assign']}]|" if case.get("assign") else "")
    sigs = [(pre + sg, e_, sy) for sg, e_, sy in sigs]
    for sig, enc, symptom in sigs:
        rep = case
        if mini is not None and sig not in ctx.violations:
            rep = mini.smallest(case, lib, sig)
        what = f"{rep['kind']} of shape (atoms,bonds,conformers)={tuple(rep['shape'])} with {rep['over'] or 'default fields'}: {symptom} after the round trip through a {enc if enc != 'any' else 'v2 and v1'} {lib}"
        ctx.violation(sig, what, _case(rep, enc), repro=repro_code(rep, lib, enc))


def _case(case, enc):
    d = {"mode": "roundtrip", "kind": case["kind"], "shape": case["shape"], "over": case["over"], "enc": enc, "tag": case.get("tag")}
    if case.get("bonds") is not None:
        d["bonds"] = case["bonds"]
    for k in ("dtype", "assign"):
        if case.get(k):
            d[k] = case[k]
    return d


class Minimiser:
    """Every worker reports a signature through the same canonical smallest case (so that the kept
    counterexample does not depend on which worker finishes first): the first case, in a fixed
    order, of {every shape with default fields} + {every single value of the dimensions the failing
    case had overridden} that shows the same signature; the failing case itself if none does."""

    def __init__(self, libs, A, seed):
        self.libs, self.A, self.seed = libs, A, seed
        self.memo = {}

    def sigs_of(self, case, lib):
        key = case_key(case)
        if key not in self.memo:
            try:
                o = build(self.A, case["kind"], tuple(case["shape"]), case["over"], self.seed, bonds=case.get("bonds"), dtype=case.get("dtype"), assign=case.get("assign"))
                exp = snapshot(o)
            except Exception:
                self.memo[key] = set()
                return self.memo[key]
            res = {enc: roundtrip_batch(self.libs, lib, enc, [o])[0] for enc in ("v2", "v1")}
            self.memo[key] = {s for s, _, _ in classify(case, lib, exp, res)[0]}
        return self.memo[key]

    def candidates(self, case):
        kind = case["kind"]
        for na in (1, 2, 3, 0):
            for nc in (1, 2, 3, 0) if kind != "mol" else (1,):
                if kind == "conf" and nc == 0:
                    continue
                for nb in (0, 1, 2, 3):
                    if (nb and na < 2) or (na == 2 and nb > 1):
                        continue
                    yield {"kind": kind, "shape": [na, nb, nc], "over": {}, "tag": "minimised"}
        base = [3, 2, 2] if kind == "conf" else [3, 2, 1]
        for d in sorted(case["over"]):
            for shape in (base, list(case["shape"])):
                for v in self.A[d]:
                    yield {"kind": kind, "shape": list(shape), "over": {d: v}, "tag": "minimised"}
        # a defect that needs two fields together (a value derived from another field): every pair
        # of values of two of the overridden dimensions, in alphabet order
        dims = sorted(case["over"])
        for d1, d2 in itertools.combinations(dims, 2):
            for v1 in self.A[d1]:
                for v2 in self.A[d2]:
                    yield {"kind": kind, "shape": list(base), "over": {d1: v1, d2: v2}, "tag": "minimised"}

    def smallest(self, case, lib, sig):
        for c in self.candidates(case):
            if sig in self.sigs_of(c, lib):
                return c
        return case


# -------------------------------------------------------------------------------------------------
# sequence dimension: put orders x read orders x handles x sessions
# -------------------------------------------------------------------------------------------------
SEQ_OBJS = {
    "mlib": [
        {"kind": "mol", "shape": [1, 0, 1], "over": {"mol.name": "plain", "atom.label": "C1"}},
        {"kind": "mol", "shape": [3, 2, 1], "over": {"mol.charge": "-2", "bond.btype": "Aromatic", "atom.attrib": "nested"}},
        {"kind": "conf", "shape": [2, 1, 2], "over": {"atom.isotope": "13", "coords.val": "nan"}},
    ],
    "clib": [
        {"kind": "ens", "shape": [1, 0, 1], "over": {"mol.name": "plain", "atom.label": "C1"}},
        {"kind": "ens", "shape": [3, 2, 3], "over": {"mol.charge": "-2", "bond.btype": "Aromatic", "weights.val": "-1.5"}},
        {"kind": "ens", "shape": [2, 1, 0], "over": {"atom.isotope": "13"}},
    ],
}


def gen_seq_cases():
    out = []
    for lib in ("mlib", "clib"):
        for enc in ("v2", "v1"):
            for n in (1, 2, 3):
                for puts in itertools.permutations(range(n)):
                    for gets in itertools.permutations(range(n)):
                        for reopen in (False, True):
                            for sessions in ("one", "each"):
                                for route in ("getitem", "items"):
                                    if route == "items" and gets != tuple(range(n)):
                                        continue
                                    out.append({"mode": "sequence", "lib": lib, "enc": enc, "puts": list(puts), "gets": list(gets), "reopen": reopen, "sessions": sessions, "route": route})
    return out


def eval_seq(ctx, A, sc, seed, libs=None):
    libs = libs or Libs(ctx.scratch)
    lib, enc = sc["lib"], sc["enc"]
    specs = SEQ_OBJS[lib]
    objs = [build(A, s["kind"], tuple(s["shape"]), s["over"], seed) for s in specs]
    exps = [snapshot(o) for o in objs]
    # the v1 codec can only hold single-conformer ensembles (reported by the field / shape
    # enumeration under its own signature): the sequence dimension uses those there
    if enc == "v1" and lib == "clib":
        specs = [dict(s, shape=[s["shape"][0], s["shape"][1], 1]) for s in specs]
        objs = [build(A, s["kind"], tuple(s["shape"]), s["over"], seed) for s in specs]
        exps = [snapshot(o) for o in objs]
    path = libs.new_path(lib, enc)
    sig0 = f"sequence|{lib}|enc={enc}"
    ok = True
    ntrans = 0
    try:
        h = libs.open(lib, path, readonly=False)
        check_version(h, enc)
        if sc["sessions"] == "one":
            with h.writing(timeout=10):
                for i in sc["puts"]:
                    h[f"key{i}"] = objs[i]
                    ntrans += 1
        else:
            for i in sc["puts"]:
                with h.writing(timeout=10):
                    h[f"key{i}"] = objs[i]
                    ntrans += 1
        hr = libs.open(lib, path, readonly=True) if sc["reopen"] else h
        got = {}
        with hr.reading(timeout=10):
            keys = sorted(hr.keys())
            if sc["route"] == "items":
                for k, v in hr.items():
                    got[k] = v
                    ntrans += 1
            else:
                for i in sc["gets"]:
                    got[f"key{i}"] = hr[f"key{i}"]
                    ntrans += 1
    except Exception as e:
        ctx.violation(f"{sig0}|{exc_sig(e)}", f"put/get sequence {sc} raised {type(e).__name__}: {e}", sc)
        ok = False
        keys, got = [], {}
    finally:
        libs.done()
    if ok:
        want = sorted(f"key{i}" for i in sc["puts"])
        if keys != want or sorted(got) != want:
            ctx.violation(f"{sig0}|key-set-differs", f"keys read {keys} / {sorted(got)} != keys put {want}", sc)
            ok = False
    outs = []
    if ok:
        for i in sc["puts"]:
            g = snapshot(got[f"key{i}"])
            outs.append(digest(g))
            for _, sym in compare(exps[i], g, enc, conf_source=(specs[i]["kind"] == "conf")):
                ctx.violation(f"{sig0}|{sym}", f"in sequence {sc}: object {i} read back different: {sym}", sc)
    ctx.count(evaluations=1, states=1, transitions=ntrans, traces=1)
    ctx.outcome(("seq", tuple(outs)))
    if len(sc["puts"]) >= 2:
        ctx.nontrivial(("seq", lib, enc, tuple(sc["puts"]), tuple(sc["gets"]), sc["reopen"], sc["sessions"], sc["route"]))


# -------------------------------------------------------------------------------------------------
# interleaving inside ONE writing session: every string over {put next object, get a stored key,
# probe (contains / keys / len)} up to a length, then everything is read back in the same session,
# in a new session of the same handle and through a new handle
#   (user code:  with lib.writing(): lib["x_opt"] = f(lib["x"]) )
# -------------------------------------------------------------------------------------------------
_RICH = {"mol.name": "plain", "mol.charge": "-2", "mol.mult": "3", "mol.attrib": "nested", "atom.attrib": "nested", "atom.label": "C1", "atom.isotope": "13", "atom.formal_charge": "1", "bond.attrib": "flat", "bond.btype": "Aromatic", "bond.label": "space"}
ILV_POOL = {
    "mlib": [
        {"kind": "mol", "shape": [1, 0, 1], "over": {"mol.name": "plain"}},
        {"kind": "mol", "shape": [3, 2, 1], "over": dict(_RICH)},
        {"kind": "conf", "shape": [2, 1, 2], "over": {"atom.isotope": "13", "mol.attrib": "flat"}},
        {"kind": "mol", "shape": [2, 1, 1], "over": {"atom.label": "nonascii", "bond.btype": "Aromatic"}},
    ],
    "clib": [
        {"kind": "ens", "shape": [1, 0, 1], "over": {"mol.name": "plain"}},
        {"kind": "ens", "shape": [3, 2, 3], "over": dict(_RICH, **{"weights.val": "-1.5"})},
        {"kind": "ens", "shape": [2, 1, 0], "over": {"atom.isotope": "13"}},
        {"kind": "ens", "shape": [2, 1, 2], "over": {"atom.label": "nonascii", "bond.btype": "Aromatic"}},
    ],
}
ILV_UNICODE_KEYS = ["β-pinene", "(−)-menthol / α", "", "𝛼-terpinéol.1"]  # 2-, 3-, 4-byte characters, blanks, slash, dot, the empty key
ILV_BUFS = {"default": {}, "large": {"bufsize": 1_000_000}, "zero": {"bufsize": 0}}


def gen_ilv_strings(maxlen, npool):
    """all op strings: 'P' (store the next object of the pool), ('G', j) (read stored object j),
    'Q' (contains / keys / len); only strings that store something and whose last op is not a probe
    or whose reads matter are kept (a string must contain >= 1 put)"""
    out = []

    def rec(cur, nput):
        if cur and nput:
            out.append(list(cur))
        if len(cur) == maxlen:
            return
        if nput < npool:
            rec(cur + ["P"], nput + 1)
        for j in range(nput):
            rec(cur + [["G", j]], nput)
        if cur and cur[-1] != "Q":
            rec(cur + ["Q"], nput)

    rec([], 0)
    out.sort(key=lambda x: (len(x), repr(x)))
    return out


def ilv_class(ops):
    """input class for the signature: was a record that is not the last one stored read before a
    later put?"""
    nput, pending = 0, False
    for o in ops:
        if o == "P":
            if pending:
                return "get-of-earlier-record-then-put"
            nput += 1
        elif o != "Q" and o[1] < nput - 1:
            pending = True
    return "other"


def _ilv_one(libs, A, ic, enc, seed):
    """-> (list of symptoms, outcome, transitions)"""
    lib, ops = ic["lib"], ic["ops"]
    pool = ILV_POOL[lib]
    order = list(range(len(pool)))
    r = seed % len(order)
    order = order[r:] + order[:r]
    if ic.get("rev"):
        order = order[::-1]
    specs = [pool[i] for i in order]
    objs = [build(A, s["kind"], tuple(s["shape"]), s["over"], seed) for s in specs]
    exps = [snapshot(o) for o in objs]
    confs = [s["kind"] == "conf" for s in specs]
    knames = ILV_UNICODE_KEYS if ic.get("keys") == "unicode" else [f"key{i}" for i in range(len(pool))]
    allkeys = list(knames[: len(pool)])
    path = libs.new_path(lib, enc)
    ntr = 0
    outs = []
    stored = []

    def check_obj(stage, j, got):
        g = snapshot(got)
        outs.append(digest(g))
        d = compare(exps[j], g, enc, conf_source=confs[j])
        if not d:
            return None
        for k in stored:
            if k != j and not compare(exps[k], g, enc, conf_source=confs[k]):
                return "record-corrupted"  # (reads back as the object stored under another key)
        return "record-corrupted"

    def check_keys(stage, h):
        want = sorted(allkeys[j] for j in stored)
        ks = sorted(h.keys())
        if ks != want or len(h) != len(want):
            return "key-listing-differs"
        for k in allkeys:
            if (k in h) != (k in want):
                return "key-listing-differs"
        return None

    def read_all(stage, h):
        sym = check_keys(stage, h)
        if sym:
            return sym
        for j in stored:
            sym = check_obj(stage, j, h[allkeys[j]])
            if sym:
                return sym
        return None

    stage = "in-session"
    doing = ["open"]
    try:
        h = libs.open(lib, path, readonly=False, **ILV_BUFS[ic.get("buf", "default")])
        check_version(h, enc)
        with h.writing(timeout=10):
            for o in ops:
                ntr += 1
                doing[0] = "put" if o == "P" else ("probe" if o == "Q" else "get")
                if o == "P":
                    j = len(stored)
                    h[allkeys[j]] = objs[j]
                    stored.append(j)
                elif o == "Q":
                    sym = check_keys("in-session-probe", h)
                    if sym:
                        return [sym], tuple(outs), ntr
                else:
                    sym = check_obj("in-session-get", o[1], h[allkeys[o[1]]])
                    if sym:
                        return [sym], tuple(outs), ntr
            stage = "same-session-readback"
            doing[0] = "get"
            sym = read_all(stage, h)
            ntr += len(stored)
            if sym:
                return [sym], tuple(outs), ntr
        stage = "new-session-readback"
        with h.reading(timeout=10):
            sym = read_all(stage, h)
            ntr += len(stored)
        if sym:
            return [sym], tuple(outs), ntr
        stage = "new-handle-readback"
        h2 = libs.open(lib, path, readonly=True)
        with h2.reading(timeout=10):
            sym = read_all(stage, h2)
            ntr += len(stored)
        if sym:
            return [sym], tuple(outs), ntr
        return [], tuple(outs), ntr
    except HarnessError:
        raise
    except Exception as e:
        # what a damaged record decodes to (another object, garbage, an exception of whatever type)
        # depends on the sizes of the records involved: the symptom class must not
        sym = {"put": "put-raised", "probe": "key-listing-differs"}.get(doing[0], "record-corrupted")
        return [sym], tuple(outs) + ("exc",), ntr
    finally:
        libs.done()


def eval_ilv(ctx, A, ic, seed, libs=None):
    libs = libs or Libs(ctx.scratch)
    res, outs, ntr = {}, [], 0
    for enc in ("v2", "v1"):
        syms, out, n = _ilv_one(libs, A, ic, enc, seed)
        res[enc] = syms
        outs.append(out)
        ntr += n
    ctx.count(evaluations=2, states=1, transitions=ntr, traces=2)
    ctx.outcome(("ilv", tuple(outs)))
    nput = sum(1 for o in ic["ops"] if o == "P")
    if nput >= 2 and any(o != "P" and o != "Q" for o in ic["ops"]):
        ctx.nontrivial(("ilv", ic["lib"], ic.get("buf", "default"), bool(ic.get("rev")), ic.get("keys"), repr(ic["ops"])))
    cls = ilv_class(ic["ops"])
    common = [x for x in res["v2"] if x in res["v1"]]
    todo = [("any", x) for x in common] + [(enc, x) for enc in ("v2", "v1") for x in res[enc] if x not in common]
    for enc, sym in todo:
        ctx.violation(
            f"interleave|{ic['lib']}|enc={enc}|buf={ic.get('buf', 'default')}{'|keys=unicode' if ic.get('keys') == 'unicode' else ''}|{cls}|{sym}",
            f"one writing session on one handle, ops {ic['ops']} (P = store next object, [G,j] = read key j, Q = contains/keys/len): {sym}",
            dict(ic, mode="interleave", enc=enc),
            repro=ilv_repro(ic),
        )


def ilv_repro(ic):
    cls = "MoleculeLibrary" if ic["lib"] == "mlib" else "ConformerLibrary"
    mk = "ml.Molecule(['C'] * (n + 1), name=f'obj{n}')" if ic["lib"] == "mlib" else "ml.ConformerEnsemble(['C'] * (n + 1), n_conformers=2, name=f'obj{n}')"
    kw = {"default": "", "large": ", bufsize=1_000_000", "zero": ", bufsize=0"}[ic.get("buf", "default")]
    L = ["import os, molli as ml", f"p = '/tmp/c01_interleave.{ic['lib']}'", "if os.path.exists(p): os.unlink(p)", f"def mk(n): return {mk}", f"lib = ml.{cls}(p, readonly=False{kw})", "with lib.writing():"]
    n = 0
    for o in ic["ops"]:
        if o == "P":
            L.append(f"    lib['key{n}'] = mk({n})")
            n += 1
        elif o == "Q":
            L.append("    print(sorted(lib.keys()), len(lib))")
        else:
            L.append(f"    print(lib['key{o[1]}'].name)")
    L.append(f"new = ml.{cls}(p)")
    L.append("with new.reading():")
    L.append(f"    print(sorted(new.keys()))          # expected {[f'key{i}' for i in range(n)]}")
    L.append("    for k in sorted(new.keys()): print(k, new[k].name, new[k].n_atoms)   # expected key<i> obj<i> i+1")
    return "\n".join(L)


def gen_ilv_cases(thorough):
    out = []
    L = 7 if thorough else 6
    strings = gen_ilv_strings(L, 4 if thorough else 3)
    for lib in ("mlib", "clib"):
        for ops in strings:
            out.append({"lib": lib, "ops": ops, "buf": "default"})
        # write buffer variants and the reversed pool order on the shorter strings
        for buf in ("large", "zero"):
            for ops in strings:
                if len(ops) <= L - 1:
                    out.append({"lib": lib, "ops": ops, "buf": buf})
        for ops in strings:
            if len(ops) <= L - 1:
                out.append({"lib": lib, "ops": ops, "buf": "default", "rev": True})
                out.append({"lib": lib, "ops": ops, "buf": "default", "keys": "unicode"})
    return out


# -------------------------------------------------------------------------------------------------
# size classes: records around the thresholds of the storage format (msgpack bin8/16/32, str8/16/32,
# array16/32, map16/32) and far above them; a fixed handful of objects, each big
# -------------------------------------------------------------------------------------------------
def size_catalog(thorough):
    """name -> (library, encodings, builder)"""
    C = {}

    def mol_attrib(v):
        def f():
            m = Molecule([Atom("C"), Atom("H")])
            m.coords = base_coords(1, 2)[0]
            m.attrib = {"payload": v(), "after": 1}
            return m

        return f

    def ens_block(na, nc):
        def f():
            e = ConformerEnsemble([Atom(BASE_EL[j % 3]) for j in range(na)], n_conformers=nc)
            e.coords = (np.arange(nc * na * 3, dtype=np.float64).reshape((nc, na, 3)) % 1024) * 0.25
            e.atomic_charges = (np.arange(nc * na, dtype=np.float64).reshape((nc, na)) % 64) * 0.125
            e.weights = np.arange(nc, dtype=np.float64) * 0.5
            return e

        return f

    def mol_atoms(na, nb=0):
        def f():
            m = Molecule([Atom(BASE_EL[j % 3]) for j in range(na)])
            m.coords = (np.arange(na * 3, dtype=np.float64).reshape((na, 3)) % 1024) * 0.25
            m.atomic_charges = (np.arange(na, dtype=np.float64) % 64) * 0.125
            for j in range(nb):
                m.append_bond(Bond(m.atoms[j % na], m.atoms[(j + 1) % na]))
            return m

        return f

    both = ("v2", "v1")
    # coordinate / charge blocks (bin items) around 64 KiB and 1 MiB
    C["coords-block<64KiB(100x54)"] = ("clib", both, ens_block(100, 54))
    C["coords-block>64KiB(100x60)"] = ("clib", both, ens_block(100, 60))
    C["coords-block<1MiB(100x870)"] = ("clib", both, ens_block(100, 870))
    C["coords-block>1MiB(100x900)"] = ("clib", both, ens_block(100, 900))
    C["molecule-coords-block>64KiB(5462-atoms)"] = ("mlib", both, mol_atoms(5462))
    for n in (255, 256, 65535, 65536, 2**20, 2**20 + 1) + ((2**24 + 1,) if thorough else ()):
        C[f"attrib-bytes[{n}]"] = ("mlib", ("v2",), mol_attrib(lambda n=n: bytes(range(256)) * (n // 256) + bytes(n % 256)))
    for n in (31, 32, 255, 256, 65535, 65536, 2**20 + 1):
        C[f"attrib-str[{n}]"] = ("mlib", ("v2",), mol_attrib(lambda n=n: "aé"[: 1 + (n % 2)] * (n // (1 + (n % 2)))))
    for n in (15, 16, 65535, 65536, 65537, 131073):
        C[f"attrib-list[{n}]"] = ("mlib", ("v2",), mol_attrib(lambda n=n: list(range(n))))
    for n in (15, 16, 32769) + ((65536, 65537) if thorough else ()):
        C[f"attrib-map[{n}]"] = ("mlib", ("v2",), mol_attrib(lambda n=n: {f"k{i}": i for i in range(n)}))
    C["name-str[65536]"] = ("mlib", both, lambda: _named(mol_atoms(2)(), "n" * 65536))
    # array lengths: atoms / bonds
    C["atoms[65537]"] = ("mlib", both, mol_atoms(65537))
    if thorough:
        C["atoms[131073]"] = ("mlib", both, mol_atoms(131073))
        C["bonds[65537]"] = ("mlib", both, mol_atoms(3, 65537))
        C["ensemble-atoms[65537]x2"] = ("clib", both, ens_block(65537, 2))
        C["coords-block>16MiB(100x14000)"] = ("clib", both, ens_block(100, 14000))
    return C


def _named(o, name):
    o.name = name
    return o


def eval_size(ctx, A, name, seed):
    cat = size_catalog(True)
    lib, encs, builder = cat[name]
    libs = Libs(ctx.scratch)
    obj = builder()
    exp = snapshot(obj)
    fails = {}
    for enc in encs:
        stage, val = roundtrip_batch(libs, lib, enc, [obj])[0]
        if stage == "ok":
            diffs = compare(exp, snapshot(val), enc)
            fails[enc] = sorted({sym.split("[written=")[0] for _, sym in diffs})
        else:
            fails[enc] = [f"{stage}:{exc_sig(val)}"]
    ctx.count(evaluations=len(encs), states=1, transitions=2 * len(encs), traces=len(encs))
    ctx.outcome(("size", name, tuple(sorted((e, tuple(f)) for e, f in fails.items()))))
    ctx.nontrivial(("size", name))
    common = [x for x in fails[encs[0]] if all(x in fails[e] for e in encs)] if len(encs) > 1 else []
    todo = [("any", x) for x in common] + [(e, x) for e in encs for x in fails[e] if x not in common]
    for enc, sym in todo:
        ctx.violation(
            f"size|{lib}|enc={enc}|{name}|{sym}",
            f"a record of size class {name} stored in a {enc if enc != 'any' else 'v2 and v1'} {lib}: {sym}",
            {"mode": "size", "name": name, "enc": enc},
            repro=size_repro(name, lib),
        )


def size_repro(name, lib):
    L = ["import os, numpy as np, molli as ml", "from molli.chem import Atom", f"p = '/tmp/c01_size.{lib}'", "if os.path.exists(p): os.unlink(p)"]
    if name.startswith("coords-block") or name.startswith("ensemble-atoms"):
        import re

        m = re.search(r"\((\d+)x(\d+)\)", name)
        na, nc = (int(m.group(1)), int(m.group(2))) if m else (65537, 2)
        L.append(f"obj = ml.ConformerEnsemble(['C'] * {na}, n_conformers={nc}); obj.coords = 1.0   # coords block: {na * nc * 12} bytes")
    elif name.startswith("attrib-"):
        kind, n = name[7:].split("[")[0], int(name.split("[")[1][:-1])
        v = {"bytes": f"bytes({n})", "str": f"'x' * {n}", "list": f"list(range({n}))", "map": f"{{f'k{{i}}': i for i in range({n})}}"}[kind]
        L.append(f"obj = ml.Molecule(['C', 'H']); obj.coords = 0.0; obj.attrib = {{'payload': {v}}}")
    elif name.startswith("name-str"):
        L.append("obj = ml.Molecule(['C', 'H'], name='n' * 65536); obj.coords = 0.0")
    else:
        n = int(name.split("[")[1].split("]")[0]) if "[" in name else 5462
        if name.startswith("bonds"):
            L.append(f"obj = ml.Molecule(['C', 'H', 'O']); obj.coords = 0.0\nfor j in range({n}): obj.append_bond(ml.chem.Bond(obj.atoms[j % 3], obj.atoms[(j + 1) % 3]))")
        else:
            L.append(f"obj = ml.Molecule(['C'] * {n}); obj.coords = 0.0")
    cls = "MoleculeLibrary" if lib == "mlib" else "ConformerLibrary"
    L += [f"lib = ml.{cls}(p, readonly=False)", "with lib.writing(): lib['k'] = obj", "with lib.reading(): back = lib['k']", "print(back, back.coords.shape, len(str(back.attrib)))"]
    return "\n".join(L)


# -------------------------------------------------------------------------------------------------
# key alphabet: the key a record is stored under is any str of <= 255 utf8 bytes
# -------------------------------------------------------------------------------------------------
KEY_ALPHABET = {
    "ascii": "plain_key-1",
    "utf8-2byte": "β-pinene",
    "utf8-3byte": "(−)-menthol",
    "utf8-4byte": "𝛼-pinene",
    "utf8-mixed": "α-terpinéol −𝛼",
    "blank-slash-dot": "dir/sub dir/file.v1.mlib ",
    "empty": "",
    "255-bytes-in-128-chars": "é" * 127 + "a",
    "255-bytes-ascii": "k" * 255,
    "prefix-a": "ab",
    "prefix-b": "abc",
    "prefix-c": "abcd",
    "256-bytes-in-128-chars": "é" * 128,  # must be rejected, library unchanged
    "256-bytes-ascii": "K" * 256,  # must be rejected, library unchanged
}
KEY_REJECTED = ("256-bytes-in-128-chars", "256-bytes-ascii")


def gen_key_cases(thorough):
    names = list(KEY_ALPHABET)
    out = []
    for lib in ("mlib", "clib"):
        for enc in ("v2", "v1") if thorough else ("v2",):
            for n in names:
                out.append({"lib": lib, "enc": enc, "keys": [n]})
            for a, b in itertools.permutations(names, 2):
                out.append({"lib": lib, "enc": enc, "keys": [a, b]})
            for r in range(len(names)):
                out.append({"lib": lib, "enc": enc, "keys": names[r:] + names[:r]})
            out.append({"lib": lib, "enc": enc, "keys": names[::-1]})
        if not thorough:
            for n in names:
                out.append({"lib": lib, "enc": "v1", "keys": [n, "ascii"] if n != "ascii" else [n]})
    return out


def _key_one(libs, A, kc, seed):
    """-> (symptom or None, class of the key concerned, outcome, transitions)"""
    lib, enc = kc["lib"], kc["enc"]
    pool = ILV_POOL[lib]
    path = libs.new_path(lib, enc)
    stored = {}  # key -> (snapshot, conf)
    ntr = 0
    concerned = "+".join(sorted(set(kc["keys"])))

    def verify(h, stage):
        ks = sorted(h.keys())
        if ks != sorted(stored) or len(h) != len(stored):
            return f"key-listing-differs", concerned
        for name in kc["keys"]:
            k = KEY_ALPHABET[name]
            if (k in h) != (k in stored):
                return "key-listing-differs", name
        for name in kc["keys"]:
            k = KEY_ALPHABET[name]
            if k not in stored:
                continue
            try:
                g = snapshot(h[k])
            except Exception:
                return "record-corrupted", name
            if compare(stored[k][0], g, enc, conf_source=stored[k][1]):
                return "record-corrupted", name
        return None

    try:
        h = libs.open(lib, path, readonly=False)
        check_version(h, enc)
        with h.writing(timeout=10):
            for n, name in enumerate(kc["keys"]):
                k = KEY_ALPHABET[name]
                spec = pool[(n + seed) % len(pool)]
                o = build(A, spec["kind"], tuple(spec["shape"]), spec["over"], seed, tag=f"#{n}")
                ntr += 1
                if name in KEY_REJECTED:
                    try:
                        h[k] = o
                    except Exception:
                        pass
                    else:
                        return "oversize-key-accepted", name, ("acc",), ntr
                    r = verify(h, "after-rejected-put")
                    if r:
                        if r[1] == name or r[0] == "key-listing-differs":
                            return "rejected-put-changed-the-library", name, ("rej",), ntr
                        return r[0], r[1], ("rej-other",), ntr
                else:
                    try:
                        h[k] = o
                    except Exception:
                        return "put-raised", name, ("put",), ntr
                    stored[k] = (snapshot(o), spec["kind"] == "conf")
            r = verify(h, "same-session")
            if r:
                return r[0], r[1], ("same",), ntr
        with h.reading(timeout=10):
            r = verify(h, "new-session")
        if r:
            return r[0], r[1], ("new",), ntr
        h2 = libs.open(lib, path, readonly=True)
        with h2.reading(timeout=10):
            r = verify(h2, "fresh-handle")
        if r:
            return r[0], r[1], ("fresh",), ntr
        h3 = libs.open(lib, path, readonly=False)
        with h3.writing(timeout=10):
            r = verify(h3, "fresh-writable-handle")
        if r:
            return r[0], r[1], ("freshw",), ntr
        return None, concerned, ("ok", len(stored)), ntr + 4 * len(stored)
    except HarnessError:
        raise
    except Exception as e:
        return "record-corrupted", concerned, ("exc", type(e).__name__), ntr
    finally:
        libs.done()


def eval_key(ctx, A, kc, seed, libs=None):
    libs = libs or Libs(ctx.scratch)
    sym, kcls, out, ntr = _key_one(libs, A, kc, seed)
    ctx.count(evaluations=1, states=1, transitions=ntr, traces=1)
    ctx.outcome(("key", kc["lib"], kc["enc"], tuple(kc["keys"]) if len(kc["keys"]) <= 2 else len(kc["keys"]), out))
    if len(kc["keys"]) >= 2:
        ctx.nontrivial(("key", kc["lib"], kc["enc"], tuple(kc["keys"])))
    if sym:
        if "+" in kcls:
            kcls = "several"
        ctx.violation(
            f"keys|{kc['lib']}|key={kcls}|{sym}",
            f"records stored under the keys {kc['keys']} (in this order, one writing session), read in the same session, a new session and through fresh handles: {sym} (key class {kcls})",
            dict(kc, mode="keys"),
            repro=key_repro(kc),
        )


def key_repro(kc):
    cls = "MoleculeLibrary" if kc["lib"] == "mlib" else "ConformerLibrary"
    mk = "ml.Molecule(['C'] * (n + 1), name=f'obj{n}')" if kc["lib"] == "mlib" else "ml.ConformerEnsemble(['C'] * (n + 1), n_conformers=2, name=f'obj{n}')"
    L = ["import os, molli as ml", f"p = '/tmp/c01_keys.{kc['lib']}'", "if os.path.exists(p): os.unlink(p)", f"def mk(n): return {mk}", f"keys = {[KEY_ALPHABET[k] for k in kc['keys'][:4]]!r}", f"lib = ml.{cls}(p, readonly=False)", "with lib.writing():", "    for n, k in enumerate(keys):", "        try: lib[k] = mk(n)", "        except Exception as e: print('put', repr(k[:12]), type(e).__name__)", "    for n, k in enumerate(keys):", "        if k in lib: print('same session', repr(k[:12]), lib[k].name)", f"new = ml.{cls}(p)", "with new.reading():", "    print(sorted(new.keys()))", "    for k in sorted(new.keys()): print('fresh handle', repr(k[:12]), new[k].name)"]
    return "\n".join(L)


# -------------------------------------------------------------------------------------------------
# how the file came to be: pre-state of the path x constructor options; objects carrying v2-only
# fields; read back in the same session, a new session, through fresh handles; compared by the
# encoding the FILE has (v1 only for a file that carries the v1 magic)
# -------------------------------------------------------------------------------------------------
ORIGIN_PRE = ["absent", "empty-file", "garbage-file", "v2-library", "v1-library", "bundled-v1-library"]


def gen_origin_cases(thorough):
    out = []
    for lib in ("mlib", "clib"):
        for pre in ORIGIN_PRE:
            if pre == "bundled-v1-library" and lib != "mlib":
                continue
            for overwrite in (False, True):
                if pre in ("empty-file", "garbage-file") and not overwrite:
                    continue  # not a library: nothing is demanded of opening it as one
                if pre == "bundled-v1-library" and overwrite:
                    continue
                for h1 in (None, "custom"):
                    for comment in (None, "text"):
                        if (h1 or comment) and pre in ("v2-library", "v1-library", "bundled-v1-library") and not overwrite:
                            continue  # header options only matter when the file is created
                        for ro_first in (False, True) if pre == "bundled-v1-library" else (False,):
                            out.append({"lib": lib, "pre": pre, "overwrite": overwrite, "h1": h1, "comment": comment, "readonly": ro_first})
    return out


def _file_enc(path):
    with open(path, "rb") as f:
        return "v1" if f.read(16).startswith(b"ML10Library") else "v2"


def _origin_one(libs, A, oc, seed):
    """-> (stage:symptom or None, outcome, transitions)"""
    import shutil

    lib = oc["lib"]
    cls = LIBCLS[lib]
    path = libs.dir / f"origin.{lib}"
    if path.exists():
        path.unlink()
    spec = REGET_OBJS[0] if lib == "mlib" else REGET_OBJS[3]
    mk = lambda tag: build(A, spec["kind"], tuple(spec["shape"]), spec["over"], seed, tag=tag)
    old = mk("#old")
    news = [mk("#new0"), mk("#new1")]
    pre = oc["pre"]
    ntr = 0
    stage = "prepare"
    try:
        if pre == "empty-file":
            path.write_bytes(b"")
        elif pre == "garbage-file":
            path.write_bytes(b"this is not a molli library \x00\xff" * 7)
        elif pre in ("v2-library", "v1-library"):
            if pre == "v1-library":
                UKVFile(path, mode="x", h1=b"ML10Library").close()
            h0 = libs.open(lib, path, readonly=False)
            with h0.writing(timeout=10):
                h0["old"] = old
            libs.done()
        elif pre == "bundled-v1-library":
            shutil.copy(ml.files.fletcher_phosphoramidite_cats_legacy_v1 if hasattr(ml.files, "fletcher_phosphoramidite_cats_legacy_v1") else Path(ml.files.__file__).parent / "fletcher_phosphoramidite_cats.mlib", path)
    except Exception as e:
        raise HarnessError(f"cannot prepare {oc}: {type(e).__name__}: {e}")
    kw = {}
    if oc["overwrite"]:
        kw["overwrite"] = True
    if oc["h1"]:
        kw["h1"] = b"MyOwnLibrary"
    if oc["comment"]:
        kw["comment"] = "a comment é"
    keeps_old = pre in ("v2-library", "v1-library", "bundled-v1-library") and not oc["overwrite"]
    stored = {}
    try:
        if oc["readonly"]:
            stage = "read-only-handle"
            hro = libs.open(lib, path, readonly=True)
            with hro.reading(timeout=10):
                ks = sorted(hro.keys())
                if not ks:
                    return f"{stage}:key-listing-differs", ("ro",), ntr
                for k in ks[:6]:
                    o = hro[k]
                    ntr += 1
                    if not isinstance(o, Molecule) or o.n_atoms < 1:
                        return f"{stage}:object-differs", ("ro",), ntr
        stage = "construct"
        h = libs.open(lib, path, readonly=False, **kw)
        fenc = _file_enc(path)
        if pre in ("absent", "empty-file", "garbage-file") or oc["overwrite"]:
            if fenc != "v2":
                return "construct:created-file-is-not-a-current-library", ("magic",), ntr

        def verify(hh, stg, before=None):
            want = set(stored) | (before or set())
            if set(hh.keys()) != want or len(hh) != len(want):
                return f"{stg}:key-listing-differs"
            for k, (exp, enc_at_put) in stored.items():
                g = snapshot(hh[k])
                if compare(exp, g, fenc):
                    return f"{stg}:object-differs"
            for k in sorted(before or ())[:4]:
                hh[k]  # an old record must decode
            return None

        stage = "same-session"
        with h.writing(timeout=10):
            before = set(h.keys()) if keeps_old else set()
            if keeps_old and not before:
                return "same-session:key-listing-differs", ("old",), ntr
            if not keeps_old and h.keys():
                return "same-session:key-listing-differs", ("notempty",), ntr
            if pre in ("v2-library", "v1-library") and keeps_old:
                g = snapshot(h["old"])
                if compare(snapshot(old), g, fenc):
                    return "same-session:object-differs", ("oldobj",), ntr
            for n, o in enumerate(news):
                h[f"new{n}"] = o
                stored[f"new{n}"] = (snapshot(o), fenc)
                ntr += 1
            r = verify(h, stage, before)
            if r:
                return r, ("same",), ntr
        stage = "new-session"
        with h.reading(timeout=10):
            r = verify(h, stage, before)
        if r:
            return r, ("new",), ntr
        stage = "fresh-handle"
        h2 = libs.open(lib, path, readonly=True)
        with h2.reading(timeout=10):
            r = verify(h2, stage, before)
        if r:
            return r, ("fresh",), ntr
        stage = "fresh-writable-handle"
        h3 = libs.open(lib, path, readonly=False)
        with h3.writing(timeout=10):
            r = verify(h3, stage, before)
        if r:
            return r, ("freshw",), ntr
        return None, ("ok", fenc, len(before)), ntr + 8
    except HarnessError:
        raise
    except Exception as e:
        return f"{stage}:raised", ("exc", stage, type(e).__name__), ntr
    finally:
        libs.done()


def eval_origin(ctx, A, oc, seed, libs=None, failed_base=None):
    libs = libs or Libs(ctx.scratch)
    sym, out, ntr = _origin_one(libs, A, oc, seed)
    # header options (h1, comment) are varied on top of every (pre-state, overwrite) combination: when
    # the combination already fails without them, the variants are the same finding
    base = (oc["lib"], oc["pre"], oc["overwrite"], oc["readonly"])
    if failed_base is not None and sym:
        if failed_base.get((base, None)) == sym and (oc["h1"] or oc["comment"]):
            sym = None
        elif oc["comment"] and failed_base.get((base, oc["h1"])) == sym:
            sym = None
        elif not oc["comment"]:
            failed_base[(base, oc["h1"])] = sym
    ctx.count(evaluations=1, states=1, transitions=ntr, traces=1)
    ctx.outcome(("origin", out))
    ctx.nontrivial(("origin", oc["lib"], oc["pre"], oc["overwrite"], oc["h1"], oc["comment"], oc["readonly"]))
    if sym:
        opts = "+".join([x for x, on in (("overwrite", oc["overwrite"]), ("h1", oc["h1"]), ("comment", oc["comment"]), ("readonly-first", oc["readonly"])) if on]) or "default"
        ctx.violation(
            f"origin|{oc['lib']}|pre={oc['pre']}|{opts}|{sym}",
            f"path state {oc['pre']}, library constructed with {opts}, two objects with attrib / formal charges stored and read back (same session, new session, fresh handles): {sym}",
            dict(oc, mode="origin"),
            repro=origin_repro(oc),
        )


def origin_repro(oc):
    cls = "MoleculeLibrary" if oc["lib"] == "mlib" else "ConformerLibrary"
    mk = "ml.Molecule(['C', 'H'], name='obj')" if oc["lib"] == "mlib" else "ml.ConformerEnsemble(['C', 'H'], n_conformers=2, name='obj')"
    L = ["import os, shutil, molli as ml", "from molli.storage.ukvfile import UKVFile", f"p = '/tmp/c01_origin.{oc['lib']}'", "if os.path.exists(p): os.unlink(p)", f"def mk(): o = {mk}; o.coords = 1.0; o.attrib = {{'a': 1}}; o.atoms[0].formal_charge = 1; return o"]
    pre = oc["pre"]
    if pre == "empty-file":
        L.append("open(p, 'wb').close()")
    elif pre == "garbage-file":
        L.append("open(p, 'wb').write(b'this is not a molli library' * 7)")
    elif pre in ("v2-library", "v1-library"):
        if pre == "v1-library":
            L.append("UKVFile(p, mode='x', h1=b'ML10Library').close()    # a legacy (v1) library")
        L.append(f"old = ml.{cls}(p, readonly=False)")
        L.append("with old.writing(): old['old'] = mk()")
    elif pre == "bundled-v1-library":
        L.append("shutil.copy(os.path.join(os.path.dirname(ml.__file__), 'files', 'fletcher_phosphoramidite_cats.mlib'), p)")
    kw = "".join([", overwrite=True" if oc["overwrite"] else "", ", h1=b'MyOwnLibrary'" if oc["h1"] else "", ", comment='a comment'" if oc["comment"] else ""])
    L += [f"lib = ml.{cls}(p, readonly=False{kw})", "with lib.writing():", "    lib['new'] = mk()", "    r = lib['new']; print('same session :', r.attrib, r.atoms[0].formal_charge)", f"new = ml.{cls}(p)", "with new.reading():", "    r = new['new']; print('fresh handle :', r.attrib, r.atoms[0].formal_charge)   # expected {'a': 1} 1", "print(open(p, 'rb').read(12))"]
    return "\n".join(L)


# -------------------------------------------------------------------------------------------------
# ownership at write time: the stored object's Atom objects are ALSO atoms of another container
# (created later without copying / adopted through add_atom or append_bond), alive or already
# garbage-collected when the object is stored
# -------------------------------------------------------------------------------------------------
OWN_WRAP = ["Promolecule", "Connectivity", "Molecule", "add_atom", "append_bond"]
OWN_SUBSET = ["all", "all-reversed", "last-two-reversed", "first-only"]


def gen_own_cases(thorough):
    out = []
    for kind, shape in (("mol", [3, 2, 1]), ("ens", [3, 2, 2]), ("conf", [3, 2, 2])):
        for life in ("alive", "collected"):
            for wrap in OWN_WRAP:
                for sub in OWN_SUBSET:
                    if wrap in ("add_atom", "append_bond") and sub in ("all", "first-only"):
                        continue
                    out.append({"kind": kind, "shape": shape, "over": {"bond.label": "C1", "atom.label": "space"}, "wrap": wrap, "subset": sub, "life": life})
    return out


def _wrap_atoms(obj, wrap, subset):
    """make (a subset of) obj's atoms atoms of a second container, without copying; returns it"""
    from molli.chem import Promolecule, Connectivity

    atoms = list(obj.atoms)
    sel = {"all": atoms, "all-reversed": atoms[::-1], "last-two-reversed": atoms[-2:][::-1], "first-only": atoms[:1]}[subset]
    if wrap == "Promolecule":
        return Promolecule(list(sel))
    if wrap == "Connectivity":
        return Connectivity(list(sel))
    if wrap == "Molecule":
        return Molecule(list(sel))
    other = Molecule([Atom("N"), Atom("N")])
    other.coords = 0.0
    if wrap == "add_atom":
        for a in sel:
            other.add_atom(a, [0.0, 0.0, 0.0])
        return other
    if wrap == "append_bond":
        cn = Connectivity([Atom("N"), Atom("N")])
        cn.append_bond(Bond(sel[0], sel[1] if len(sel) > 1 else cn.atoms[0]))
        return cn
    raise HarnessError(wrap)


def eval_own(ctx, A, oc, seed, libs=None):
    import gc as _gc

    libs = libs or Libs(ctx.scratch)
    case = {"kind": oc["kind"], "shape": oc["shape"], "over": oc["over"]}
    lib = LIB_OF[oc["kind"]]
    obj = build(A, oc["kind"], tuple(oc["shape"]), oc["over"], seed)
    try:
        other = _wrap_atoms(obj, oc["wrap"], oc["subset"])
    except Exception as ex:
        raise HarnessError(f"cannot wrap atoms for {oc}: {type(ex).__name__}: {ex}")
    if oc["life"] == "collected":
        del other
        _gc.collect()
    exp = snapshot(obj)  # by list position - after the atoms changed hands
    res = {enc: roundtrip_batch(libs, lib, enc, [obj])[0] for enc in ("v2", "v1")}
    sigs, outs, fails = classify(case, lib, exp, res)
    ctx.count(evaluations=2, states=1, transitions=4, traces=2)
    ctx.outcome(("own", outs))
    ctx.nontrivial(("own", oc["kind"], oc["wrap"], oc["subset"], oc["life"]))
    for sig, enc, symptom in sigs:
        ctx.violation(
            f"ownership[other-container-{oc['life']}]|{sig}",
            f"{oc['kind']}: before it was stored its atoms ({oc['subset']}) were also made atoms of a second container ({oc['wrap']}, {oc['life']} at write time): {symptom} ({enc})",
            dict(oc, mode="ownership", enc=enc),
            repro=own_repro(oc, lib),
        )


def own_repro(oc, lib):
    cls = "MoleculeLibrary" if lib == "mlib" else "ConformerLibrary"
    mk = "ml.Molecule(atoms)" if oc["kind"] == "mol" else "ml.ConformerEnsemble(atoms, n_conformers=2)"
    sel = {"all": "list(obj.atoms)", "all-reversed": "list(obj.atoms)[::-1]", "last-two-reversed": "list(obj.atoms)[-2:][::-1]", "first-only": "list(obj.atoms)[:1]"}[oc["subset"]]
    w = {
        "Promolecule": f"other = ml.chem.Promolecule({sel})",
        "Connectivity": f"other = ml.chem.Connectivity({sel})",
        "Molecule": f"other = ml.Molecule({sel})",
        "add_atom": f"other = ml.Molecule(['N', 'N']); [other.add_atom(a, [0, 0, 0]) for a in {sel}]",
        "append_bond": f"other = ml.chem.Connectivity(['N', 'N']); sel = {sel}; other.append_bond(Bond(sel[0], sel[1]))",
    }[oc["wrap"]]
    L = ["import os, gc, molli as ml", "from molli.chem import Atom, Bond", "atoms = [Atom('C'), Atom('H'), Atom('O')]", f"obj = {mk}; obj.coords = 0.0", "obj.append_bond(Bond(atoms[0], atoms[1], label='C1')); obj.append_bond(Bond(atoms[1], atoms[2]))", w + "      # the same Atom objects, not copies"]
    if oc["life"] == "collected":
        L.append("del other; gc.collect()")
    if oc["kind"] == "conf":
        L.append("obj = obj[1]      # a Conformer view")
    L += [f"p = '/tmp/c01_own.{lib}'", "if os.path.exists(p): os.unlink(p)", f"lib = ml.{cls}(p, readonly=False)", "with lib.writing(): lib['k'] = obj", "with lib.reading(): r = lib['k']", "print([(obj.atoms.index(b.a1), obj.atoms.index(b.a2)) for b in obj.bonds], '->', [(r.atoms.index(b.a1), r.atoms.index(b.a2)) for b in r.bonds])"]
    return "\n".join(L)


# -------------------------------------------------------------------------------------------------
# the file is replaced under a long-lived handle: handle A has had a session; another handle
# re-creates the library; A's next session must show the CURRENT file
# -------------------------------------------------------------------------------------------------
def gen_replace_cases(thorough):
    out = []
    for lib in ("mlib", "clib"):
        for enc in ("v2", "v1") if thorough else ("v2",):
            for sizes in ("equal", "different"):
                for k in (2, 3):
                    for delta in (-1, 0, 1):
                        for first in ("reading", "writing"):
                            for nxt in ("reading", "writing"):
                                for how in ("overwrite", "unlink+create"):
                                    out.append({"lib": lib, "enc": enc, "sizes": sizes, "k": k, "delta": delta, "first": first, "next": nxt, "how": how})
    return out


def _replace_one(libs, A, rc, seed):
    """-> (symptom or None, judged?, outcome, transitions)"""
    lib, enc, k = rc["lib"], rc["enc"], rc["k"]
    # a fixed pool (not rotated by the seed): whether the re-created file is longer or shorter in
    # bytes is part of the input class
    objs, confs = _gen_objects(A, {"lib": lib, "sizes": rc["sizes"]}, 0)
    exps = [snapshot(o) for o in objs]
    path = libs.new_path(lib, enc)
    ntr = 0
    judged = True
    rc["_bytes"] = "?"
    try:
        # the first life of the file: k records, written by A itself or before A exists
        hA = libs.open(lib, path, readonly=False)
        check_version(hA, enc)
        if rc["first"] == "writing":
            with hA.writing(timeout=10):
                for j in range(k):
                    hA[f"key{j}"] = objs[j]
        else:
            h0 = libs.open(lib, path, readonly=False)
            with h0.writing(timeout=10):
                for j in range(k):
                    h0[f"key{j}"] = objs[j]
            with hA.reading(timeout=10):
                for j in range(k):
                    hA[f"key{j}"]
        ntr += k
        size_before = path.stat().st_size
        # the second life: another handle re-creates the library; keys in another order, every key
        # now holds ANOTHER object
        n2 = k + rc["delta"]
        if rc["how"] == "unlink+create":
            path.unlink()
            if enc == "v1":
                UKVFile(path, mode="x", h1=b"ML10Library").close()
            hB = libs.open(lib, path, readonly=False)
        else:
            if enc == "v1":
                # overwrite=True creates a current library; a legacy one is re-created by hand
                path.unlink()
                UKVFile(path, mode="x", h1=b"ML10Library").close()
                hB = libs.open(lib, path, readonly=False)
            else:
                hB = libs.open(lib, path, readonly=False, overwrite=True)
        check_version(hB, enc)
        current = {}
        with hB.writing(timeout=10):
            for p_ in range(n2):
                key = f"key{(p_ + 1) % n2}"
                j = (p_ + 2) % 4
                hB[key] = objs[j]
                current[key] = j
                ntr += 1
        size_after = path.stat().st_size
        rc["_bytes"] = "file-grew" if size_after > size_before else ("file-shrank" if size_after < size_before else "same-size")
        if size_after == size_before:
            judged = False  # the tree's own shortcut (same size => same file) is not judged here
        # A's next session
        cm = hA.reading(timeout=10) if rc["next"] == "reading" else hA.writing(timeout=10)
        with cm:
            ks = sorted(hA.keys())
            if ks != sorted(current) or len(hA) != len(current):
                return "old-handle-does-not-show-the-current-file", judged, ("keys",), ntr
            for key in ks:
                ntr += 1
                try:
                    g = snapshot(hA[key])
                except Exception:
                    return "old-handle-does-not-show-the-current-file", judged, ("exc",), ntr
                if compare(exps[current[key]], g, enc, conf_source=confs[current[key]]):
                    return "old-handle-does-not-show-the-current-file", judged, ("obj",), ntr
        return None, judged, ("ok", len(current)), ntr
    except HarnessError:
        raise
    except Exception as e:
        return "raised", judged, ("exc", type(e).__name__), ntr
    finally:
        libs.done()


def eval_replace(ctx, A, rc, seed, libs=None):
    libs = libs or Libs(ctx.scratch)
    sym, judged, out, ntr = _replace_one(libs, A, rc, seed)
    ctx.count(evaluations=1, states=1, transitions=ntr, traces=1)
    ctx.outcome(("replace", out))
    ctx.nontrivial(("replace",) + tuple(sorted((k_, v) for k_, v in rc.items() if k_ != "_bytes")))
    if not judged:
        ctx.add_note("recreated-with-identical-size_(not_judged)")
        if sym:
            ctx.add_note("recreated-with-identical-size_(not_judged)_stale")
        return
    rc = {k_: v for k_, v in rc.items() if k_ != "_bytes"} | {"bytes": rc.get("_bytes")}
    if sym:
        ctx.violation(
            f"replaced|{rc['lib']}|enc={rc['enc']}|records-of-{rc['sizes']}-size|{rc['bytes']}|{sym}",
            f"handle A had a {rc['first']} session on a library of {rc['k']} records; another handle re-created the file ({rc['how']}) with {rc['k'] + rc['delta']} records, keys in another order; A's next {rc['next']} session: {sym}",
            dict(rc, mode="replace"),
            repro=replace_repro(rc),
        )


def replace_repro(rc):
    cls = "MoleculeLibrary" if rc["lib"] == "mlib" else "ConformerLibrary"
    mk = "ml.Molecule(['C', 'H'], name=f'obj{n}')" if rc["lib"] == "mlib" else "ml.ConformerEnsemble(['C', 'H'], n_conformers=2, name=f'obj{n}')"
    k, n2 = rc["k"], rc["k"] + rc["delta"]
    L = ["import os, molli as ml", f"p = '/tmp/c01_replaced.{rc['lib']}'", "if os.path.exists(p): os.unlink(p)", f"def mk(n): return {mk}     # records of identical encoded size", f"A = ml.{cls}(p, readonly=False)"]
    if rc["first"] == "writing":
        L += ["with A.writing():", f"    for j in range({k}): A[f'key{{j}}'] = mk(j)"]
    else:
        L += [f"setup = ml.{cls}(p, readonly=False)", "with setup.writing():", f"    for j in range({k}): setup[f'key{{j}}'] = mk(j)", "with A.reading(): print(sorted((k, A[k].name) for k in A.keys()))    # A's first session"]
    if rc["how"] == "unlink+create":
        L += ["os.unlink(p)", f"B = ml.{cls}(p, readonly=False)"]
    else:
        L.append(f"B = ml.{cls}(p, readonly=False, overwrite=True)")
    L += ["with B.writing():", f"    for q in range({n2}): B[f'key{{(q + 1) % {n2}}}'] = mk((q + 2) % 4)", f"with A.{rc['next']}():", "    print(sorted((k, A[k].name) for k in A.keys()))", f"C = ml.{cls}(p)", "with C.reading(): print(sorted((k, C[k].name) for k in C.keys()))   # the two lines must agree"]
    return "\n".join(L)


# -------------------------------------------------------------------------------------------------
# several libraries (different paths) written at the same time in one process: every library holds
# exactly what was stored in IT
# -------------------------------------------------------------------------------------------------
MULTI_BUFS = {"default": None, "small": 300, "large": 1_000_000, "mixed": "mixed"}


def _interleavings(counts):
    """all orderings of counts[i] puts of library i"""
    out = []

    def rec(cur, left):
        if not any(left):
            out.append(list(cur))
            return
        for i, n in enumerate(left):
            if n:
                left[i] -= 1
                rec(cur + [i], left)
                left[i] += 1

    rec([], list(counts))
    return out


def gen_multi_cases(thorough):
    out = []
    pairs = [["mlib", "mlib"], ["mlib", "clib"], ["clib", "clib"]]
    for types in pairs:
        for buf in MULTI_BUFS:
            for counts in ([2, 2], [2, 3], [3, 3]) if thorough else ([2, 2], [3, 3]):
                for order in _interleavings(counts):
                    for enter in ([0, 1], [1, 0]):
                        for keys in ("distinct", "same"):
                            out.append({"types": types, "buf": buf, "order": order, "enter": enter, "keys": keys, "how": "sessions-open-together", "encs": ["v2", "v2"]})
            for order in _interleavings([2, 2]):
                out.append({"types": types, "buf": buf, "order": order, "enter": [0, 1], "keys": "same", "how": "session-per-put", "encs": ["v2", "v2"]})
                out.append({"types": types, "buf": buf, "order": order, "enter": [0, 1], "keys": "distinct", "how": "sessions-open-together", "encs": ["v1", "v2"]})
    for buf in MULTI_BUFS:
        for order in _interleavings([2, 2, 2] if not thorough else [2, 2, 3]):
            out.append({"types": ["mlib", "mlib", "clib"], "buf": buf, "order": order, "enter": [0, 1, 2], "keys": "same", "how": "sessions-open-together", "encs": ["v2", "v2", "v2"]})
        for lib in ("mlib", "clib"):
            out.append({"types": [lib, lib], "buf": buf, "order": [0, 1, 0], "enter": [0], "keys": "distinct", "how": "handle-recreated-on-the-same-path", "encs": ["v2", "v2"]})
    if thorough:
        for c in list(out):
            if c["how"] == "sessions-open-together" and c["encs"] == ["v2", "v2"] and len(c["order"]) <= 5:
                out.append(dict(c, encs=["v1", "v1"]))
    out.sort(key=lambda c: (len(c["order"]), len(c["types"])))
    return out


def _multi_one(libs, A, mc, seed):
    """-> (symptom or None, outcome, transitions)"""
    from contextlib import ExitStack

    types, order, how = mc["types"], mc["order"], mc["how"]
    recreate = how == "handle-recreated-on-the-same-path"
    nlib = 1 if recreate else len(types)
    bufs = []
    for i in range(len(types)):
        b = MULTI_BUFS[mc["buf"]]
        if b == "mixed":
            b = 1_000_000 if i == 0 else None
        bufs.append({} if b is None else {"bufsize": b})
    paths = []
    for i in range(nlib):
        pth = libs.dir / f"multi{i}_{mc['encs'][i]}.{types[i]}"
        if pth.exists():
            pth.unlink()
        if mc["encs"][i] == "v1":
            UKVFile(pth, mode="x", h1=b"ML10Library").close()
        paths.append(pth)
    # what goes where
    nput = [0] * len(types)
    plan = []  # (handle index, library index, key, object, snapshot, conf?)
    stored = [dict() for _ in range(nlib)]
    for n, i in enumerate(order):
        li = 0 if recreate else i
        pool = ILV_POOL[types[i]]
        spec = pool[(nput[i] + seed + (i if recreate else 0) * 2) % len(pool)]
        key = f"k{nput[i]}" if (mc["keys"] == "same" and not recreate) else f"lib{i}_k{nput[i]}"
        nput[i] += 1
        o = build(A, spec["kind"], tuple(spec["shape"]), spec["over"], seed, tag=f"#L{i}#{n}")
        plan.append((i, li, key, o))
        stored[li][key] = (snapshot(o), spec["kind"] == "conf")
    ntr = 0
    stage = "open"
    try:
        # every handle exists before any of them is used
        hs = [libs.open(types[i], paths[0 if recreate else i], readonly=False, **bufs[i]) for i in range(len(types))]
        for i, h in enumerate(hs):
            check_version(h, mc["encs"][0 if recreate else i])
        if how == "sessions-open-together":
            with ExitStack() as stack:
                stage = "session-enter"
                for i in mc["enter"]:
                    stack.enter_context(hs[i].writing(timeout=10))
                stage = "put"
                for i, li, key, o in plan:
                    hs[i][key] = o
                    ntr += 1
                stage = "session-exit"
        else:
            for i, li, key, o in plan:
                stage = "session-enter"
                with hs[i].writing(timeout=10):
                    stage = "put"
                    hs[i][key] = o
                    ntr += 1
                    stage = "session-exit"
        stage = "readback"
        outs = []
        for li in range(nlib):
            hr = libs.open(types[li], paths[li], readonly=True)
            with hr.reading(timeout=10):
                ks = sorted(hr.keys())
                if ks != sorted(stored[li]) or len(hr) != len(stored[li]):
                    return "key-listing-differs", ("keys", li), ntr
                for k in ks:
                    g = snapshot(hr[k])
                    ntr += 1
                    outs.append((li, k))
                    if compare(stored[li][k][0], g, mc["encs"][li], conf_source=stored[li][k][1]):
                        return "record-corrupted", ("obj", li), ntr
        return None, ("ok", tuple(outs)), ntr
    except HarnessError:
        raise
    except Exception as e:
        sym = {"open": "open-raised", "session-enter": "session-enter-raised", "put": "put-raised", "session-exit": "session-exit-raised"}.get(stage, "record-corrupted")
        return sym, ("exc", stage), ntr
    finally:
        libs.done()


def eval_multi(ctx, A, mc, seed, libs=None):
    libs = libs or Libs(ctx.scratch)
    sym, out, ntr = _multi_one(libs, A, mc, seed)
    ctx.count(evaluations=1, states=1, transitions=ntr, traces=1)
    ctx.outcome(("multi", out))
    ctx.nontrivial(("multi", "+".join(mc["types"]), mc["buf"], tuple(mc["order"]), tuple(mc["enter"]), mc["keys"], mc["how"], tuple(mc["encs"])))
    if sym:
        # which of put / session exit / key listing / record shows the damage depends on the record
        # sizes relative to the buffer: one symptom class
        ctx.violation(
            f"multilib|{'+'.join(mc['types'])}|buf={mc['buf']}|{mc['how']}|library-does-not-hold-what-was-stored-in-it",
            f"{len(mc['types'])} library objects ({mc['how']}, encodings {mc['encs']}), puts in library order {mc['order']}, sessions entered in order {mc['enter']}, keys {mc['keys']}, bufsize {mc['buf']}: {sym}",
            dict(mc, mode="multilib"),
            repro=multi_repro(mc),
        )


def multi_repro(mc):
    cls = {"mlib": "MoleculeLibrary", "clib": "ConformerLibrary"}
    mk = {"mlib": "ml.Molecule(['C'] * (n + 1), name=f'{tag}{n}')", "clib": "ml.ConformerEnsemble(['C'] * (n + 1), n_conformers=2, name=f'{tag}{n}')"}
    b = MULTI_BUFS[mc["buf"]]
    L = ["import os, molli as ml"]
    n = len(mc["types"])
    for i, t in enumerate(mc["types"]):
        kw = "" if b is None or (b == "mixed" and i) else f", bufsize={1_000_000 if b == 'mixed' else b}"
        pth = f"/tmp/c01_multi{0 if mc['how'].startswith('handle') else i}.{t}"
        L.append(f"p{i} = '{pth}'")
        if not (mc["how"].startswith("handle") and i):
            L.append(f"if os.path.exists(p{i}): os.unlink(p{i})")
        L.append(f"lib{i} = ml.{cls[t]}(p{i}, readonly=False{kw})")
        L.append(f"def mk{i}(n, tag='lib{i}_'): return {mk[t]}")
    cnt = [0] * n
    if mc["how"] == "sessions-open-together":
        L.append("with " + ", ".join(f"lib{i}.writing()" for i in mc["enter"]) + ":")
        for i in mc["order"]:
            L.append(f"    lib{i}['k{cnt[i]}'] = mk{i}({cnt[i]})")
            cnt[i] += 1
    else:
        for i in mc["order"]:
            L.append(f"with lib{i}.writing(): lib{i}['lib{i}_k{cnt[i]}'] = mk{i}({cnt[i]})")
            cnt[i] += 1
    for i, t in enumerate(mc["types"]):
        if mc["how"].startswith("handle") and i:
            continue
        L.append(f"new = ml.{cls[t]}(p{i})")
        L.append(f"with new.reading(): print('library {i}:', sorted((k, new[k].name) for k in new.keys()))   # expected: only what was stored in library {i}")
    return "\n".join(L)


# -------------------------------------------------------------------------------------------------
# a pass over items() / values() / keys() advanced one next() at a time, with other reads (and, in a
# writing session, a put) of the same handle between two next() calls: every (key, object) handed
# out is the object stored under that key
# -------------------------------------------------------------------------------------------------
GEN_DISTURB = ["G0", "G1", "G2", "Q", "NF", "N1", "V1", "P"]


def gen_gen_cases(thorough):
    out = []
    dis = [None] + (GEN_DISTURB if thorough else [x for x in GEN_DISTURB if x != "G1"])
    for lib in ("mlib", "clib"):
        for enc in ("v2", "v1") if thorough else ("v2",):
            for sizes in ("equal", "different"):
                for session in ("reading", "writing"):
                    for kind in ("items", "values", "keys"):
                        for d in itertools.product(dis, repeat=3):
                            if "P" in d and session != "writing":
                                continue
                            if d.count("P") > 1:
                                continue
                            nd = sum(1 for x in d if x)
                            if not thorough and nd > (1 if kind == "keys" else 2):
                                continue
                            out.append({"lib": lib, "enc": enc, "sizes": sizes, "session": session, "kind": kind, "d": list(d)})
    out.sort(key=lambda c: sum(1 for x in c["d"] if x))
    return out


def _gen_objects(A, gc, seed):
    lib = gc["lib"]
    if gc["sizes"] == "different":
        pool = ILV_POOL[lib]
        specs = [pool[(i + seed) % len(pool)] for i in range(4)]
        objs = [build(A, s["kind"], tuple(s["shape"]), s["over"], seed) for s in specs]
        return objs, [s["kind"] == "conf" for s in specs]
    # records of exactly the same serialized size: same shape, names of equal length, other numbers
    kind = "mol" if lib == "mlib" else "ens"
    objs = []
    for i in range(4):
        o = build(A, kind, (2, 1, 1) if kind == "mol" else (2, 1, 2), {"atom.label": "C1"}, seed)
        o.name = f"eq{i}"
        o.coords[..., 0] = 1.5 + i
        objs.append(o)
    return objs, [False] * 4


def _gen_one(libs, A, gc, seed):
    """-> (symptom or None, disturbance class, outcome, transitions)"""
    lib, enc, kind = gc["lib"], gc["enc"], gc["kind"]
    objs, confs = _gen_objects(A, gc, seed)
    exps = [snapshot(o) for o in objs]
    path = libs.new_path(lib, enc)
    ntr = 0
    done_dist = []
    stored = {}

    def which(got):
        g = snapshot(got)
        for j in sorted(stored.values()):
            if not compare(exps[j], g, enc, conf_source=confs[j]):
                return j
        return None

    def good_pair(k, v):
        return k in stored and not compare(exps[stored[k]], snapshot(v), enc, conf_source=confs[stored[k]])

    cls = lambda: ("get" if any(x[0] == "G" for x in done_dist) else "nested-pass" if any(x in ("NF", "N1", "V1") for x in done_dist) else "put" if "P" in done_dist else "probe" if "Q" in done_dist else "nothing")
    try:
        h0 = libs.open(lib, path, readonly=False)
        check_version(h0, enc)
        with h0.writing(timeout=10):
            for j in range(3):
                h0[f"key{j}"] = objs[j]
                stored[f"key{j}"] = j
        hs = libs.open(lib, path, readonly=(gc["session"] == "reading"))
        cm = hs.reading(timeout=10) if gc["session"] == "reading" else hs.writing(timeout=10)
        put_done = False
        with cm:
            g0 = hs.items() if kind == "items" else (hs.values() if kind == "values" else iter(hs))
            nested = {"N1": {"gen": None, "dead": False, "before_put": False}, "V1": {"gen": None, "dead": False, "before_put": False}}
            seen_keys, seen_objs = [], []
            ended = False
            for gap in range(3):
                d = gc["d"][gap]
                if d:
                    done_dist.append(d)
                    ntr += 1
                    if d[0] == "G":
                        if not good_pair(f"key{d[1]}", hs[f"key{d[1]}"]):
                            return "get-during-pass:wrong-object", cls(), ("g",), ntr
                    elif d == "Q":
                        if sorted(hs.keys()) != sorted(stored) or len(hs) != len(stored) or ("key0" in hs) is not True or ("nokey" in hs) is not False:
                            return "probe-during-pass:key-listing-differs", cls(), ("q",), ntr
                    elif d == "NF":
                        inner = dict(hs.items())
                        if sorted(inner) != sorted(stored) or not all(good_pair(k, v) for k, v in inner.items()):
                            return "nested-pass:wrong-pair", cls(), ("nf",), ntr
                    elif d in ("N1", "V1"):
                        # a second pass; like the main one it may legitimately end with RuntimeError
                        # when a record was inserted after it had been started
                        slot = nested[d]
                        if slot["dead"]:
                            pass
                        else:
                            if slot["gen"] is None:
                                slot["gen"] = hs.items() if d == "N1" else hs.values()
                                slot["before_put"] = not put_done
                            try:
                                item = next(slot["gen"])
                            except RuntimeError:
                                if put_done and slot["before_put"]:
                                    slot["dead"] = True
                                    item = None
                                else:
                                    raise
                            if item is not None:
                                good = good_pair(*item) if d == "N1" else which(item) is not None
                                if not good:
                                    return "nested-pass:wrong-pair", cls(), (d,), ntr
                    elif d == "P":
                        hs["key3"] = objs[3]
                        stored["key3"] = 3
                        put_done = True
                if ended:
                    continue
                ntr += 1
                try:
                    item = next(g0)
                except StopIteration:
                    return "pass-incomplete", cls(), ("stop", gap), ntr
                except RuntimeError:
                    if put_done:
                        ended = True  # like a dict: a pass does not survive an insertion (established on the repaired tree)
                        continue
                    raise
                if kind == "items":
                    k, v = item
                    if not good_pair(k, v) or k in seen_keys:
                        return "wrong-pair", cls(), ("pair", gap), ntr
                    seen_keys.append(k)
                elif kind == "values":
                    j = which(item)
                    if j is None or j in seen_objs:
                        return "wrong-pair", cls(), ("value", gap), ntr
                    seen_objs.append(j)
                else:
                    if item not in stored or item in seen_keys:
                        return "wrong-pair", cls(), ("key", gap), ntr
                    seen_keys.append(item)
            if not ended and not put_done:
                try:
                    extra = next(g0)
                except StopIteration:
                    extra = None
                if extra is not None:
                    return "pass-incomplete", cls(), ("extra",), ntr
        # everything (also a record put during the pass) reads back through a fresh handle
        hr = libs.open(lib, path, readonly=True)
        with hr.reading(timeout=10):
            if sorted(hr.keys()) != sorted(stored):
                return "readback:key-listing-differs", cls(), ("rk",), ntr
            for k in sorted(stored):
                ntr += 1
                if not good_pair(k, hr[k]):
                    return "readback:record-corrupted", cls(), ("ro",), ntr
        return None, cls(), ("ok", tuple(seen_keys), tuple(seen_objs)), ntr
    except HarnessError:
        raise
    except Exception as e:
        # a pass that walks into the wrong bytes yields another record or fails to decode, depending
        # on the record sizes: one symptom class for both
        return "wrong-pair", cls(), ("exc", type(e).__name__), ntr
    finally:
        libs.done()


def eval_gen(ctx, A, gc, seed, libs=None):
    libs = libs or Libs(ctx.scratch)
    sym, dcls, out, ntr = _gen_one(libs, A, gc, seed)
    ctx.count(evaluations=1, states=1, transitions=ntr, traces=1)
    ctx.outcome(("gen", gc["kind"], out))
    if any(gc["d"]):
        ctx.nontrivial(("gen", gc["lib"], gc["enc"], gc["sizes"], gc["session"], gc["kind"], tuple(gc["d"])))
    if sym:
        ctx.violation(
            f"pass|{gc['lib']}|enc={gc['enc']}|{gc['kind']}()-pass|disturbed-by-{dcls}|{sym}",
            f"{gc['session']} session, records of {gc['sizes']} size, a {gc['kind']}() pass advanced one next() at a time with {gc['d']} before the 1st/2nd/3rd next (Gj = get key j, Q = keys/len/in, NF = a nested full items() pass, N1/V1 = one next of a second items()/values() pass, P = put): {sym}",
            dict(gc, mode="pass"),
            repro=gen_repro(gc),
        )


def gen_repro(gc):
    cls = "MoleculeLibrary" if gc["lib"] == "mlib" else "ConformerLibrary"
    mk = "ml.Molecule(['C', 'H'], name=f'obj{n}')" if gc["lib"] == "mlib" else "ml.ConformerEnsemble(['C', 'H'], n_conformers=2, name=f'obj{n}')"
    return "\n".join(
        [
            "import os, molli as ml",
            f"p = '/tmp/c01_pass.{gc['lib']}'",
            "if os.path.exists(p): os.unlink(p)",
            f"def mk(n): return {mk}",
            f"lib = ml.{cls}(p, readonly=False)",
            "with lib.writing():",
            "    for n in range(3): lib[f'key{n}'] = mk(n)",
            "with lib.reading():",
            f"    for k, v in lib.items():        # the check does the same for values() / keys(), disturbances {gc['d']}",
            "        other = lib['key0']           # any other read of the same handle inside the loop body",
            "        print(k, v.name)              # expected: key<n> obj<n> for every pair",
        ]
    )


# -------------------------------------------------------------------------------------------------
# repeated retrieval: what is stored reads back equal EVERY time, whatever was done to an object
# retrieved earlier (and whatever is done to the source object after it was stored)
# -------------------------------------------------------------------------------------------------
REGET_OBJS = [
    {"kind": "mol", "shape": [3, 2, 1], "over": dict(_RICH)},
    {"kind": "mol", "shape": [1, 0, 1], "over": {}},
    {"kind": "conf", "shape": [2, 1, 2], "over": {"mol.attrib": "flat", "atom.attrib": "flat", "mol.name": "plain"}},
    {"kind": "ens", "shape": [3, 2, 2], "over": dict(_RICH, **{"weights.val": "-1.5"})},
    {"kind": "ens", "shape": [1, 0, 1], "over": {}},
]
READ_ROUTES = ["same-session", "new-session", "new-handle", "second-key", "second-file", "items"]
WRITE_ROUTES = ["source-mutated-after-put", "reput-after-mutation"]


_UNIQ = 0  # per-process counter: a replayed case never stores the bytes of an earlier execution


def mutate(o, stage):
    """change, in place, everything the property lists (stage 1 and stage 2 write different values)"""
    o.name = f"mutated{stage}"
    o.charge = 7 + stage
    o.mult = 5 + stage
    _mutate_attrib(o.attrib, stage)
    for a in o.atoms:
        a.element = "Xe" if stage == 1 else "Kr"
        a.isotope = 99 + stage
        a.label = f"m{stage}"
        a.atype = AtomType.Dummy if stage == 1 else AtomType.LonePair
        a.stereo = AtomStereo.S if stage == 1 else AtomStereo.Delta
        a.geom = AtomGeom.R6 if stage == 1 else AtomGeom.R5
        a.formal_charge = 5 + stage
        a.formal_spin = 3 + stage
        _mutate_attrib(a.attrib, stage)
    for b in o.bonds:
        b.a1, b.a2 = b.a2, b.a1
        b.label = f"mb{stage}"
        b.btype = BondType.Triple if stage == 1 else BondType.H_Donor
        b.stereo = BondStereo.E if stage == 1 else BondStereo.Axial_S
        b.f_order = 2.5 + stage
        _mutate_attrib(b.attrib, stage)
    o.coords[...] = 90.0 + stage
    o.atomic_charges[...] = 80.0 + stage
    if isinstance(o, ConformerEnsemble):
        o.weights[...] = 70.0 + stage
    if o.n_atoms >= 2:
        o.connect(0, o.n_atoms - 1, label=f"extra{stage}")


def _mutate_attrib(d, stage):
    for v in list(d.values()):
        if isinstance(v, dict):
            _mutate_attrib(v, stage)
        elif isinstance(v, list):
            v.append(f"mut{stage}")
    d[f"mut{stage}"] = stage
    for k in list(d):
        if not k.startswith("mut") and not isinstance(d[k], (dict, list)):
            d[k] = f"overwritten{stage}"


def gen_reget_cases(A, thorough):
    out = []
    for spec in REGET_OBJS:
        for route in READ_ROUTES + ([] if spec["kind"] == "conf" else WRITE_ROUTES):
            out.append({"mode": "reget", "spec": spec, "route": route})
    if thorough:
        for kind, shape in (("mol", [3, 2, 1]), ("ens", [3, 2, 2]), ("conf", [3, 2, 2])):
            for d in A:
                if kind == "mol" and d in ENS_ONLY:
                    continue
                for v in A[d]:
                    if d == "nc" and (kind == "conf" and A[d][v] == 0):
                        continue
                    for route in ("same-session", "new-handle"):
                        out.append({"mode": "reget", "spec": {"kind": kind, "shape": shape, "over": {d: v}}, "route": route})
    for n, c in enumerate(out):
        c["n"] = n
    return out


def _reget_one(libs, A, rc, enc, seed):
    """-> (symptom or None, outcome digest, transitions); None also when the plain first retrieval is
    already wrong (that is the round-trip dimension's finding, not this one's)"""
    spec, route = rc["spec"], rc["route"]
    lib = LIB_OF[spec["kind"]]
    # every case stores a record that no other case stores (a memo keyed by the record's bytes
    # must not let one case contaminate the next); "twin" is a second, byte-identical object
    global _UNIQ
    _UNIQ += 1
    tag = f"#{route}#{enc}#{rc.get('n', 0)}#{_UNIQ}"
    obj = build(A, spec["kind"], tuple(spec["shape"]), spec["over"], seed, tag=tag)
    twin = build(A, spec["kind"], tuple(spec["shape"]), spec["over"], seed, tag=tag)
    exp = snapshot(obj)
    conf = spec["kind"] == "conf"
    path = libs.new_path(lib, enc)
    path2 = libs.new_path(lib, enc)
    ntr = 0
    try:
        hw = libs.open(lib, path, readonly=False)
        check_version(hw, enc)
        with hw.writing(timeout=10):
            hw["k"] = obj
            hw["k2"] = twin
            ntr += 2
        if route == "second-file":
            hw2 = libs.open(lib, path2, readonly=False)
            with hw2.writing(timeout=10):
                hw2["k"] = twin
                ntr += 1
        if route in WRITE_ROUTES:
            mutate(obj, 1)
            exp3 = snapshot(obj)
            if route == "reput-after-mutation":
                with hw.writing(timeout=10):
                    hw["k3"] = obj
                    ntr += 1
            hr = libs.open(lib, path, readonly=True)
            with hr.reading(timeout=10):
                r = hr["k"]
                ntr += 1
                d1 = compare(exp, snapshot(r), enc, conf_source=conf)
                d3 = []
                if route == "reput-after-mutation":
                    r3 = hr["k3"]
                    ntr += 1
                    d3 = compare(exp3, snapshot(r3), enc, conf_source=conf)
            if d1:
                return "stored-record-follows-later-changes-of-the-source-object", ("w", tuple(s for _, s in d1)), ntr
            if d3:
                return "second-put-of-the-changed-object-stores-the-old-state", ("w3", tuple(s for _, s in d3)), ntr
            return None, ("ok",), ntr
        hr = libs.open(lib, path, readonly=True)
        check_version(hr, enc)
        cm = hr.reading(timeout=10)
        cm.__enter__()
        state = {"open": True}

        def close_first():
            if state["open"]:
                state["open"] = False
                cm.__exit__(None, None, None)

        def fetch():
            if route == "same-session":
                return hr["k"]
            if route == "second-key":
                return hr["k2"]
            if route == "items":
                return dict(hr.items())["k"]
            close_first()
            if route == "new-session":
                with hr.reading(timeout=10):
                    return hr["k"]
            h3 = libs.open(lib, path2 if route == "second-file" else path, readonly=True)
            with h3.reading(timeout=10):
                return h3["k"]

        try:
            r1 = hr["k"]
            ntr += 1
            if compare(exp, snapshot(r1), enc, conf_source=conf):
                return None, ("first-get-differs",), ntr
            mutate(r1, 1)
            r2 = fetch()
            ntr += 1
            same = r2 is r1
            d1 = compare(exp, snapshot(r2), enc, conf_source=conf)
            if same or d1:
                return "returns-previously-mutated-object", ("same" if same else "mutated", tuple(s for _, s in d1)), ntr
            mutate(r1, 2)
            d2 = compare(exp, snapshot(r2), enc, conf_source=conf)
            if d2:
                return "shares-mutable-state-with-earlier-retrieval", ("shared", tuple(f for f, _ in d2)), ntr
            # ... and once more: the second retrieval is changed, a third one must still be the original
            keep = digest(snapshot(r2))
            mutate(r2, 1)
            r3 = fetch()
            ntr += 1
            d3 = compare(exp, snapshot(r3), enc, conf_source=conf)
            if r3 is r2 or r3 is r1 or d3:
                return "returns-previously-mutated-object", ("third", tuple(s for _, s in d3)), ntr
            mutate(r2, 2)
            mutate(r1, 1)
            d4 = compare(exp, snapshot(r3), enc, conf_source=conf)
            if d4:
                return "shares-mutable-state-with-earlier-retrieval", ("shared3", tuple(f for f, _ in d4)), ntr
            return None, ("ok", keep), ntr
        finally:
            close_first()
    finally:
        libs.done()


def eval_reget(ctx, A, rc, seed, libs=None):
    libs = libs or Libs(ctx.scratch)
    spec, route = rc["spec"], rc["route"]
    lib = LIB_OF[spec["kind"]]
    src = "conformer-view>" if spec["kind"] == "conf" else ""
    res, outs, ntr = {}, [], 0
    for enc in ("v2", "v1"):
        try:
            sym, out, n = _reget_one(libs, A, rc, enc, seed)
        except HarnessError:
            raise
        except Exception as e:
            sym, out, n = exc_sig(e), ("exc", type(e).__name__), 2
        res[enc] = sym
        outs.append(out)
        ntr += n
    ctx.count(evaluations=2, states=1, transitions=ntr, traces=2)
    ctx.outcome(("reget", route, tuple(outs)))
    ctx.nontrivial(("reget", spec["kind"], tuple(spec["shape"]), tuple(sorted(spec["over"].items())), route))
    if res["v2"] and res["v2"] == res["v1"]:
        todo = [("any", res["v2"])]
    else:
        todo = [(enc, res[enc]) for enc in ("v2", "v1") if res[enc]]
    for enc, sym in todo:
        ctx.violation(
            f"{src}{lib}|enc={enc}|reget[{route}]:{sym}",
            f"{spec['kind']} {tuple(spec['shape'])} {spec['over'] or ''}: stored, retrieved, the retrieved object changed in place, retrieved again ({route}): {sym}",
            dict(rc, enc=enc),
            repro=reget_repro(lib, route),
        )


def reget_repro(lib, route):
    cls = "MoleculeLibrary" if lib == "mlib" else "ConformerLibrary"
    mk = "ml.Molecule(['C', 'H'], name='stored')" if lib == "mlib" else "ml.ConformerEnsemble(['C', 'H'], n_conformers=2, name='stored')"
    return "\n".join(
        [
            "import os, molli as ml",
            f"p = '/tmp/c01_reget.{lib}'",
            "if os.path.exists(p): os.unlink(p)",
            f"obj = {mk}; obj.coords = 1.0",
            f"lib = ml.{cls}(p, readonly=False)",
            "with lib.writing(): lib['k'] = obj; lib['k2'] = obj",
            "with lib.reading():",
            "    r1 = lib['k']",
            "    r1.name = 'mutated'; r1.coords[...] = 99; r1.atoms[0].label = 'mutated'; r1.attrib['x'] = 1",
            f"    r2 = lib['k']          # route {route}: also try lib['k2'], a new session, ml.{cls}(p)",
            "print(r2 is r1, r2.name, r2.coords.max(), r2.atoms[0].label, r2.attrib)   # expected: False stored 1.0 None {}",
        ]
    )


# -------------------------------------------------------------------------------------------------
def repro_code(case, lib, enc):
    A = alphabets(True)
    na, nb, nc = case["shape"]
    over = case["over"]
    if "nc" in over:
        nc = A["nc"][over["nc"]]

    def val(d):
        v = A[d][over[d]]
        import enum

        if isinstance(v, enum.Enum):
            return f"ml.chem.{type(v).__name__}.{v.name}"
        return repr(v).replace("nan", "float('nan')").replace("inf", "float('inf')")

    L = ["import os, numpy as np, molli as ml", "from molli.chem import Atom, Bond", "from molli.storage.ukvfile import UKVFile"]
    L.append("# (written for seed 0: the focus atom / bond is index 0, the focus conformer the last one)")
    el0 = val("atom.element") if "atom.element" in over else "'C'"
    atoms = [f"Atom({el0})"] + [f"Atom('{BASE_EL[j]}')" for j in range(1, na)]
    if case["kind"] == "mol" and case.get("dtype"):
        L.append(f"class MoleculeX(ml.Molecule, coords_dtype=np.dtype('{np.dtype(DTYPE_HOOK[case['dtype']]).str}')): pass    # the documented subclass hook")
        L.append(f"obj = MoleculeX([{', '.join(atoms[:na])}])")
    elif case["kind"] == "mol":
        L.append(f"obj = ml.Molecule([{', '.join(atoms[:na])}])")
        if na:
            L.append(f"obj.coords = np.arange({na * 3}.).reshape({na}, 3); obj.atomic_charges = np.arange({na}.)")
            if "coords.val" in over:
                L.append(f"obj.coords[0, 0] = {val('coords.val')}")
            if "charges.val" in over:
                L.append(f"obj.atomic_charges[0] = {val('charges.val')}")
    else:
        if na:
            L.append(f"obj = ml.ConformerEnsemble([{', '.join(atoms[:na])}], n_conformers={nc})")
        else:
            L.append(f"obj = ml.ConformerEnsemble(n_conformers={nc}, n_atoms=0)")
        L.append(f"obj.coords = np.arange({nc * na * 3}.).reshape({nc}, {na}, 3); obj.atomic_charges = np.arange({nc * na}.).reshape({nc}, {na}); obj.weights = np.arange({nc}.) + 1")
        if nc and na and "coords.val" in over:
            L.append(f"obj.coords[-1, 0, 0] = {val('coords.val')}")
        if nc and na and "charges.val" in over:
            L.append(f"obj.atomic_charges[-1, 0] = {val('charges.val')}")
        if nc and "weights.val" in over:
            L.append(f"obj.weights[-1] = {val('weights.val')}")

    def bval(f, v):
        x = A["bond." + f][v]
        import enum

        return f"ml.chem.{type(x).__name__}.{x.name}" if isinstance(x, enum.Enum) else repr(x)

    if case.get("bonds") is not None:
        for e1, e2, kw in case["bonds"]:
            k = "".join(f", {f}={bval(f, v)}" for f, v in (kw or {}).items())
            L.append(f"obj.append_bond(Bond(obj.atoms[{e1}], obj.atoms[{e2}]{k}))")
    else:
        for b in range(nb):
            e1, e2 = BASE_ENDS[b]
            kw = ""
            if b == 0:
                if "bond.ends" in over:
                    e1, e2 = A["bond.ends"][over["bond.ends"]]
                kw = "".join(f", {d[5:]}={val(d)}" for d in over if d.startswith("bond.") and d != "bond.ends")
            L.append(f"obj.append_bond(Bond(obj.atoms[{e1}], obj.atoms[{e2}]{kw}))")
    for d in over:
        if d.startswith("atom.") and d != "atom.element":
            L.append(f"obj.atoms[0].{d[5:]} = {val(d)}")
    for d in over:
        if d.startswith("mol."):
            L.append(f"obj.{d[4:]} = {val(d)}     # assigned after construction")
    if case.get("dtype") or case.get("assign"):
        L.append("print('stored arrays:', obj.coords.dtype, obj.coords.tolist(), obj.atomic_charges.tolist())")
    L.append("print('stored :', obj.name, obj.charge, obj.mult, obj.n_bonds, [(obj.atoms.index(b.a1), obj.atoms.index(b.a2), b.label) for b in obj.bonds])")
    if case["kind"] == "conf":
        L.append("obj = obj[obj.n_conformers - 1]   # a Conformer view")
    cls = "MoleculeLibrary" if lib == "mlib" else "ConformerLibrary"
    L.append(f"for enc in {['v2', 'v1'] if enc == 'any' else [enc]!r}:")
    L.append(f"    p = '/tmp/c01_repro_' + enc + '.{lib}'")
    L.append("    if os.path.exists(p): os.unlink(p)")
    L.append("    if enc == 'v1': UKVFile(p, mode='x', h1=b'ML10Library').close()   # a legacy (v1) library file")
    L.append(f"    lib = ml.{cls}(p, readonly=False)")
    L.append("    with lib.writing(): lib['k'] = obj")
    L.append("    with lib.reading(): back = lib['k']")
    L.append("    print(enc, 'read back:', back.name, back.charge, back.mult, back.n_bonds, [(back.atoms.index(b.a1), back.atoms.index(b.a2), b.label) for b in back.bonds], back.coords.shape, back.coords.tolist(), back.atomic_charges.tolist())")
    return "\n".join(L)


# =================================================================================================
def _part(ctx, part):
    A = alphabets(ctx.thorough)
    kind, payload = part
    if kind == "cases":
        eval_cases(ctx, A, payload, ctx.seed)
    elif kind == "own":
        libs = Libs(ctx.scratch)
        for oc in payload:
            eval_own(ctx, A, oc, ctx.seed, libs)
    elif kind == "replace":
        libs = Libs(ctx.scratch)
        for rc in payload:
            eval_replace(ctx, A, rc, ctx.seed, libs)
    elif kind == "origin":
        libs = Libs(ctx.scratch)
        failed_base = {}
        for oc in payload:
            eval_origin(ctx, A, oc, ctx.seed, libs, failed_base)
    elif kind == "keys":
        libs = Libs(ctx.scratch)
        for kc in payload:
            eval_key(ctx, A, kc, ctx.seed, libs)
    elif kind == "size":
        for name in payload:
            eval_size(ctx, A, name, ctx.seed)
    elif kind == "multi":
        libs = Libs(ctx.scratch)
        for mc in payload:
            eval_multi(ctx, A, mc, ctx.seed, libs)
    elif kind == "gen":
        libs = Libs(ctx.scratch)
        for gc in payload:
            eval_gen(ctx, A, gc, ctx.seed, libs)
    elif kind == "ilv":
        libs = Libs(ctx.scratch)
        for ic in payload:
            eval_ilv(ctx, A, ic, ctx.seed, libs)
    elif kind == "reget":
        libs = Libs(ctx.scratch)
        for rc in payload:
            eval_reget(ctx, A, rc, ctx.seed, libs)
    else:
        libs = Libs(ctx.scratch)
        for sc in payload:
            eval_seq(ctx, A, sc, ctx.seed, libs)


def run(ctx):
    thorough = ctx.thorough
    A = alphabets(thorough)
    ctx.rule = (
        "bounded-exhaustive small-scope grammar: every field value alone and every pair of values of two different "
        "fields (atom, bond, molecule/ensemble records, coordinates/charges/weights value classes, conformer count), "
        "every shape 0..3 atoms x 0..3 bonds x 0..3 conformers, bond topologies (parallel / reversed / self-loop bonds, every order and direction of 3 bonds), a layer of size classes around and above the format's 2^8 / 2^16 / 2^20 thresholds, Conformer views, every put/read order of 1..3 objects "
        "x handles x sessions, every string of {put, get of any stored key, contains/keys/len} up to length 6 (thorough 7) inside one writing session, 3 write-buffer settings, followed by a full read-back in the same session / a new session / a new handle, 2-3 libraries on different paths written with every interleaving of 2-3 puts each under 4 buffer settings, items()/values()/keys() passes advanced one next() at a time with every choice of disturbance (get, probe, nested pass, put) before each next, get / mutate the retrieved object in place / get again over 6 retrieval routes and 2 write-side routes; each case written to and read from real v2 and v1 MoleculeLibrary/ConformerLibrary files "
        "and compared field by field with a snapshot taken by the harness's own walker; a case is non-trivial when the "
        "object has >= 1 atom and >= 1 field differs from the constructor defaults (or >= 2 objects for sequences)"
    )
    ctx.assumptions += [
        "equality up to the storage format's data model: list == tuple, IntEnum == int, floats (bond f_order, floats inside attrib, coords, charges, weights) equal at float32 precision, NaN == NaN; str/bytes/int/None/bool/dict keys exactly",
        "attribute dictionaries use str keys and native msgpack types only (numpy arrays, integers >= 2**64 and non-str keys are not 'msgpack-able' in the sense of the quantifier)",
        "v1: compared on the fields of the v1 schema (no formal_charge/formal_spin/attrib of atoms, no attrib of bonds and molecules); a v1 library is a UKV file whose h1 header is b'ML10Library'",
        "a Conformer view stored in a MoleculeLibrary reads back as a Molecule with the conformer's fields",
        "the object's own arrays may have any dtype the documented Molecule subclass hook (coords_dtype=) accepts - float32, float64, '>f4', '<f4', float16, '>f8' (an integer dtype cannot be constructed; ConformerEnsemble has no such hook) - and arrays may be handed to the setters in any float dtype, byte order and memory layout (the setters convert to float64): in every case the values read back equal the object's values at single precision",
        "objects are built by assigning record-level and atom fields after construction and by appending explicit Bond objects (never connect()), so that the stored object holds exactly the stated combination; bond sequences are compared in order and direction, including several bonds over one atom pair and a bond from an atom to itself; atoms of an ensemble are given through an atom list (the 0-atom ensemble through n_atoms=0)",
        "when v2 and v1 fail on the same case with the same symptom the violation is reported once with enc=any",
        "an object may be stored while its Atom objects are also atoms of another container (created without copying, alive or already collected): what is stored is the object as its own atom and bond lists describe it",
        "when another handle re-creates a library file (overwrite=True, or delete + create), the next session of a handle that had a session on the old file shows the current file; re-created files whose size equals the old file's size are counted in a note and not judged",
        "a library key is any str of at most 255 utf8 bytes (non-ASCII, blanks, slashes, the empty string - all accepted by the repaired tree); a longer key is rejected and leaves the library unchanged",
        "a library file that molli creates (absent path, or overwrite=True on anything) is a current (v2) library whatever was at the path and whatever header options (h1, comment) are given: everything stored in it reads back with all v2 fields in the same session, a new session and through default-constructed handles; only a file that carries the v1 magic is compared on the v1 schema; opening an empty or garbage file WITHOUT overwrite is not covered",
        "several library objects on different paths may be in writing() at the same time in one process (sessions nest per path), with any write buffer: afterwards each file holds exactly what was stored through its own handle",
        "a pass over items()/values()/keys() may be interleaved with other reads of the same handle; inserting a record during a pass may end that pass with RuntimeError (as for a dict - this is what the repaired tree does) but never hands out a wrong pair, and the record is stored",
        "repeated retrieval: an object read from a library is the caller's own (changing it in place must not change what any later retrieval of the same record returns - same session, new session, new handle, a byte-identical record under another key or in another file, items()); likewise changing the source object after it was stored does not change the stored record, and storing it again stores its new state",
    ]
    cases = gen_field_cases(A, thorough, ctx.seed) + gen_shape_cases(A, thorough)
    seqs = gen_seq_cases()
    regets = gen_reget_cases(A, thorough)
    ilvs = gen_ilv_cases(thorough)
    ctx.bound.update(
        {
            "field_cases": sum(1 for c in cases if not c["tag"].startswith("shape")),
            "shape_cases": sum(1 for c in cases if c["tag"].startswith("shape")),
            "sequence_cases": len(seqs),
            "repeated_retrieval_cases": len(regets),
            "interleaved_session_cases": len(ilvs),
            "interleaved_session_max_length": max(len(c["ops"]) for c in ilvs),
            "repeated_retrieval_routes": READ_ROUTES + WRITE_ROUTES,
            "encodings": ["v2", "v1"],
            "alphabet_sizes": {d: len(v) for d, v in A.items()},
            "max_atoms": 3,
            "max_bonds": 3,
            "max_conformers": 3,
            "t_way": "1-way + 2-way over all dimensions" + ("; 3-way inside the atom record (molecules) and inside the bond record (ensembles); 2-way repeated on a (3,3,2) base; shapes x 1-way" if thorough else ""),
        }
    )
    # a fixed, representative handful is evaluated first, in the master, and written out as samples
    picks, seen_tags = [], set()
    for c in cases:
        t = (c["kind"], c["tag"])
        if t not in seen_tags and c["tag"] in ("defaults", "1-way", "2-way", "shape/parallel", "1-way/conformer") and (c["tag"] == "defaults" or c["over"]):
            if c["tag"] == "2-way" and not ("atom.attrib" in c["over"] and c["over"]["atom.attrib"] == "nested"):
                continue
            seen_tags.add(t)
            picks.append(c)
    picks = picks[:7]
    for c in picks:
        c["sample"] = True
    pk = {id(c) for c in picks}
    eval_cases(ctx, A, picks, ctx.seed)
    cases = [c for c in cases if id(c) not in pk]
    # bond topologies: few, evaluated in the master in a fixed order (deterministic counterexample)
    topo = gen_topology_cases(thorough)
    eval_cases(ctx, A, topo, ctx.seed, minimise=False)
    dts = gen_dtype_cases(A, thorough)
    eval_cases(ctx, A, dts, ctx.seed, minimise=False)
    ctx.bound["array_dtype_cases"] = {"cases": len(dts), "molecule_subclass_dtypes": list(DTYPE_HOOK), "assigned_as": ASSIGN_FORMS, "excluded": "integer coords_dtype (construction fails: NaN fill); ConformerEnsemble has no coords_dtype hook; setters convert to float64"}
    ctx.bound["bond_topology_cases"] = len(topo)
    sizes = list(size_catalog(thorough))
    ctx.bound["size_class_cases"] = sizes
    ctx.sample({"sequence": seqs[len(seqs) // 2]})
    nchunk = 64 if thorough else 16
    # the size layer first: few, big cases, each its own part
    big = [n for n in sizes if any(t in n for t in ("atoms[", "bonds[", "16MiB", "2**24", "16777217"))]
    parts = [("size", [n]) for n in big] + [("size", [n for n in sizes if n not in big])]
    parts += [("cases", cases[i::nchunk]) for i in range(nchunk)]
    parts = [p for p in parts if p[1]]
    # The smallest cases of every sequence-like dimension run FIRST, each dimension as one part (one
    # worker, fixed order); their result is merged before the big fan-out starts, so a defect that
    # shows in a small case is always kept with the same, smallest, counterexample.
    nl = 16 if thorough else 8
    multis = gen_multi_cases(thorough)
    gens = gen_gen_cases(thorough)
    keyc = gen_key_cases(thorough)
    origins = gen_origin_cases(thorough)
    first = [
        ("ilv", [c for c in ilvs if len(c["ops"]) <= 4]),
        ("multi", [c for c in multis if len(c["order"]) <= 4]),
        ("gen", [c for c in gens if sum(1 for x in c["d"] if x) <= 1]),
        ("keys", [c for c in keyc if len(c["keys"]) == 1]),
        ("origin", origins),
        ("own", gen_own_cases(thorough)),
        ("replace", gen_replace_cases(thorough)),
    ]
    ctx.bound.update({"ownership_cases": len(first[-2][1]), "replaced_file_cases": len(first[-1][1])})
    ctx.pmap(_part, first)
    long_ = [c for c in ilvs if len(c["ops"]) > 4]
    parts += [("ilv", long_[i::nl]) for i in range(nl) if long_[i::nl]]
    k_rest = [c for c in keyc if len(c["keys"]) > 1]
    k_rest.sort(key=lambda c: len(c["keys"]))
    parts += [("keys", k_rest[i::nl]) for i in range(nl) if k_rest[i::nl]]
    ctx.bound.update({"key_alphabet": list(KEY_ALPHABET), "key_cases": len(keyc), "file_origin_cases": len(origins)})
    m_rest = [c for c in multis if len(c["order"]) > 4]
    g_rest = [c for c in gens if sum(1 for x in c["d"] if x) > 1]
    parts += [("multi", m_rest[i::nl]) for i in range(nl) if m_rest[i::nl]]
    parts += [("gen", g_rest[i::nl]) for i in range(nl) if g_rest[i::nl]]
    ctx.bound.update({"multi_library_cases": len(multis), "disturbed_pass_cases": len(gens)})
    parts += [("reget", regets)]  # one part, fixed order
    parts += [("seq", seqs)]  # one part: the kept counterexample of a sequence signature is the first in order
    ctx.pmap(_part, parts)


def replay(ctx, case):
    A = alphabets(True)
    if case.get("mode") == "sequence":
        eval_seq(ctx, A, case, ctx.seed)
        return
    if case.get("mode") == "ownership":
        eval_own(ctx, A, {k: v for k, v in case.items() if k not in ("mode", "enc")}, ctx.seed)
        return
    if case.get("mode") == "replace":
        eval_replace(ctx, A, {k: v for k, v in case.items() if k not in ("mode", "bytes")}, ctx.seed)
        return
    if case.get("mode") == "keys":
        eval_key(ctx, A, {k: v for k, v in case.items() if k != "mode"}, ctx.seed)
        return
    if case.get("mode") == "origin":
        eval_origin(ctx, A, {k: v for k, v in case.items() if k != "mode"}, ctx.seed)
        return
    if case.get("mode") == "multilib":
        eval_multi(ctx, A, {k: v for k, v in case.items() if k != "mode"}, ctx.seed)
        return
    if case.get("mode") == "pass":
        eval_gen(ctx, A, {k: v for k, v in case.items() if k != "mode"}, ctx.seed)
        return
    if case.get("mode") == "interleave":
        eval_ilv(ctx, A, {k: v for k, v in case.items() if k in ("lib", "ops", "buf", "rev", "keys")}, ctx.seed)
        return
    if case.get("mode") == "reget":
        eval_reget(ctx, A, {"mode": "reget", "spec": case["spec"], "route": case["route"], "n": case.get("n", 0)}, ctx.seed)
        return
    if case.get("mode") == "size":
        eval_size(ctx, A, case["name"], ctx.seed)
        return
    c = {"kind": case["kind"], "shape": case["shape"], "over": case["over"], "tag": case.get("tag") or "replay"}
    if case.get("bonds") is not None:
        c["bonds"] = [[b[0], b[1], dict(b[2] or {})] for b in case["bonds"]]
    for k in ("dtype", "assign"):
        if case.get(k):
            c[k] = case[k]
    eval_cases(ctx, A, [c], ctx.seed, minimise=False)
