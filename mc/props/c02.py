"""
C02 - a library file is an insert-only key-value map over any operation history.

Two explicit-state searches (engine seqx) over histories of real operations, each against a plain
`dict` reference model:
  layer U : molli.storage.ukvfile.UKVFile, 2..3 handles on one path
  layer C : molli.storage.Collection(UkvCollectionBackend) handles (and pickled copies), sessions

History discipline (DESIGN section 2): no handle is open for writing while another handle is open
(that is C04's concern), truncating opens are not generated (the property is about an insert-only
map).
"""
from __future__ import annotations

import hashlib
import io
import os
import pickle
from pathlib import Path

from mc import seqx
from mc.core import HarnessError

from molli.storage.ukvfile import UKVFile
from molli.storage import Collection
from molli.storage.backends import UkvCollectionBackend

LEVEL = "model_checking"

K255 = b"k" * 255
K256 = b"K" * 256
KEYNAMES = {
    "a": b"a",
    "b": b"b",
    "empty": b"",
    "k255": K255,
    "k256": K256,
    "bin": b"\x00\xff",
}
KEYCLASS = {"a": "plain", "b": "plain", "empty": "empty", "k255": "max255", "k256": "oversize256", "bin": "binary"}


def big_value(seed: int) -> bytes:
    # 70 kB, content depends on the seed (alphabet rotation), deterministic
    blk = hashlib.sha256(f"big{seed}".encode()).digest()
    return (blk * (70_000 // len(blk) + 1))[:70_000]


def values(ctx, reduced=False):
    v = {"e": b"", "x": b"x", "yy": b"yy"}
    if reduced:
        v = {"e": b"", "x": b"x"}
    return v


HEADERS = {
    "default": dict(h1=None, h2=None, b0=None),
    "custom": dict(h1=b"ML10Library", h2=b"a comment", b0=b"\x00\x01descriptor"),
    # each variable-length header field alone (a length of 0 next to a non-empty neighbour)
    "h2only": dict(h1=None, h2=b"comment only", b0=None),
    "b0only": dict(h1=b"ML10UKV01", h2=None, b0=b"\x07desc"),
}
HEADER_EXPECT = {
    # h1 is a 16-byte NUL-padded field in the file; a handle that created the file shows it
    # unpadded, a handle that read it shows it padded: compared up to the padding
    "default": (b"ML10UKV01", b"", b""),
    "custom": (b"ML10Library", b"a comment", b"\x00\x01descriptor"),
    "h2only": (b"ML10UKV01", b"comment only", b""),
    "b0only": (b"ML10UKV01", b"", b"\x07desc"),
}


def _hist_with(st, op):
    """history ending with `op` exactly once (oracles run both before and after the op is appended)"""
    h = [list(o) for o in st.hist]
    if st.pending is not True:
        h.append(list(op))
    return h


def hdr_of(h):
    return (bytes(h.h1).rstrip(b"\0"), bytes(h.h2), bytes(h.b0))


_UKV_KNOWN = {"path", "mode", "h1", "h2", "b0", "_toc", "_last", "_eof", "_closed", "_stream"}
_BE_KNOWN = {"_path", "_readonly", "_write_queue", "_keys", "_lock", "_bufsize", "_usedmem", "_state", "_ukvfile"}
_COLL_KNOWN = {"_path", "_backend", "_value_encoder", "_value_decoder", "_encoding"}


def exc_name(e):
    return type(e).__name__


# =================================================================================================
# layer U
# =================================================================================================
class UState:
    __slots__ = ("path", "handles", "hmode", "model", "header", "hist", "exists", "pending", "lastmode")

    def __init__(self, path):
        self.path = path
        self.lastmode = {}  # name -> the mode a reopen without arguments has to use
        self.handles = {}  # name -> UKVFile
        self.hmode = {}  # name -> "r"/"a"/None(closed)
        self.model = {}  # key bytes -> value bytes
        self.header = None
        self.hist = []
        self.exists = False


class USys:
    def __init__(self, ctx, nhandles=2, keys=None, vals=None, label="U", headers=None, copy=False, remembered=False):
        self.remembered = remembered  # creation with mode "w"; reopening a handle WITHOUT a mode
        self.copy = copy  # UKVFile.copy_items as a read route (out of a handle) and a put route (into a handle)
        self.ctx = ctx
        self.headers = headers or list(HEADERS)
        self.nh = nhandles
        self.keys = keys or list(KEYNAMES)
        self.vals = vals or values(ctx)
        self.dir = Path(ctx.scratch) / f"ukv-{label}-{os.getpid()}"
        self.dir.mkdir(parents=True, exist_ok=True)
        self.path = self.dir / "lib.ukv"
        self.quiet = False
        self.label = label

    # ---- helpers --------------------------------------------------------------------------
    def viol(self, st, op, symptom, what, extra=None):
        if self.quiet:
            raise HarnessError(f"violation while replaying a validated prefix: {symptom} {what} hist={st.hist}")
        sig = f"U:{self._opclass(op)}:{symptom}"
        self.ctx.violation(sig, what, {"layer": "U", "history": _hist_with(st, op), "nh": self.nh, "extra": extra})

    def _opclass(self, op):
        if op[0] in ("put", "copyin", "setitem"):
            return f"{op[0]}[{KEYCLASS[op[2]]}]"
        if op[0] == "copyout":
            return f"copyout[{op[2]}]"
        if op[0] in ("open", "create"):
            return f"{op[0]}[{op[2] if op[2] is not None else 'remembered-mode'}]"
        return op[0]

    def file_bytes(self):
        try:
            return self.path.read_bytes()
        except FileNotFoundError:
            return None

    def view(self, st):
        """Everything the open handles show through the public accessors."""
        out = []
        for name in sorted(st.handles):
            h = st.handles[name]
            if st.hmode[name] is None:
                out.append((name, "closed"))
                continue
            try:
                ks = sorted(h.keys())
            except Exception as e:  # pragma: no cover
                ks = ("EXC", exc_name(e))
            got = []
            for kn in self.keys:
                try:
                    got.append((kn, h.get(KEYNAMES[kn])))
                except Exception as e:
                    got.append((kn, "EXC:" + exc_name(e)))
            out.append((name, tuple(ks), tuple(got), hdr_of(h)))
        return tuple(out)

    # ---- protocol -------------------------------------------------------------------------
    def build(self, hist):
        for p in self.dir.iterdir():
            p.unlink()
        st = UState(self.path)
        self.quiet = True
        try:
            for op in hist:
                self.step(st, tuple(op))
        finally:
            self.quiet = False
        return st

    def dispose(self, st):
        for name, h in st.handles.items():
            try:
                if not h.closed:
                    h._stream.close()
            except Exception:
                pass
        st.handles.clear()

    def enabled(self, st):
        ops = []
        if not st.exists:
            for hd in self.headers:
                ops.append(("create", "h0", "x", hd))
            # mode "w" on a path that does not exist yet is a creation too
            if self.remembered:
                ops.append(("create", "h0", "w", self.headers[0]))
            return ops
        names = [f"h{i}" for i in range(self.nh)]
        open_w = [n for n in names if st.hmode.get(n) == "a"]
        open_any = [n for n in names if st.hmode.get(n) is not None]
        born = [n for n in names if n in st.handles]
        for n in names:
            m = st.hmode.get(n)
            if n not in st.handles and n != "h0" and f"h{int(n[1:])-1}" not in st.handles:
                continue  # symmetry: handles are born in order
            if m is None:
                if not open_w:
                    ops.append(("open", n, "r"))
                if not open_any:
                    ops.append(("open", n, "a"))
                # reopening WITHOUT a mode (f.open() / `with f:`): the mode the handle remembers -
                # "a" after a creation or an append, "r" after a read
                if self.remembered and n in st.handles:
                    rem = st.lastmode.get(n)
                    if (rem == "r" and not open_w) or (rem == "a" and not open_any):
                        ops.append(("open", n, None))
                        ops.append(("open", n, None, "with"))
            else:
                ops.append(("close", n))
                if m == "a":
                    v0 = next(iter(self.vals))
                    for kn in self.keys:
                        for vn in self.vals:
                            ops.append(("put", n, kn, vn))
                        ops.append(("setitem", n, kn, v0))  # h[k] = v, the mapping-style spelling of put
                else:
                    ops.append(("put", n, "a", "x"))  # write through a read-only handle: must fail
        for n in born:
            if st.hmode.get(n) is None:
                ops.append(("put", n, "b", "x"))  # write through a closed handle: must fail
                break
        # a closed handle goes through pickle (how worker processes get theirs) and replaces the original
        for n in born:
            if st.hmode.get(n) is None:
                ops.append(("repickle", n))
        if self.copy:
            for n in names:
                m = st.hmode.get(n)
                if m is None:
                    continue
                if st.model:
                    for sel in ("all", "rev", "first", "into-prefilled"):
                        ops.append(("copyout", n, sel))
                for kn in self.keys:
                    if len(KEYNAMES[kn]) <= 255 and (m == "a" or kn == self.keys[0]):
                        ops.append(("copyin", n, kn))
        # exclusive creation of an existing file must fail and change nothing
        if not open_any:
            ops.append(("create", "hx", "x", "default"))
        return ops

    def step(self, st, op):
        ctx = self.ctx
        kind = op[0]
        st.pending = False
        pre_bytes = self.file_bytes()
        pre_view = None
        ok = True
        if kind == "create":
            _, name, mode, hd = op
            if st.exists:
                pre_view = self.view(st)
                try:
                    UKVFile(self.path, mode="x", **HEADERS[hd])
                except FileExistsError:
                    pass
                except Exception as e:
                    self.viol(st, op, "wrong-exception", f"exclusive create of an existing file raised {exc_name(e)}")
                    ok = False
                else:
                    self.viol(st, op, "failing-op-succeeded", "exclusive create of an existing file succeeded")
                    ok = False
                ok = self._unchanged(st, op, pre_bytes, pre_view) and ok
            else:
                h = UKVFile(self.path, mode=mode, **HEADERS[hd])
                st.handles[name] = h
                st.hmode[name] = "a"
                st.lastmode[name] = "a"
                st.header = hd
                st.exists = True
        elif kind == "open":
            _, name, mode = op[:3]
            try:
                if mode is None:
                    mode = st.lastmode[name]
                    if op[3:] == ("with",):
                        st.handles[name].__enter__()
                    else:
                        st.handles[name].open()
                elif name in st.handles:
                    st.handles[name].open(mode)
                else:
                    st.handles[name] = UKVFile(self.path, mode=mode)
                st.hmode[name] = mode
                st.lastmode[name] = mode
            except Exception as e:
                self.viol(st, op, "open-raised", f"open({mode}) raised {exc_name(e)}: {e}")
                st.hist.append(list(op))
                st.pending = True
                return False
        elif kind == "close":
            _, name = op
            try:
                st.handles[name].close()
            except Exception as e:
                self.viol(st, op, "close-raised", f"close raised {exc_name(e)}: {e}")
                ok = False
            st.hmode[name] = None
        elif kind in ("put", "setitem"):
            _, name, kn, vn = op
            key, val = KEYNAMES[kn], self.vals[vn]
            h = st.handles[name]
            mode = st.hmode[name]
            must_fail = mode != "a" or key in st.model or len(key) > 255
            if must_fail:
                pre_view = self.view(st)
            try:
                if kind == "put":
                    h.put(key, val)
                else:
                    h[key] = val
            except Exception as e:
                if not must_fail:
                    self.viol(st, op, "valid-put-raised", f"put of a new key raised {exc_name(e)}: {e}")
                    ok = False
                else:
                    ok = self._unchanged(st, op, pre_bytes, pre_view)
            else:
                if must_fail:
                    why = "read-only/closed handle" if mode != "a" else ("duplicate key" if key in st.model else "oversize key")
                    self.viol(st, op, "failing-op-succeeded", f"put that must fail ({why}) did not raise")
                    ok = False
                else:
                    st.model[key] = val
        elif kind == "repickle":
            _, name = op
            try:
                st.handles[name] = pickle.loads(pickle.dumps(st.handles[name]))
            except Exception as e:
                self.viol(st, op, "pickle-raised", f"pickling a closed UKVFile handle raised {exc_name(e)}: {e}")
                ok = False
            else:
                if not st.handles[name].closed:
                    # an unpickled handle that comes back open holds a stream nobody asked for; the model follows it
                    st.hmode[name] = st.handles[name].mode if st.handles[name].mode in ("r", "a") else "r"
        elif kind == "copyout":
            ok = self._copyout(st, op, pre_bytes)
        elif kind == "copyin":
            _, name, kn = op
            key = KEYNAMES[kn]
            h = st.handles[name]
            mode = st.hmode[name]
            side_path = self.dir / "side.ukv"
            if side_path.exists():
                side_path.unlink()
            sval = b"side:" + key[:8]
            with UKVFile(side_path, mode="x", h2=b"the side file has its own, longer comment", b0=b"\x02\x03") as sf:
                sf.put(b"zz-other", b"other")
                sf.put(key, sval)
                sf.put(b"zz-last", b"")
            side = UKVFile(side_path, mode="r")
            must_fail = mode != "a" or key in st.model
            if must_fail:
                pre_view = self.view(st)
            try:
                side.copy_items(h, [key])
            except Exception as e:
                if not must_fail:
                    self.viol(st, op, "valid-copy-raised", f"copy_items of a new key into a writable handle raised {exc_name(e)}: {e}")
                    ok = False
                else:
                    ok = self._unchanged(st, op, pre_bytes, pre_view)
            else:
                if must_fail:
                    self.viol(st, op, "failing-op-succeeded", "copy_items that must fail (duplicate key / read-only handle) did not raise")
                    ok = False
                else:
                    st.model[key] = sval
            finally:
                side.close()
        else:  # pragma: no cover
            raise HarnessError(f"unknown op {op}")
        st.hist.append(list(op))
        st.pending = True
        if ok:
            ok = self._check_views(st, op)
        return ok

    def _copyout(self, st, op, pre_bytes):
        """copy_items out of an open handle into a fresh file with ANOTHER header layout; the destination is
        checked through the same destination handle, then through a fresh reader and the independent parser"""
        _, name, sel = op
        h = st.handles[name]
        src_before = self.file_bytes_flushed(st)
        keys = sorted(st.model)
        if sel == "rev":
            keys = keys[::-1]
        elif sel == "first":
            keys = keys[:1]
        dpath = self.dir / "dest.ukv"
        if dpath.exists():
            dpath.unlink()
        exp = {k: st.model[k] for k in keys}
        ok = True
        dest = UKVFile(dpath, mode="x", h2=b"destination with a comment of its own", b0=b"\x09")
        try:
            if sel == "into-prefilled":
                dest.put(b"zz-pre", b"prefilled")
                exp[b"zz-pre"] = b"prefilled"
            try:
                h.copy_items(dest, keys)
            except Exception as e:
                self.viol(st, op, "copy-raised", f"copy_items into a fresh file raised {exc_name(e)}: {e}")
                return False
            for stage in ("same-handle", "reopened"):
                if stage == "reopened":
                    dest.close()
                    dest.open("r")
                try:
                    got = {k: dest.get(k) for k in dest.keys()}
                    its = dict(dest.items())
                except Exception as e:
                    self.viol(st, op, f"destination-read-raised[{stage}]", f"reading the destination raised {exc_name(e)}: {e}")
                    ok = False
                    break
                if got != exp or its != exp:
                    self.viol(st, op, f"destination-differs[{stage}]", "the destination of copy_items does not hold exactly the copied records with their values")
                    ok = False
                    break
        finally:
            if not dest.closed:
                dest.close()
        if ok:
            recs, _, clean = parse_ukv(dpath.read_bytes())
            if not clean or dict(recs) != exp or len(recs) != len(exp):
                self.viol(st, op, "destination-file-differs", "the destination file does not parse as header|exactly the copied records")
                ok = False
        if self.file_bytes_flushed(st) != src_before:
            self.viol(st, op, "source-changed", "copying out of a handle changed the source file")
            ok = False
        return ok

    def _unchanged(self, st, op, pre_bytes, pre_view):
        ok = True
        post = self.file_bytes()
        if post != pre_bytes:
            self.viol(st, op, "failed-op-changed-file", "an operation that failed changed the file bytes")
            ok = False
        pv = self.view(st)
        if pv != pre_view:
            self.viol(st, op, "failed-op-changed-view", "an operation that failed changed what an open handle shows (keys/get/headers)")
            ok = False
        return ok

    def _check_views(self, st, op):
        """every open handle shows exactly the model."""
        ok = True
        exp_keys = tuple(sorted(st.model))
        exp_hdr = HEADER_EXPECT[st.header]
        for name in sorted(st.handles):
            if st.hmode[name] is None:
                continue
            h = st.handles[name]
            ks = tuple(sorted(h.keys()))
            if ks != exp_keys:
                extra = sorted(set(ks) - set(exp_keys))
                missing = sorted(set(exp_keys) - set(ks))
                sym = "phantom-key-listed" if extra and not missing else ("key-missing" if missing and not extra else "keys-differ")
                self.viol(st, op, sym, f"key listing {len(ks)} keys != successful puts {len(exp_keys)} (extra={extra[:2]!r} missing={missing[:2]!r})")
                ok = False
            for kn in self.keys:
                k = KEYNAMES[kn]
                try:
                    v = h.get(k)
                except KeyError:
                    v = KeyError
                except Exception as e:
                    v = ("EXC", exc_name(e))
                if k in st.model:
                    if v != st.model[k]:
                        self.viol(st, op, "get-mismatch", f"get({kn}) returned {v if not isinstance(v, bytes) else v[:20]!r}, expected the put value")
                        ok = False
                else:
                    if v is not KeyError:
                        self.viol(st, op, "get-of-absent-key", f"get({kn}) of a never-put key returned {v!r} instead of KeyError")
                        ok = False
            hdr = hdr_of(h)
            if hdr != exp_hdr:
                self.viol(st, op, "header-changed", f"headers {hdr!r} != {exp_hdr!r}")
                ok = False
            # the other read accessors must tell the same story
            try:
                its = dict(h.items())
                vals = sorted(h.values())
                sub = {k: h[k] for k in st.model}
            except Exception as e:
                self.viol(st, op, "items-raised", f"items()/values()/h[k] raised {exc_name(e)}")
                ok = False
            else:
                if its != st.model or vals != sorted(st.model.values()) or sub != st.model:
                    self.viol(st, op, "items-mismatch", "items()/values()/h[k] disagree with the successful puts")
                    ok = False
                elif len(st.model) >= 2:
                    # the iterators are lazy: other reads through the same handle happen between two of their steps
                    try:
                        inter = []
                        for k, v in h.items():
                            for k2 in st.model:
                                h.get(k2)
                            inter.append((k, v))
                        lock = [(kv, v2) for kv, v2 in zip(h.items(), h.values())]
                        vinter = []
                        for v in h.values():
                            h.keys()
                            h.get(next(iter(st.model)))
                            vinter.append(v)
                    except Exception as e:
                        self.viol(st, op, "items-raised[interleaved]", f"items()/values() interleaved with other reads raised {exc_name(e)}")
                        ok = False
                    else:
                        if dict(inter) != st.model or len(inter) != len(st.model) or any(kv[1] != v2 or st.model.get(kv[0]) != v2 for kv, v2 in lock) or len(lock) != len(st.model) or sorted(vinter) != sorted(st.model.values()):
                            self.viol(st, op, "items-mismatch[interleaved]", "items()/values(), consumed step by step with other reads through the same handle in between, disagree with the successful puts")
                            ok = False
        # the file itself: parse with the harness's own reader
        if st.exists:
            recs, hdr, clean = parse_ukv(self.file_bytes_flushed(st))
            hdr = (hdr[0].rstrip(b"\0"),) + hdr[1:]
            if hdr != exp_hdr:
                self.viol(st, op, "file-header-changed", f"file header {hdr!r} != {exp_hdr!r}")
                ok = False
            if (not clean) or dict(recs) != st.model or len(recs) != len(st.model):
                self.viol(st, op, "file-records-differ", f"records in the file {len(recs)} != successful puts {len(st.model)}")
                ok = False
        return ok

    def file_bytes_flushed(self, st):
        for name, h in st.handles.items():
            if st.hmode[name] == "a":
                try:
                    h._stream.flush()
                except Exception:
                    pass
        return self.file_bytes()

    def is_nontrivial(self, st):
        return len(st.model) >= 1

    def canon(self, st):
        hs = []
        for name in sorted(st.handles):
            h = st.handles[name]
            toc = tuple(sorted((k, r.pos, r.key_len, r.record_len) for k, r in h._toc.items()))
            hs.append((name, st.hmode[name], h.mode, bytes(h.h1), bytes(h.h2), bytes(h.b0), toc, h._eof, h._last, h._closed, seqx.extra_state(h, _UKV_KNOWN)))
        fb = self.file_bytes_flushed(st)
        return (hashlib.sha1(fb).hexdigest() if fb is not None else None, tuple(hs), tuple(sorted(st.model.items())))

    def observe(self, st):
        return self.view(st)


def parse_ukv(data: bytes):
    """Independent reader of the documented layout: >16sHI10x | h2 | b0 | (>BI key value)*"""
    import struct

    h1, h2len, b0len = struct.unpack(">16sHI10x", data[:32])
    pos = 32
    h2 = data[pos : pos + h2len]
    pos += h2len
    b0 = data[pos : pos + b0len]
    pos += b0len
    recs = []
    clean = True
    while pos < len(data):
        if pos + 5 > len(data):
            clean = False
            break
        kl, vl = struct.unpack(">BI", data[pos : pos + 5])
        if pos + 5 + kl + vl > len(data):
            clean = False
            break
        recs.append((data[pos + 5 : pos + 5 + kl], data[pos + 5 + kl : pos + 5 + kl + vl]))
        pos += 5 + kl + vl
    return recs, (h1, h2, b0), clean


# =================================================================================================
# layer C : Collection sessions
# =================================================================================================
CKEYS = {
    "a": "a",
    "b": "b",
    "empty": "",
    "k255": "k" * 255,
    "k256": "K" * 256,
    "u2": "é" * 128,  # 128 characters, 256 bytes in UTF-8 -> oversize only after encoding
    "u1": "é",
}
CKEYCLASS = {"a": "plain", "b": "plain", "empty": "empty", "k255": "max255", "k256": "oversize256", "u2": "oversize-utf8", "u1": "utf8"}


class CState:
    __slots__ = ("handles", "cfg", "sess", "cm", "model", "hist", "pending", "exists", "by", "bycfg", "bysess", "bycm", "bymodel", "hdr", "ow_used", "gen")

    def __init__(self):
        self.handles = {}  # name -> Collection
        self.cfg = {}  # name -> (bufsize, readonly)
        self.sess = {}  # name -> None | "r" | "w"
        self.cm = {}
        self.model = {}
        self.hist = []
        self.exists = False
        self.hdr = None  # header fields given by the LAST creation (None = what the system was set up with)
        self.ow_used = ()
        self.gen = {}  # handle -> number of re-creations it has caught up with (at its last session / construction)
        self.by = None  # the bystander: a Collection on ANOTHER file used by the same process
        self.bycfg = None
        self.bysess = None
        self.bycm = None
        self.bymodel = {}


ACCESSORS = ("items", "values", "iter", "len", "contains", "n_items", "getitem")

# header variants used when the library is created anew (overwrite=True). The comment lengths 0 (initial), 3
# and 5 never differ by a multiple of the 7-byte records of the re-creation layer, so a re-created file can
# never have the size another handle remembers (a coincidence that is outside the property: see DESIGN 9.3)
OW_HEADERS = {"c3": dict(comment="abc"), "c5": dict(comment="abcde")}


class CSys:
    """ops:
    ("new", h, bufname, ro)      construct a Collection handle (creates the file when absent)
    ("new", h, bufname, False, "ow", hdr)  construct it with overwrite=True and header `hdr`: the library is
                                 created anew and the reference model starts again, empty
    ("pickle", h, src)           h = pickle round trip of src (how joblib workers get theirs)
    ("enter", h, "r"|"w")        __enter__ of reading()/writing()
    ("exit", h)                  clean __exit__
    ("exitx", h)                 __exit__ with an exception raised by the body
    ("set", h, key, val)         c[key] = val
    ("flush", h)                 explicit Collection.flush() inside a writing session that has puts queued
    ("set", h, key, val, "blind") the same, and NOTHING is read afterwards (every comparison reads, and reading writes
                                 out what is queued): the queued state is carried into the next operation
    ("set", h, key, val, acc)    the same, and accessor `acc` is the FIRST thing called afterwards (the full
                                 comparison that follows every step starts with keys() and c[k], which may
                                 themselves bring the handle up to date)
    ("enter", h, m, acc)         likewise for the first accessor inside a new session
    ("bnew", buf) ("benter", m) ("bset", key) ("bexit",)
                                 a bystander library on another path, used by the same process while sessions
                                 on the library under test are open (the canonical `with src.reading(),
                                 dst.writing():` pattern); it has its own reference model
    """

    BUFS = {"dflt": -1, "zero": 0, "small": 4, "large": 10**6}

    def __init__(self, ctx, nhandles=2, keys=None, vals=None, bufs=None, label="C", hdr_kw=None, first_acc="buffered", bystander=False, recreate=False):
        self.ctx = ctx
        self.recreate = recreate  # handles constructed with overwrite=True: the library starts again, empty
        self.first_acc = first_acc  # None | "buffered" (one value per key, handles that queue) | "all"
        self.bystander = bystander
        self.hdr_kw = hdr_kw  # header fields given when the first handle creates the file
        self.nh = nhandles
        self.keys = keys or list(CKEYS)
        self.vals = vals or values(ctx)
        self.bufs = bufs or list(self.BUFS)
        self.dir = Path(ctx.scratch) / f"coll-{label}-{os.getpid()}"
        self.dir.mkdir(parents=True, exist_ok=True)
        self.path = self.dir / "lib.mlib"
        self.bypath = self.dir / "bystander.mlib"
        self.quiet = False

    def viol(self, st, op, symptom, what, extra=None):
        if self.quiet:
            raise HarnessError(f"violation while replaying a validated prefix: {symptom} {what} hist={st.hist}")
        if st.by is not None:
            symptom += "[with-a-second-library-in-use]"
        buf = None
        if len(op) > 1 and op[1] in st.cfg:
            buf = st.cfg[op[1]][0]
        sig = f"C:{self._opclass(op)}:buf={buf}:{symptom}"
        self.ctx.violation(sig, what, {"layer": "C", "history": _hist_with(st, op), "nh": self.nh, "extra": extra})

    def _opclass(self, op):
        if op[0] == "set":
            return f"set[{CKEYCLASS[op[2]]}]"
        if op[0] == "enter":
            return f"enter[{op[2]}]"
        return op[0]

    def file_bytes_flushed(self, st):
        """the file as the operating system sees it once python-level stream buffers of open handles are written
        out (an un-flushed BufferedRandom is not a change *by the failing operation* when it lands later)"""
        for c in st.handles.values():
            uf = getattr(c._backend, "_ukvfile", None)
            try:
                if uf is not None and not uf.closed and uf._stream.writable():
                    uf._stream.flush()
            except Exception:
                pass
        return self.file_bytes()

    def by_bytes(self):
        try:
            return self.bypath.read_bytes()
        except FileNotFoundError:
            return None

    def file_bytes(self):
        try:
            return self.path.read_bytes()
        except FileNotFoundError:
            return None

    def build(self, hist):
        for p in self.dir.iterdir():
            p.unlink()
        st = CState()
        self.quiet = True
        try:
            for op in hist:
                self.step(st, tuple(op))
        finally:
            self.quiet = False
        return st

    def dispose(self, st):
        import atexit

        if st.by is not None:
            st.handles["<by>"] = st.by
            if st.bycm is not None:
                st.cm["<by>"] = st.bycm
            st.by = None
        for name, c in st.handles.items():
            be = c._backend
            be._write_queue.clear()
            cm = st.cm.pop(name, None)
            if cm is not None:
                try:
                    cm.__exit__(None, None, None)
                except BaseException:
                    pass
            try:
                uf = getattr(be, "_ukvfile", None)
                if uf is not None and not uf.closed:
                    uf._stream.close()
            except Exception:
                pass
            atexit.unregister(be.flush)
        st.handles.clear()

    def enabled(self, st):
        ops = []
        names = [f"c{i}" for i in range(self.nh)]
        insess = [n for n in names if st.sess.get(n)]
        for i, n in enumerate(names):
            if n not in st.handles:
                if i > 0 and names[i - 1] not in st.handles:
                    break
                if insess:
                    break
                for b in self.bufs:
                    ops.append(("new", n, b, False))
                if st.exists:
                    ops.append(("new", n, "dflt", True))
                    if i > 0:
                        ops.append(("pickle", n, names[i - 1]))
                        if self.recreate:
                            for hn in OW_HEADERS:
                                if hn not in st.ow_used:
                                    ops.append(("new", n, "dflt", False, "ow", hn))
                                    ops.append(("new", n, "large", False, "ow", hn))
                break
        for n in names:
            if n not in st.handles:
                continue
            s = st.sess.get(n)
            if s is None:
                if not insess:
                    ops.append(("enter", n, "r"))
                    ops.append(("enter", n, "w"))
                    if self.first_acc == "all":
                        for m in "rw":
                            if m == "w" and st.cfg[n][1]:
                                continue
                            for acc in ACCESSORS[:-1]:
                                ops.append(("enter", n, m, acc))
            else:
                ops.append(("exit", n))
                ops.append(("exitx", n))
                if s == "w" and len(getattr(st.handles[n]._backend, "_write_queue", ())) > 0:
                    ops.append(("flush", n))  # explicit Collection.flush() with puts still queued
                if s == "w":
                    v0 = next(iter(self.vals))
                    for kn in self.keys:
                        for vn in self.vals:
                            ops.append(("set", n, kn, vn))
                            k = CKEYS[kn]
                            if k in st.model or len(k.encode()) > 255 or not self.first_acc:
                                continue
                            if self.first_acc == "all" or (vn == v0 and self.BUFS[st.cfg[n][0]] > 0):
                                for acc in ACCESSORS:
                                    ops.append(("set", n, kn, vn, acc))
                            # the put is NOT followed by any read: what it queued stays queued for the next operation
                            if self.BUFS[st.cfg[n][0]] > 0 and (vn == v0 or st.cfg[n][0] == "small"):
                                ops.append(("set", n, kn, vn, "blind"))
                elif st.cfg[n][1]:
                    ops.append(("set", n, "a", "x"))  # write through a read-only handle: must fail
        if self.bystander and st.handles:
            if st.by is None:
                if not insess:
                    ops.append(("bnew", "large"))
                    ops.append(("bnew", "dflt"))
            elif st.bysess is None:
                ops.append(("benter", "w"))
                ops.append(("benter", "r"))
            else:
                ops.append(("bexit",))
                if st.bysess == "w":
                    for kn in self.keys:
                        k = CKEYS[kn]
                        if k not in st.bymodel and len(k.encode()) <= 255:
                            ops.append(("bset", kn))
        return ops

    # a view = what the public accessors of every handle currently *inside a session* show
    def view(self, st):
        out = []
        for name in sorted(st.handles):
            c = st.handles[name]
            if not st.sess.get(name):
                out.append((name, "idle"))
                continue
            try:
                ks = tuple(sorted(c.keys()))
            except Exception as e:
                ks = ("EXC", exc_name(e))
            got = []
            for kn in self.keys:
                k = CKEYS[kn]
                try:
                    got.append((kn, c[k], k in c))
                except Exception as e:
                    got.append((kn, "EXC:" + exc_name(e), None))
            try:
                n = len(c)
            except Exception as e:
                n = "EXC:" + exc_name(e)
            out.append((name, ks, tuple(got), n))
        return tuple(out)

    def _first(self, st, op, name, acc, newkey=None):
        """`acc` is the first accessor called after the operation; compared with the reference model"""
        c, exp = st.handles[name], st.model
        try:
            if acc == "items":
                good = dict(c.items()) == exp
            elif acc == "values":
                good = sorted(c.values()) == sorted(exp.values())
            elif acc == "iter":
                good = set(iter(c)) == set(exp)
            elif acc == "len":
                good = len(c) == len(exp)
            elif acc == "contains":
                good = all(k in c for k in exp)
            elif acc == "n_items":
                good = c.n_items == len(exp)
            else:
                good = newkey is None or c[newkey] == exp[newkey]
        except Exception as e:
            self.viol(st, op[:4] if op[0] == "set" else op[:3], f"first-accessor[{acc}]-raised", f"{acc} called first after the operation raised {exc_name(e)}: {e}")
            return False
        if not good:
            self.viol(st, op[:4] if op[0] == "set" else op[:3], f"first-accessor[{acc}]-mismatch", f"{acc}, called first after the operation, disagrees with the successful puts")
            return False
        return True

    def _by_step(self, st, op):
        kind = op[0]
        if kind == "bnew":
            st.by = Collection(self.bypath, UkvCollectionBackend, bufsize=self.BUFS[op[1]], readonly=False)
            st.bycfg = op[1]
        elif kind == "benter":
            cm = st.by.reading(timeout=0.2) if op[1] == "r" else st.by.writing(timeout=0.2)
            cm.__enter__()
            st.bycm, st.bysess = cm, op[1]
        elif kind == "bexit":
            cm, st.bycm, st.bysess = st.bycm, None, None
            cm.__exit__(None, None, None)
        else:
            k = CKEYS[op[1]]
            v = b"bystander:" + k.encode()
            st.by[k] = v
            st.bymodel[k] = v

    def _check_by(self, st, op):
        ok = True
        if st.by is None:
            return ok
        if st.bysess:
            try:
                ks = set(st.by.keys())
                got = {k: st.by[k] for k in ks}
                its = dict(st.by.items())
            except Exception as e:
                self.viol(st, op, "second-library:read-raised", f"reading the second library inside its session raised {exc_name(e)}: {e}")
                return False
            if got != st.bymodel or its != st.bymodel:
                self.viol(st, op, "second-library:view-differs", "the second library does not show exactly what was stored in it")
                ok = False
        else:
            recs, _, clean = parse_ukv(self.by_bytes())
            if not clean or {k.decode(): v for k, v in recs} != st.bymodel or len(recs) != len(st.bymodel):
                self.viol(st, op, "second-library:file-records-differ", f"the second library's file holds {len(recs)} records; stored in it: {len(st.bymodel)}")
                ok = False
        return ok

    def step(self, st, op):
        kind = op[0]
        ok = True
        st.pending = False
        pre_bytes = self.file_bytes()
        acc = None
        if kind == "set" and len(op) == 5 or kind == "enter" and len(op) == 4:
            acc = op[-1]
        if kind[0] == "b":
            pre_bytes = self.file_bytes_flushed(st)
            try:
                self._by_step(st, op)
            except Exception as e:
                self.viol(st, op, "second-library:op-raised", f"{kind} on the second library raised {exc_name(e)}: {e}")
                st.hist.append(list(op))
                st.pending = True
                return False
            st.hist.append(list(op))
            st.pending = True
            if self.file_bytes_flushed(st) != pre_bytes:
                self.viol(st, op, "changed-by-second-library", "an operation on another library changed this library's file")
                return False
            return self._check_views(st, op) and self._check_by(st, op)
        if kind == "new":
            _, name, b, ro = op[:4]
            ow = len(op) > 4 and op[4] == "ow"
            try:
                kw = {}
                if not st.exists and self.hdr_kw:
                    kw = dict(self.hdr_kw)
                if ow:
                    kw = dict(OW_HEADERS[op[5]], overwrite=True)
                c = Collection(self.path, UkvCollectionBackend, bufsize=self.BUFS[b], readonly=ro, **kw)
            except Exception as e:
                self.viol(st, op, "constructor-raised", f"Collection(...) raised {exc_name(e)}: {e}")
                st.hist.append(list(op))
                st.pending = True
                return False
            st.handles[name] = c
            st.cfg[name] = (b, ro)
            st.sess[name] = None
            st.exists = True
            if ow:
                # the library was created anew: nothing stored before exists any more
                st.model = {}
                st.hdr = dict(OW_HEADERS[op[5]])
                st.ow_used = st.ow_used + (op[5],)
            st.gen[name] = len(st.ow_used)
        elif kind == "pickle":
            _, name, src = op
            try:
                c = pickle.loads(pickle.dumps(st.handles[src]))
            except Exception as e:
                self.viol(st, op, "pickle-raised", f"pickling a Collection handle raised {exc_name(e)}: {e}")
                st.hist.append(list(op))
                st.pending = True
                return False
            st.handles[name] = c
            st.cfg[name] = st.cfg[src]
            st.sess[name] = None
            st.gen[name] = st.gen.get(src, 0)
        elif kind == "enter":
            _, name, m = op[:3]
            c = st.handles[name]
            ro = st.cfg[name][1]
            if m == "w" and ro:
                pre_view = self.view(st)
                pre_bytes = self.file_bytes_flushed(st)
                try:
                    cm = c.writing(timeout=0.2)
                    cm.__enter__()
                except Exception:
                    ok = self._unchanged(st, op, pre_bytes, pre_view)
                else:
                    self.viol(st, op, "failing-op-succeeded", "writing() on a read-only handle did not raise")
                    st.hist.append(list(op))
                    st.pending = True
                    return False
            else:
                try:
                    cm = c.reading(timeout=0.2) if m == "r" else c.writing(timeout=0.2)
                    cm.__enter__()
                except Exception as e:
                    self.viol(st, op, "enter-raised", f"{'reading' if m=='r' else 'writing'}() raised {exc_name(e)}: {e}")
                    st.hist.append(list(op))
                    st.pending = True
                    return False
                st.cm[name] = cm
                st.sess[name] = m
                st.gen[name] = len(st.ow_used)
        elif kind in ("exit", "exitx"):
            _, name = op
            cm = st.cm.pop(name)
            try:
                if kind == "exit":
                    cm.__exit__(None, None, None)
                else:
                    e = RuntimeError("body failed")
                    r = cm.__exit__(RuntimeError, e, None)
                    if r:
                        self.viol(st, op, "exception-swallowed", "the session swallowed the body's exception")
                        ok = False
            except RuntimeError as e:
                if kind == "exit" or str(e) != "body failed":
                    self.viol(st, op, "exit-raised", f"session exit raised {exc_name(e)}: {e}")
                    ok = False
            except Exception as e:
                self.viol(st, op, "exit-raised", f"session exit raised {exc_name(e)}: {e}")
                ok = False
            st.sess[name] = None
        elif kind == "set":
            _, name, kn, vn = op[:4]
            key, val = CKEYS[kn], self.vals[vn]
            c = st.handles[name]
            s = st.sess.get(name)
            must_fail = st.cfg[name][1] or key in st.model or len(key.encode()) > 255
            dirty = len(getattr(c._backend, "_write_queue", ())) > 0  # looking at the handle would flush what is queued
            pre_view = self.view(st) if must_fail and not dirty else None
            if must_fail:
                pre_bytes = self.file_bytes_flushed(st)
            try:
                c[key] = val
            except Exception as e:
                if not must_fail:
                    self.viol(st, op, "valid-put-raised", f"c[k]=v of a new key raised {exc_name(e)}: {e}")
                    ok = False
                else:
                    ok = self._unchanged(st, op, pre_bytes, pre_view)
            else:
                if must_fail:
                    why = "read-only handle" if st.cfg[name][1] else ("duplicate key" if key in st.model else "oversize key")
                    self.viol(st, op, "failing-op-succeeded", f"c[k]=v that must fail ({why}) did not raise")
                    ok = False
                else:
                    st.model[key] = val
        elif kind == "flush":
            try:
                st.handles[op[1]].flush()
            except Exception as e:
                self.viol(st, op, "flush-raised", f"Collection.flush() inside a writing session raised {exc_name(e)}: {e}")
                ok = False
        else:  # pragma: no cover
            raise HarnessError(f"unknown op {op}")
        st.hist.append(list(op))
        st.pending = True
        if acc == "blind":
            return ok
        if ok and acc and st.sess.get(op[1]):
            ok = self._first(st, op, op[1], acc, CKEYS[op[2]] if kind == "set" else None)
        if ok:
            ok = self._check_views(st, op)
        if ok and st.by is not None:
            ok = self._check_by(st, op)
        return ok

    def _unchanged(self, st, op, pre_bytes, pre_view):
        ok = True
        if self.file_bytes_flushed(st) != pre_bytes:
            self.viol(st, op, "failed-op-changed-file", "an operation that failed changed the file bytes")
            ok = False
        if pre_view is not None and self.view(st) != pre_view:
            self.viol(st, op, "failed-op-changed-view", "an operation that failed changed what a handle inside a session shows")
            ok = False
        return ok

    def _check_views(self, st, op):
        ok = True
        exp = st.model
        for name in sorted(st.handles):
            s = st.sess.get(name)
            c = st.handles[name]
            if not s:
                continue
            try:
                ks = set(c.keys())
            except Exception as e:
                self.viol(st, op, "keys-raised", f"keys() raised {exc_name(e)}")
                ok = False
                continue
            if ks != set(exp):
                extra = sorted(ks - set(exp))
                missing = sorted(set(exp) - ks)
                sym = "phantom-key-listed" if extra and not missing else ("key-missing" if missing and not extra else "keys-differ")
                self.viol(st, op, sym, f"listed keys != successful puts (extra={[x[:4] for x in extra[:2]]} missing={[x[:4] for x in missing[:2]]})")
                ok = False
            if len(c) != len(ks):
                self.viol(st, op, "len-mismatch", "len(collection) != number of listed keys")
                ok = False
            for k in sorted(ks):
                try:
                    v = c[k]
                except Exception as e:
                    self.viol(st, op, "listed-key-unreadable", f"a listed key cannot be read inside the session ({exc_name(e)})")
                    ok = False
                    continue
                if k in exp and v != exp[k]:
                    self.viol(st, op, "get-mismatch", "c[k] differs from the value put")
                    ok = False
            for kn in self.keys:
                k = CKEYS[kn]
                if k not in exp and k not in ks:
                    if k in c:
                        self.viol(st, op, "contains-absent", "`k in c` is true for a never-put key")
                        ok = False
                    # reading a key that is neither listed nor in the file must not produce a value (e.g. one
                    # remembered from before the library was created anew)
                    try:
                        v = c[k]
                    except Exception:
                        pass
                    else:
                        self.viol(st, op, "get-of-absent-key", f"c[k] of a key that is not in the library returned {v[:12]!r} instead of raising")
                        ok = False
            if ok:
                try:
                    its = dict(c.items())
                    itr = set(iter(c))
                    vals = sorted(c.values())
                    n = c.n_items
                except Exception as e:
                    self.viol(st, op, "items-raised", f"items()/values()/iter raised {exc_name(e)}")
                    ok = False
                else:
                    if its != exp or itr != set(exp) or vals != sorted(exp.values()) or n != len(exp):
                        self.viol(st, op, "items-mismatch", "items()/values()/iter()/n_items disagree with the successful puts")
                        ok = False
        # idle moment: nobody inside a session -> the file holds exactly the model
        if not any(st.sess.values()) and st.exists:
            fb = self.file_bytes()
            recs, hdr, clean = parse_ukv(fb)
            kw = st.hdr if st.hdr is not None else (self.hdr_kw or {})
            exp_hdr = ((kw.get("h1") or b"ML10UKV01"), (kw.get("comment") or "").encode(), kw.get("b0") or b"")
            got_hdr = (hdr[0].rstrip(b"\0"), hdr[1], hdr[2])
            if got_hdr != exp_hdr:
                self.viol(st, op, "file-header-changed", f"file header {got_hdr!r} != {exp_hdr!r} given at creation")
                ok = False
            for name, c in st.handles.items():
                uf = getattr(c._backend, "_ukvfile", None)
                # a handle that has not had a session since the library was created anew still remembers
                # the old header: that is a cache, it has to be right from its next session on
                if uf is not None and st.gen.get(name, 0) == len(st.ow_used) and hdr_of(uf) != exp_hdr:
                    self.viol(st, op, "header-changed", f"a handle shows headers {hdr_of(uf)!r} != {exp_hdr!r}")
                    ok = False
            if not clean or {k.decode(): v for k, v in recs} != exp or len(recs) != len(exp):
                self.viol(st, op, "file-records-differ", f"after the session the file holds {len(recs)} records (clean={clean}); successful puts: {len(exp)}")
                ok = False
            for name, c in st.handles.items():
                be = c._backend
                if be._state != "idle":
                    self.viol(st, op, "state-not-idle", f"backend state {be._state!r} after the session")
                    ok = False
                uf = getattr(be, "_ukvfile", None)
                if uf is not None and not uf.closed:
                    self.viol(st, op, "file-left-open", "the library file is still open after the session")
                    ok = False
        return ok

    def is_nontrivial(self, st):
        return len(st.model) >= 1

    def canon(self, st):
        hs = []
        for name in sorted(st.handles):
            be = st.handles[name]._backend
            uf = getattr(be, "_ukvfile", None)
            if uf is not None:
                toc = tuple(sorted((k, r.pos, r.key_len, r.record_len) for k, r in uf._toc.items()))
                u = (uf.mode, toc, uf._eof, uf._last, uf._closed, bytes(uf.h1), bytes(uf.h2), bytes(uf.b0))
            else:
                u = None
            hs.append((name, st.cfg[name], st.sess.get(name), be._state, tuple(be._write_queue), tuple(sorted(be._keys)), be._usedmem, be._readonly, u, seqx.extra_state(be, _BE_KNOWN), seqx.extra_state(st.handles[name], _COLL_KNOWN), seqx.extra_state(uf, _UKV_KNOWN) if uf is not None else None))
        fb = self.file_bytes()
        by = None
        if st.by is not None:
            be = st.by._backend
            bb = self.by_bytes()
            by = (st.bycfg, st.bysess, be._state, tuple(be._write_queue), tuple(sorted(be._keys)), be._usedmem, hashlib.sha1(bb).hexdigest() if bb is not None else None, tuple(sorted(st.bymodel.items())), seqx.extra_state(be, _BE_KNOWN))
        return (hashlib.sha1(fb).hexdigest() if fb is not None else None, tuple(hs), tuple(sorted(st.model.items())), by, st.ow_used)

    def observe(self, st):
        return self.view(st)


# =================================================================================================
def _note_hist_stats(ctx):
    pass


def run(ctx):
    seed = ctx.seed
    thorough = ctx.thorough
    ctx.rule = (
        "explicit-state BFS over histories of real UKVFile / Collection operations (replayed on fresh objects), "
        "deduplicated by canonical state (file sha1 + every handle's cached index); oracle = dict of successful puts, "
        "checked through every open handle after every step; a state is non-trivial when it is a distinct canonical "
        "state reached by at least one successful put"
    )
    ctx.assumptions += [
        "histories follow the reader/writer discipline that C04 establishes (no handle open for writing while another is open)",
        "a handle constructed with overwrite=True starts the history again (the reference model is emptied); mode 'w' on an existing UKVFile is not generated",
        "the reference model is a python dict; the file is additionally parsed by an independent 30-line reader of the documented layout",
    ]
    vals = values(ctx)
    if thorough:
        vals = dict(vals)
        vals["big70k"] = big_value(seed)

    # rotate the alphabets with the seed: order of expansion only, the product stays complete
    def rot(lst):
        lst = list(lst)
        r = seed % len(lst)
        return lst[r:] + lst[:r]

    # ---- layer U -------------------------------------------------------------------------------
    import time as _t

    only = os.environ.get("C02_ONLY")  # calibration aid: run the layers whose name contains this

    def layer(name, mk, depth):
        if only and only not in name:
            return
        t0 = _t.time()
        seqx.pbfs(ctx, mk, [[]], depth)
        ctx.bound[name] = depth
        ctx.note("wall_s[" + name + "]", round(_t.time() - t0, 1))

    red_keys = ["a", "k256", "empty"]
    red_vals = {"e": b"", "x": b"x"}
    # full alphabet, all four header variants
    layer("U_2handles_full_alphabet_4headers_depth", lambda c: USys(c, nhandles=2, keys=rot(KEYNAMES), vals=vals, label="U2"), 6 if thorough else 5)
    # full alphabet, one level deeper on the default header
    layer("U_2handles_full_alphabet_default_header_depth", lambda c: USys(c, nhandles=2, keys=rot(KEYNAMES), vals=vals, label="U2d", headers=["default"]), 7 if thorough else 6)
    # reduced alphabet, deeper, three handles in the thorough tier
    layer("U_reduced_alphabet_depth", lambda c: USys(c, nhandles=3 if thorough else 2, keys=red_keys, vals=red_vals, label="U3", headers=["default", "h2only"], remembered=True), 10 if thorough else 9)
    ctx.bound["U_reduced_alphabet_handles"] = 3 if thorough else 2

    # copy_items: a read route out of any open handle and a put route into a writable one
    layer("U_copy_items_depth", lambda c: USys(c, nhandles=2, keys=["a", "bin", "empty", "k255"], vals={"x": b"x", "e": b""}, label="U4", headers=["default", "custom"], copy=True), 7 if thorough else 5)

    # ---- layer C -------------------------------------------------------------------------------
    ckeys = rot(["a", "b", "empty", "k256", "u2", "u1"]) if not thorough else rot(list(CKEYS))
    cvals = {"e": b"", "x": b"x", "yy": b"yy"} if not thorough else vals
    layer("C_2handles_depth", lambda c: CSys(c, nhandles=2, keys=ckeys, vals=cvals, label="C2"), 6 if thorough else 5)
    # deeper with a reduced alphabet: stale handles need new+new+enter+set+exit+enter(other)+...
    # every accessor as the FIRST call after every put and every session entry
    layer("C_first_accessor_depth", lambda c: CSys(c, nhandles=2, keys=["a", "b"], vals={"x": b"x"}, bufs=["dflt", "small", "large"], label="C6", first_acc="all"), 9 if thorough else 6)
    layer("C_reduced_alphabet_depth", lambda c: CSys(c, nhandles=3 if thorough else 2, keys=["a", "k256"], vals={"x": b"x"}, bufs=["dflt", "large"], label="C3", first_acc=None), 10 if thorough else 9)
    # the library created anew (a handle constructed with overwrite=True and another header) while older
    # handles live on: they have to follow at their next session
    layer("C_recreated_depth", lambda c: CSys(c, nhandles=3 if thorough else 2, keys=["a", "b"], vals={"x": b"x", "yy": b"yy"}, bufs=["dflt", "large"] if thorough else ["dflt"], label="C7", first_acc=None, recreate=True), 9)
    # a second library on another path used by the same process, sessions on both open at the same time
    layer("C_with_second_library_depth", lambda c: CSys(c, nhandles=1, keys=["a", "b"], vals={"x": b"x"}, bufs=["dflt", "large"], label="C5", first_acc=None, bystander=True), 12 if thorough else 8)
    # header fields given at creation through the Collection constructor (each alone and together)
    for tag, kw in (("h2only", dict(comment="comment only")), ("b0only", dict(b0=b"\x07desc")), ("all", dict(h1=b"ML10Library", comment="c", b0=b"\x00d"))):
        layer("C_header_" + tag + "_depth", lambda c, kw=kw, tag=tag: CSys(c, nhandles=2, keys=["a", "k256"], vals={"x": b"x", "e": b""}, bufs=["dflt", "large"], label="C4" + tag, hdr_kw=kw), 10 if thorough else 7)

    # non-triviality / outcome accounting is collected by the systems through ctx.nontrivial/outcome
    for k in ctx.state_keys:
        pass
    ctx.note("distinct_canonical_states", len(ctx.state_keys))
    # every distinct state is a distinct (file, index) configuration; count those with >= 1 record
    # (measured in the workers through ctx.nontrivial)


def replay(ctx, case):
    if case["layer"] == "U":
        sm = USys(ctx, nhandles=case.get("nh", 2), keys=list(KEYNAMES), vals={**values(ctx), "big70k": big_value(ctx.seed)}, label="replay", copy=True, remembered=True)
    else:
        sm = CSys(ctx, nhandles=case.get("nh", 2), keys=list(CKEYS), vals={**values(ctx), "big70k": big_value(ctx.seed)}, label="replay", bystander=True, recreate=True)
    hist = [tuple(o) for o in case["history"]]
    st = sm.build(hist[:-1])
    sm.step(st, hist[-1])
    sm.dispose(st)
