"""
C13 helper: an independent reading of a CDXML drawing (xml.etree.ElementTree only, no molli).

`Drawing(path)` lists the bold-face labels and the chemically meaningful top-level fragments of a
file and, per fragment, the constitution *as drawn*:

  atoms   one per drawn node; a node that holds a contracted group (NodeType Fragment/Nickname with
          an inner <fragment>) stands for the atoms drawn inside it, the inner connection point and
          the outer placeholder both vanish and the outer bond ends at the inner atom the connection
          point was bonded to (ChemDraw's own expansion); MultiAttachment helper nodes are not atoms
  bonds   one per drawn bond with the drawn order (None->1, "2", "3", "1.5"); the bond drawn from a
          metal to a MultiAttachment helper is kept apart (`hapto`)
  per atom: element number (default carbon), isotope, charge, radical, NumHydrogens, page position
  attachment points: ExternalConnectionPoint nodes of the outermost fragment

Everything is keyed by the *position in document order* (tuple of child indices), never by the
CDXML ids, so that a consistently renumbered file has the same keys.
"""
from __future__ import annotations

import xml.etree.ElementTree as ET

STEREO_DISPLAYS = ("WedgeBegin", "WedgedHashBegin", "WedgeEnd", "WedgedHashEnd", "Bold", "Hash")
MIRROR = {
    "WedgeBegin": "WedgedHashBegin",
    "WedgedHashBegin": "WedgeBegin",
    "WedgeEnd": "WedgedHashEnd",
    "WedgedHashEnd": "WedgeEnd",
    "Bold": "Hash",
    "Hash": "Bold",
}
RADICAL = {"Doublet": 1, "Singlet": 2}  # molli's convention: formal_spin = number of unpaired-electron slots
PLACEHOLDER_TYPES = ("Fragment", "Nickname", "GenericNickname", "Unspecified")


class Unsupported(Exception):
    """The drawing uses a construction whose expansion this walk does not define."""


def centre_of(elt):
    if "BoundingBox" in elt.attrib:
        l, t, r, b = map(float, elt.attrib["BoundingBox"].split())
        return ((l + r) / 2, (t + b) / 2)
    if "p" in elt.attrib:
        x, y = map(float, elt.attrib["p"].split()[:2])
        return (x, y)
    return None


class DAtom:
    __slots__ = ("key", "z", "isotope", "charge", "spin", "numh", "xy", "kind", "label", "depth", "apnum")

    def __init__(self, key, node, depth):
        self.key = key
        self.depth = depth
        e = node.get("Element")
        self.z = int(e) if e else 6
        iso = node.get("Isotope")
        self.isotope = int(iso) if iso is not None else None
        self.charge = int(node.get("Charge", "0"))
        self.spin = RADICAL.get(node.get("Radical"), 0)
        nh = node.get("NumHydrogens")
        self.numh = int(nh) if nh is not None else None
        p = node.get("p")
        self.xy = tuple(map(float, p.split()[:2])) if p else None
        nt = node.get("NodeType")
        self.apnum = node.get("ExternalConnectionNum")
        self.label = node.get("AtomNumber")
        if nt == "ExternalConnectionPoint":
            self.kind = "ap"
        elif nt in PLACEHOLDER_TYPES:
            self.kind = "placeholder"
        else:
            self.kind = "atom"


class DBond:
    """a = atom at the drawn Begin, b = atom at the drawn End; axy/bxy = where the drawing puts the two
    ends on the page (for an end that was redirected into a contracted group: the placeholder's spot)."""

    __slots__ = ("a", "b", "order", "display", "key", "axy", "bxy")

    def __init__(self, a, b, order, display, key, axy, bxy):
        self.a, self.b, self.order, self.display, self.key = a, b, order, display, key
        self.axy, self.bxy = axy, bxy


def _order(bd):
    o = bd.get("Order")
    if o is None:
        return 1.0
    try:
        return float(o)
    except ValueError:
        raise Unsupported(f"bond order {o!r}")


class DFragment:
    """Expanded constitution of one top-level fragment."""

    def __init__(self, elt, index):
        self.elt = elt
        self.index = index  # position among the chemically meaningful top-level fragments
        self.xml_id = elt.get("id")
        self.centre = centre_of(elt)
        self.atoms: dict[tuple, DAtom] = {}
        self.bonds: list[DBond] = []
        self.hapto: list[tuple] = []  # (metal key, [attached keys])
        self.nested = 0
        self.unsupported = None
        try:
            self._expand(elt, (), 0)
        except Unsupported as e:
            self.unsupported = str(e)
        self.hapto_excluded = set()
        for m, att in self.hapto:
            self.hapto_excluded.add(m)
            self.hapto_excluded.update(att)

    # -- expansion ------------------------------------------------------------------------------
    def _expand(self, frag, prefix, depth):
        """Adds the atoms/bonds drawn in `frag`; returns (id->key map, list of connection point keys)."""
        idmap = {}
        helpers = {}
        holders = {}  # node id -> (inner attach key)
        aps = []
        for i, node in enumerate(frag):
            if node.tag != "n":
                continue
            key = prefix + (i,)
            nid = node.get("id")
            nt = node.get("NodeType")
            if nt == "MultiAttachment":
                helpers[nid] = node.get("Attachments", "").split()
                continue
            inner = node.findall("./fragment")
            if nt in ("Fragment", "Nickname") and inner:
                if len(inner) != 1:
                    raise Unsupported("placeholder node with several inner fragments")
                ci = list(node).index(inner[0])
                imap, iaps = self._expand(inner[0], key + (ci,), depth + 1)
                if len(iaps) != 1:
                    raise Unsupported("contracted group without exactly one connection point")
                ap = iaps[0]
                # the inner connection point vanishes with its (single) bond
                touching = [b for b in self.bonds if ap in (b.a, b.b)]
                if len(touching) != 1:
                    raise Unsupported("inner connection point without exactly one bond")
                tb = touching[0]
                anchor = tb.b if tb.a == ap else tb.a
                self.bonds.remove(tb)
                del self.atoms[ap]
                p = node.get("p")
                holders[nid] = (anchor, tuple(map(float, p.split()[:2])) if p else None)
                self.nested += 1
                continue
            a = DAtom(key, node, depth)
            self.atoms[key] = a
            idmap[nid] = key
            if a.kind == "ap":
                aps.append(key)
        used_holder = {}
        for i, bd in enumerate(frag):
            if bd.tag != "b":
                continue
            B, E = bd.get("B"), bd.get("E")
            if B in helpers or E in helpers:
                h, c = (B, E) if B in helpers else (E, B)
                if c not in idmap:
                    raise Unsupported("multi-attachment bond to a non-atom")
                att = []
                for t in helpers[h]:
                    if t not in idmap:
                        raise Unsupported("multi-attachment list names a non-atom")
                    att.append(idmap[t])
                self.hapto.append((idmap[c], att))
                continue
            ends = []
            xys = []
            for x in (B, E):
                if x in holders:
                    used_holder[x] = used_holder.get(x, 0) + 1
                    ends.append(holders[x][0])
                    xys.append(holders[x][1])
                elif x in idmap:
                    ends.append(idmap[x])
                    xys.append(self.atoms[idmap[x]].xy)
                else:
                    raise Unsupported("bond to an unknown node")
            db = DBond(ends[0], ends[1], _order(bd), bd.get("Display"), prefix + (i,), xys[0], xys[1])
            self.bonds.append(db)
        for h in holders:
            if used_holder.get(h, 0) != 1:
                raise Unsupported("contracted group with other than one outer bond")
        return idmap, aps

    # -- derived --------------------------------------------------------------------------------
    def total_charge(self):
        return sum(a.charge for a in self.atoms.values())

    def multiplicity(self):
        return sum(a.spin for a in self.atoms.values()) + 1

    def attachment_keys(self):
        return [k for k, a in self.atoms.items() if a.kind == "ap"]

    def neighbours(self):
        nb = {k: [] for k in self.atoms}
        for b in self.bonds:
            nb[b.a].append(b.b)
            nb[b.b].append(b.a)
        return nb

    def ring_bonds(self):
        """set of bond indices that lie on a cycle of the drawn graph (hapto bonds included, as the
        expanded metal-ring bonds close cycles too)."""
        edges = [(b.a, b.b) for b in self.bonds]
        for m, att in self.hapto:
            for t in att:
                edges.append((m, t))
        adj = {}
        for i, (u, v) in enumerate(edges):
            adj.setdefault(u, []).append((v, i))
            adj.setdefault(v, []).append((u, i))
        ring = set()
        for i, (u, v) in enumerate(edges[: len(self.bonds)]):
            # is v reachable from u without edge i ?
            seen = {u}
            stack = [u]
            found = False
            while stack and not found:
                x = stack.pop()
                for y, j in adj.get(x, ()):
                    if j == i or y in seen:
                        continue
                    if y == v:
                        found = True
                        break
                    seen.add(y)
                    stack.append(y)
            if found:
                ring.add(i)
        return ring

    def has_stereo_marks(self):
        return any(b.display in STEREO_DISPLAYS for b in self.bonds) or any(
            bd.get("Display") in STEREO_DISPLAYS for bd in self.elt.iter("b")
        )


def is_label(t):
    s = t.findall("./s")
    return len(s) == 1 and s[0].get("face", "0") == "1"


class Drawing:
    def __init__(self, path):
        self.path = str(path)
        self.tree = ET.parse(self.path)
        root = self.tree.getroot()
        self.bond_length = float(root.get("BondLength"))
        self.labels = {}  # text -> dict(elt, centre, group)
        self.label_order = []
        self.duplicates = set()
        self.fragments: list[DFragment] = []
        self._frag_of_elt = {}
        for page in root.findall("./page"):
            for holder in [page] + page.findall("./group"):
                grp = holder if holder.tag == "group" else None
                for c in holder:
                    if c.tag == "t" and is_label(c):
                        txt = c.findall("./s")[0].text
                        if txt in self.labels:
                            self.duplicates.add(txt)
                            continue
                        self.labels[txt] = {"elt": c, "centre": centre_of(c), "group": grp}
                        self.label_order.append(txt)
                    elif c.tag == "fragment" and any(x.tag == "b" for x in c):
                        df = DFragment(c, len(self.fragments))
                        self.fragments.append(df)
                        self._frag_of_elt[c] = df

    def association(self, label):
        """(fragment, how) drawn for `label`, or (None, reason) when the drawing does not settle it.

        settled = the label shares a <group> with exactly one fragment, or the fragment whose centre
        is nearest to the label (both in city-block and in Euclidean distance, among all fragments) lies
        above the label (smaller page y)."""
        L = self.labels[label]
        if L["group"] is not None:
            fr = [c for c in L["group"] if c.tag == "fragment"]
            fr = [self._frag_of_elt[c] for c in fr if c in self._frag_of_elt]
            if len(fr) == 1:
                return fr[0], "group"
            if len(fr) > 1:
                return None, "group-with-several-fragments"
        lx, ly = L["centre"]
        if not self.fragments:
            return None, "no-fragments"
        d1 = sorted(self.fragments, key=lambda f: (abs(f.centre[0] - lx) + abs(f.centre[1] - ly), f.index))
        d2 = sorted(self.fragments, key=lambda f: ((f.centre[0] - lx) ** 2 + (f.centre[1] - ly) ** 2, f.index))
        if d1[0] is d2[0] and d1[0].centre[1] < ly:
            return d1[0], "nearest-above"
        return None, "ambiguous"
