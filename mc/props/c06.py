"""
C06 - copies are faithful and independent; derived molecules never alter their sources.

Bounded-exhaustive matrix executed on the real code:

    source class (7)  x  copy route  x  mutation  x  direction (edit the copy / edit the source)

every cell is a short history on fresh real objects:  build source(s) -> copy -> snapshot both
-> mutate one side -> snapshot both again.  The thorough tier additionally enumerates every chain
of two unary routes (a copy of a copy) and every ordered PAIR of mutations.

Oracle (harness walker `snap`: walks the public accessors only; arrays by value, dictionaries
recursively, parents as a relation, indices; never uses molli's own equality):
  (a) fidelity   - right after copying, every field that both the source class and the result
                   class have is equal (for products: atom/bond records, coordinate and charge rows
                   of the atoms that were carried over);
  (b) independence - the snapshot of the side that was NOT touched is identical before and after the
                   other side was edited;
  (c) an edit that works on the source must work on a copy of the same class.
"""
from __future__ import annotations

import copy as _copy
import pickle
import warnings

import numpy as np

from mc.core import HarnessError

from molli.chem import (
    Atom,
    Bond,
    Promolecule,
    Connectivity,
    CartesianGeometry,
    Structure,
    Molecule,
    ConformerEnsemble,
    Conformer,
    AtomType,
    AtomStereo,
    AtomGeom,
    BondType,
    BondStereo,
)

LEVEL = "model_checking"

import collections
import dataclasses

# kinds of values an attribute dictionary may hold (module level: picklable)
NT = collections.namedtuple("NT", ["n", "s"])


@dataclasses.dataclass(frozen=True)
class DC:
    x: float
    tag: str


_WITH_NT = False  # population "full+nt": the dictionaries additionally hold namedtuples (set by run_cell)


def exotic(seed, ref=None, fref=None, rich=True):
    """dict subclasses, a namedtuple, a frozen dataclass, references to atoms (one of the same object,
    one of a foreign molecule), set / frozenset / bytes / bytearray, a numpy scalar and a 0-d array,
    nested mixes"""
    d = {
        "cnt": collections.Counter({"a": 1, "b": seed + 2}),
        "od": collections.OrderedDict([("z", 1), ("a", seed)]),
        "set": {1, seed + 5},
        "ns": np.float64(1.5 + seed),
        "a0": np.array(2.5 + seed),
    }
    if rich:
        dd = collections.defaultdict(list)
        dd["k"].append(seed)
        d.update({"dd": dd, "dc": DC(1.5, "y"), "fs": frozenset({3, "q"}), "by": b"\x00\x01", "ba": bytearray(b"\x02"), "ni": np.int32(7), "mix": {"c": collections.Counter(x=1), "l": [collections.OrderedDict(q=1), (DC(2.5, "z"),)], "t": (1, [2])}})
    if _WITH_NT:
        # kept in a population of its own: a route that cannot carry a namedtuple RAISES, which would hide
        # what it does to every other kind
        d["nt"] = NT(seed, "x")
        if rich:
            d["mixnt"] = {"l": [(NT(2, "y"),)]}
    if ref is not None:
        d["ref"] = ref
    if fref is not None:
        d["fref"] = fref
    return d

warnings.filterwarnings("ignore")
np.seterr(all="ignore")

class Ligand(Molecule):
    """a user subclass of Molecule (module level: picklable)"""


class Frame(Structure):
    """a user subclass of Structure"""


class Pool(ConformerEnsemble):
    """a user subclass of ConformerEnsemble"""


# user subclasses are sources AND targets of the copy constructors: Sub(Base), Base(Sub), Sub(Sub), Sub(conformer view)
BASE = {"Promolecule": Promolecule, "Connectivity": Connectivity, "CartesianGeometry": CartesianGeometry, "Structure": Structure, "Molecule": Molecule, "Frame": Frame, "Ligand": Ligand}
SOURCES = ["Promolecule", "Connectivity", "CartesianGeometry", "Structure", "Molecule", "ConformerEnsemble", "Conformer", "Frame", "Ligand"]

POSES = [(0.0, 0.0, 0.0), (0.5, -0.25, 1.0), (-1.5, 2.0, 0.25)]
# every row carries values that are NOT representable in float32, at several magnitudes (1e-7 .. 1e3):
# a route that squeezes an array through a narrower type cannot reproduce them
XYZ = [(0.1 + 1e-9, 1e-7, -2e-7), (1.25 + 3e-9, 0.1 + 2e-9, 0.25), (-0.5, 1.0 + 1e-7, 48.123456789), (1234.56789012, 0.875, 0.5 + 1e-9)]
QS = [0.1 + 1e-9, -0.375 - 1e-7, 0.48123456789, 0.25 + 1e-9]
WEIGHTS = [0.7 + 1e-9, 0.3 - 1e-9]
ELEMS = ["C", "O", "H", "H"]
# (a1, a2) as STORED in the bond: mixed directions (index(a1) > index(a2) and <), list not sorted by
# index; atoms 2 and 3 have exactly one bond (attachment points for join)
BONDS = [(3, 1), (0, 1), (2, 0)]


# -------------------------------------------------------------------------------------------------
# building sources (harness values only)
# -------------------------------------------------------------------------------------------------
class Env:
    """what one cell needs to know about a freshly built source"""

    def __init__(self, obj, owner=None, keep=()):
        self.obj = obj
        self.owner = owner  # ConformerEnsemble behind a Conformer
        self.keep = list(keep)


# ---- chiral sources for the product routes (join / concatenate / |) ---------------------------------
# a centre with four different substituents, not planar; atom 4 (H, exactly one bond) is the
# attachment atom.  The second source is the first one moved by a PROPER rigid motion chosen so that
# the two attachment bonds are parallel / antiparallel / in generic relative orientation.
GEOMS = ["chiral-par", "chiral-anti", "chiral-gen"]
CH_ELEMS = ["C", "F", "Cl", "O", "H"]
CH_BONDS = [(0, 1), (2, 0), (0, 3), (4, 0)]  # stored directions mixed
_C0 = (0.1 + 1e-9, 0.2, 0.3 + 1e-7)
CH_XYZ = [_C0] + [tuple(_C0[i] + d[i] for i in range(3)) for d in ((1.3, 0.1, -0.4), (-0.7, 1.5, -0.5), (-0.6, -1.2, -0.45), (0.0, 0.0, 1.09))]
CH_QS = [0.1 + 1e-9, -0.375 - 1e-7, 0.48123456789, 0.25 + 1e-9, -0.2 - 3e-9]
CH_MOVE = {
    # proper rotations with entries 0 / +-1 (det = +1), then a shift
    "chiral-par": lambda p: (p[0] + 8.0, p[1] + 0.5, p[2] - 0.25),  # translation only: attachment bonds parallel
    "chiral-anti": lambda p: (p[0] + 8.0, -p[1] + 0.5, -p[2] - 0.25),  # half turn about x: antiparallel
    "chiral-gen": lambda p: (p[1] + 8.0, p[2] + 0.5, p[0] - 0.25),  # cyclic permutation of the axes: generic
}
_GEOM = "std"  # geometry of the sources being built for the current cell (set by run_cell)


def _chiral():
    return _GEOM != "std"


def bonds_of():
    return CH_BONDS if _chiral() else BONDS


def ap_of():
    """attachment atoms for join: (atom of a, atom of b)"""
    return (4, 4) if _chiral() else AP


POPS = ["full", "full+nt", "bare", "void"]
"""initial condition of the mutable containers AT COPY TIME:
full : every attribute dictionary populated (flat values, nested dicts - one of them empty -, a nested
       list, an ndarray), bonds present
bare : atoms and bonds present, every attribute dictionary (atom, bond, molecule) EMPTY
void : no atoms, no bonds, empty attribute dictionary: every list / array of the object is empty"""


def _atoms(tag, seed, pop="full"):
    v = seed + 1
    at = [
        Atom("C", isotope=13, label=f"c0{tag}", atype=AtomType.sp3, stereo=AtomStereo.R, geom=AtomGeom.R4_Tetrahedral, formal_charge=0, formal_spin=0, attrib={"k": v, "n": {"x": [1, v]}, "arr": np.array([1.5, float(v)])}),
        Atom("O", label=f"o1{tag}", atype=AtomType.Regular, geom=AtomGeom.R2_Bent, formal_charge=-1, attrib={"k": "o", "n": {"x": v}, "z0": 0, "zs": "", "zf": 0.0, "zt": (), "zb": False, "zn": None}),
        Atom("H", isotope=2, label=f"h2{tag}", attrib={"k": 2.5, "n": {}, "l": []}),
        # the FALSY member of every field's domain where that is not the default: isotope 0 (default None),
        # label '' (None), atype Unknown = 0 (Regular); stereo / geom / formal_charge default to their falsy member
        Atom("H", isotope=0, label="", atype=AtomType.Unknown, formal_spin=1, attrib={"n": {"x": None}}),
    ]
    if not _chiral() and pop.startswith("full"):
        foreign = Promolecule([Atom("N", label="foreign", attrib={"k": "f"})]).atoms[0]  # an atom of ANOTHER molecule
        at[0].attrib.update(exotic(seed, ref=at[1], fref=foreign))  # "ref": another atom of the SAME object
    if _chiral():
        at = [
            Atom("C", label=f"c0{tag}", atype=AtomType.sp3, stereo=AtomStereo.R, geom=AtomGeom.R4_Tetrahedral, attrib={"k": v, "n": {"x": [1, v]}}),
            Atom("F", label=f"f1{tag}", attrib={"k": "f"}),
            Atom("Cl", label=f"cl2{tag}", attrib={"n": {}}),
            Atom("O", label=f"o3{tag}", formal_charge=-1, attrib={"k": 0}),
            Atom("H", label=f"h4{tag}", attrib={"k": None}),
        ]
    if not pop.startswith("full"):
        for a in at:
            a.attrib = {}
    return at


def _mol_attrib(seed, pop):
    return {"mk": seed + 1, "mn": {"y": [seed, "s"]}, "me": {}, "arr": np.array([0.5, 2.0]), **exotic(seed, rich=False)} if pop.startswith("full") else {}


def _bond_attrib(j, seed, pop):
    if not pop.startswith("full"):
        return {}
    return {"bk": seed, "bn": {"z": [seed]}, **exotic(seed, rich=False)} if j == 0 else ({"bn": {"z": 0}, "be": {}} if j == 1 else {})


def _coords(seed, conf=0, tag=""):
    p = POSES[seed % len(POSES)]
    if _chiral():
        out = []
        for q in CH_XYZ:
            q = (q[0] + p[0], q[1] + p[1], q[2] + p[2])
            if tag == "b":
                q = CH_MOVE[_GEOM](q)
            out.append([q[0], q[1], q[2] + 4.0 * conf])
        return out
    dz = 4.0 * conf + TAG_DZ[tag]
    return [[x + p[0], y + p[1], z + p[2] + dz] for x, y, z in XYZ]


def _charges(conf=0, tag=""):
    off = TAG_DZ[tag] / 16.0 + conf * 2.0
    return [q + off for q in (CH_QS if _chiral() else QS)]


def build_base(clsname, seed, tag="", pop="full"):
    cls = BASE[clsname]
    if pop == "void":
        return cls(name=f"src{tag}", charge=-1, mult=2)
    kw = {}
    if issubclass(cls, CartesianGeometry):
        kw["coords"] = _coords(seed, 0, tag)
    if issubclass(cls, Molecule):
        kw["atomic_charges"] = _charges(0, tag)
    m = cls(_atoms(tag, seed, pop), name=f"src{tag}", charge=-1, mult=2, **kw)
    m.attrib.update(_mol_attrib(seed, pop))
    if pop.startswith("full") and not _chiral():
        m.attrib["ref"] = m.atoms[2]  # a molecule-level reference to one of its own atoms
    if issubclass(cls, Connectivity):
        for j, (a, b) in enumerate(bonds_of()):
            bd = m.connect(a, b)
            if j == 0:
                bd.label = f"b01{tag}"
                bd.btype = BondType.Double
                bd.stereo = BondStereo.E
                bd.f_order = 2.0
            elif j == 2:
                # falsy and not the default: label '' (None), btype Unknown = 0 (Single), f_order 0.0 (1.0)
                bd.label = ""
                bd.btype = BondType.Unknown
                bd.f_order = 0.0
            bd.attrib.update(_bond_attrib(j, seed, pop))
            if j == 0 and pop.startswith("full") and not _chiral():
                bd.attrib["ref"] = m.atoms[3]
    return m


def build_ensemble(seed, tag="", pop="full"):
    mols = []
    for k in range(2):
        m = build_base("Molecule", seed, tag, pop)
        if pop != "void":
            m.coords = _coords(seed, k, tag)
            m.atomic_charges = _charges(k, tag)
        mols.append(m)
    e = ConformerEnsemble(mols)
    # the ensemble is itself a product of a route that is under test; give it its own, fresh
    # attribute dictionaries so that nothing is shared with the scaffolding molecules
    for a, fresh in zip(e.atoms, _atoms(tag, seed, pop)):
        a.attrib = fresh.attrib
    e.attrib = _mol_attrib(seed, pop)
    for j, b in enumerate(e.bonds):
        b.attrib = _bond_attrib(j, seed, pop)
    if pop.startswith("full") and not _chiral():
        # references to atoms must point into the ensemble itself
        e.atoms[0].attrib["ref"] = e.atoms[1]
        e.attrib["ref"] = e.atoms[2]
        e.bonds[0].attrib["ref"] = e.atoms[3]
    e.weights = list(WEIGHTS)
    return e


XSOURCES = ["Substructure[heavy]", "Substructure[unordered]", "Molecule[atoms-adopted]"]
"""sources whose atoms do not (only) belong to them: a Substructure's atoms belong to its parent
(atom.idx is the position in the PARENT), a Molecule some of whose atoms were later adopted by another
container (Promolecule([..]) takes atoms over by default) has atoms whose parent / idx point elsewhere"""


def build_xsource(name, seed, tag, pop):
    m = build_base("Molecule", seed, tag, pop)
    if name == "Substructure[heavy]":
        return Env(m.heavy, owner=m)
    if name == "Substructure[unordered]":
        return Env(m.substructure([3, 0, 1]), owner=m)
    later = Promolecule([m.atoms[1], m.atoms[0]])  # adopts the two atoms: their parent / idx now refer to `later`
    return Env(m, keep=[later])


def build_source(name, seed, tag="", pop="full"):
    if name in XSOURCES:
        return build_xsource(name, seed, tag, pop)
    if name in BASE:
        return Env(build_base(name, seed, tag, pop))
    e = build_ensemble(seed, tag, pop)
    if name == "ConformerEnsemble":
        return Env(e)
    return Env(e[1], owner=e)


# -------------------------------------------------------------------------------------------------
# the snapshot walker (public accessors only)
# -------------------------------------------------------------------------------------------------
def enc(v, depth=0):
    """canonical, comparable encoding of an attribute value"""
    if depth > 8:
        return ("deep",)
    if isinstance(v, bool):
        return ("bool", v)  # False is not 0
    if v is None or isinstance(v, (str, bytes)):
        return v
    if isinstance(v, (int, np.integer)):
        return int(v)
    if isinstance(v, (float, np.floating)):
        f = float(v)
        return ("float", "NaN" if f != f else f"{f!r}|{f.hex()}")  # 0.0 is not 0; bit for bit (-0.0 != 0.0), NaN == NaN
    if isinstance(v, dict):
        return ("dict", tuple(sorted(((repr(k), enc(x, depth + 1)) for k, x in v.items()))))
    if isinstance(v, (list, tuple)):
        return ("seq", tuple(enc(x, depth + 1) for x in v))
    if isinstance(v, np.ndarray):
        return ("nd", v.shape, str(v.dtype.kind), enc(v.tolist(), depth + 1))
    return ("obj", type(v).__name__, repr(v))


_OWN = {"atoms": {}, "bonds": {}}  # identities of the atoms / bonds of the object being snapshot (set by snap)


def _relation(v):
    if id(v) in _OWN["atoms"]:
        return ("rel", ("own-atom", _OWN["atoms"][id(v)]))
    if id(v) in _OWN["bonds"]:
        return ("rel", ("own-bond", _OWN["bonds"][id(v)]))
    return ("rel", "detached")


def strip_rel(x):
    """the same snapshot without the information WHICH atom a reference inside an attrib points at"""
    if isinstance(x, tuple):
        if len(x) == 2 and x[0] == "rel":
            return ("rel", None)
        return tuple(strip_rel(y) for y in x)
    if isinstance(x, list):
        return [strip_rel(y) for y in x]
    if isinstance(x, dict):
        return {k: strip_rel(v) for k, v in x.items()}
    return x


def _tn(t):
    return f"{t.__module__}.{t.__qualname__}"


def enc_t(v, depth=0):
    """TYPE-exact encoding of a value held in an attribute dictionary: type(x) is type(y) all the way
    down (a Counter is not a dict, a tuple is not a list, numpy.float64 is not float, a namedtuple is
    not a tuple, an Atom is not the dictionary of its fields)"""
    if depth > 8:
        return ("deep",)
    if v is None:
        return None
    t = type(v)
    tn = _tn(t)
    if isinstance(v, (bool, str, bytes)):
        return (tn, v)
    if isinstance(v, bytearray):
        return (tn, bytes(v))
    if isinstance(v, (float, np.floating)):
        f = float(v)
        return (tn, "NaN" if f != f else f"{f!r}|{f.hex()}")
    if isinstance(v, (int, np.integer)):
        return (tn, int(v))
    if isinstance(v, dict):
        items = [(repr(k), enc_t(x, depth + 1)) for k, x in v.items()]
        if not isinstance(v, collections.OrderedDict):
            items.sort(key=lambda kv: kv[0])
        fac = getattr(v, "default_factory", None)
        return ("dict", tn, None if fac is None else _tn(fac) if isinstance(fac, type) else repr(fac), tuple(items))
    if isinstance(v, (list, tuple)):
        return ("seq", tn, tuple(enc_t(x, depth + 1) for x in v))
    if isinstance(v, (set, frozenset)):
        return ("set", tn, tuple(sorted((enc_t(x, depth + 1) for x in v), key=repr)))
    if isinstance(v, np.ndarray):
        return ("nd", tn, v.shape, v.dtype.str, enc_t(v.tolist(), depth + 1))
    if isinstance(v, Atom):
        return ("Atom", tn, tuple((f, enc(getattr(v, f))) for f in ATOM_FIELDS), enc_t(v.attrib, depth + 1), _relation(v))
    if isinstance(v, Bond):
        return ("Bond", tn, tuple((f, enc(getattr(v, f))) for f in BOND_FIELDS), _relation(v))
    return ("obj", tn, repr(v))


def _rel(getter, owners):
    try:
        p = getter()
    except Exception as e:
        return "raises:" + type(e).__name__
    if p is None:
        return "none"
    return "self" if any(p is o for o in owners) else "other"


ATOM_FIELDS = ("element", "isotope", "label", "atype", "stereo", "geom", "formal_charge", "formal_spin")
BOND_FIELDS = ("label", "btype", "stereo", "f_order")


def _get(fn):
    """an accessor that raises is an observation, not a crash of the walker"""
    try:
        return fn()
    except Exception as e:
        return "raises:" + type(e).__name__


def snap_atom(a, owners, pos):
    d = {f: _get(lambda f=f: enc(getattr(a, f))) for f in ATOM_FIELDS}
    d["attrib"] = _get(lambda: enc_t(a.attrib))
    d["parent"] = _rel(lambda: a.parent, owners)
    if d["parent"] == "self":
        d["idx"] = _get(lambda: a.idx)
    else:
        d["idx"] = "n/a"
    return d


def snap(obj, owner=None):
    """everything the public accessors of `obj` return, as a nested comparable structure"""
    owners = (obj,) if owner is None else (obj, owner)
    s = {}
    try:
        _OWN["atoms"] = {id(a): i for i, a in enumerate(obj.atoms)}
    except Exception:
        _OWN["atoms"] = {}
    try:
        _OWN["bonds"] = {id(b): j for j, b in enumerate(obj.bonds)} if isinstance(obj, Connectivity) else {}
    except Exception:
        _OWN["bonds"] = {}
    s["name"] = _get(lambda: enc(obj.name))
    s["charge"] = _get(lambda: enc(obj.charge))
    s["mult"] = _get(lambda: enc(obj.mult))
    s["attrib"] = _get(lambda: enc_t(obj.attrib))
    atoms = _get(lambda: list(obj.atoms))
    if isinstance(atoms, str):
        s["atoms"] = atoms
        return s
    s["n_atoms"] = _get(lambda: obj.n_atoms)
    s["atoms"] = [snap_atom(a, owners, i) for i, a in enumerate(atoms)]
    pos = {id(a): i for i, a in enumerate(atoms)}
    if isinstance(obj, Connectivity):
        bonds = _get(lambda: list(obj.bonds))
        if isinstance(bonds, str):
            s["bonds"] = bonds
        else:
            bl = []
            for b in bonds:
                d = {f: _get(lambda f=f: enc(getattr(b, f))) for f in BOND_FIELDS}
                d["a1"] = pos.get(id(b.a1), "foreign")
                d["a2"] = pos.get(id(b.a2), "foreign")
                d["attrib"] = _get(lambda: enc_t(b.attrib))
                d["parent"] = _rel(lambda: b.parent, owners)
                bl.append(d)
            s["bonds"] = bl
            s["n_bonds"] = _get(lambda: obj.n_bonds)
    if isinstance(obj, (CartesianGeometry, ConformerEnsemble)):
        s["coords"] = _get(lambda: enc(np.asarray(obj.coords)))
    if isinstance(obj, (Molecule, ConformerEnsemble)):
        s["atomic_charges"] = _get(lambda: enc(np.asarray(obj.atomic_charges)))
    if isinstance(obj, ConformerEnsemble):
        s["weights"] = _get(lambda: enc(np.asarray(obj.weights)))
        s["n_conformers"] = _get(lambda: obj.n_conformers)
    return s


def _sub_containers(v, path, out, depth=0):
    """v and every dict / list / ndarray reachable inside it"""
    if depth > 8:
        return
    if isinstance(v, dict):
        out.append((path, v))
        for k, x in v.items():
            _sub_containers(x, path + (repr(k),), out, depth + 1)
    elif isinstance(v, list):
        out.append((path, v))
        for i, x in enumerate(v):
            _sub_containers(x, path + (i,), out, depth + 1)
    elif isinstance(v, tuple):
        for i, x in enumerate(v):
            _sub_containers(x, path + (i,), out, depth + 1)
    elif isinstance(v, (np.ndarray, set, bytearray, Atom, Bond)):
        out.append((path, v))  # mutable leaves (a referenced Atom / Bond is a mutable record)


def reach(obj, owner=None):
    """every mutable object reachable from `obj` through the public accessors: the attribute
    dictionaries of the object, its atoms and its bonds (recursively: nested dicts, lists, arrays),
    the atom / bond lists and records themselves, the coordinate / charge / weight arrays.
    -> list of (path, object)"""
    out = []
    for o in (obj,) if owner is None else (obj, owner):
        try:
            _sub_containers(o.attrib, ("attrib",), out)
        except Exception:
            pass
        try:
            atoms = o.atoms
            out.append((("atoms",), atoms))
            for i, a in enumerate(atoms):
                out.append((("atoms", i), a))
                _sub_containers(a.attrib, ("atoms", i, "attrib"), out)
        except Exception:
            pass
        if isinstance(o, Connectivity):
            try:
                bonds = o.bonds
                out.append((("bonds",), bonds))
                for j, b in enumerate(bonds):
                    out.append((("bonds", j), b))
                    _sub_containers(b.attrib, ("bonds", j, "attrib"), out)
            except Exception:
                pass
        for fld in ("coords", "atomic_charges", "weights"):
            try:
                v = getattr(o, fld)
            except Exception:
                continue
            if isinstance(v, np.ndarray):
                out.append(((fld,), v))
    return out


def _is_empty(c):
    if isinstance(c, np.ndarray):
        return c.size == 0
    if isinstance(c, (dict, list, set, bytearray)):
        return len(c) == 0
    return False


def aliases(reach_src, reach_cp):
    """containers reachable from the copy that ARE (or, for arrays, share memory with) a container
    reachable from the source.  -> list of (path on the copy, path on the source, empty?)"""
    by_id = {}
    arrays = []
    for path, c in reach_src:
        if isinstance(c, np.ndarray):
            arrays.append((path, c))
        else:
            by_id.setdefault(id(c), (path, c))
    out = []
    seen = set()
    for path, c in reach_cp:
        if isinstance(c, np.ndarray):
            for p2, c2 in arrays:
                if c is c2 or (c.size and c2.size and np.shares_memory(c, c2)):
                    if (path, p2) not in seen:
                        seen.add((path, p2))
                        out.append((path, p2, _is_empty(c)))
        elif id(c) in by_id and by_id[id(c)][1] is c:
            if (path, by_id[id(c)][0]) not in seen:
                seen.add((path, by_id[id(c)][0]))
                out.append((path, by_id[id(c)][0], _is_empty(c)))
    return out


def diff(a, b, path=()):
    """paths at which two snapshots differ"""
    if isinstance(a, dict) and isinstance(b, dict):
        out = []
        for k in sorted(set(a) | set(b)):
            if k not in a or k not in b:
                out.append(path + (k,))
            else:
                out += diff(a[k], b[k], path + (k,))
        return out
    if isinstance(a, list) and isinstance(b, list):
        if len(a) != len(b):
            return [path + ("len",)]
        out = []
        for i, (x, y) in enumerate(zip(a, b)):
            out += diff(x, y, path + (i,))
        return out
    return [] if a == b else [path]


def prune(paths):
    """an index is only defined relative to the parent: where the parent relation itself differs,
    the index difference is the same finding"""
    core = lambda q: q[:-1] if q and isinstance(q[-1], str) and q[-1].startswith("[") else q
    par = {core(q)[:-1] for q in paths if core(q) and core(q)[-1] == "parent"}
    return [q for q in paths if not (core(q) and core(q)[-1] == "idx" and core(q)[:-1] in par)]


def norm_path(p):
    """class-level name of a snapshot path: indices -> *, nothing below an attrib dictionary"""
    out = ""
    mark = ""
    if p and isinstance(p[-1], str) and p[-1].startswith("[") and p[-1].endswith("]"):
        mark, p = p[-1], p[:-1]
    return _norm_path(p) + mark


def _norm_path(p):
    out = ""
    for x in p:
        if isinstance(x, int):
            out += "[*]"
        else:
            out += ("." if out else "") + str(x)
        if x == "attrib":
            break
    return out


def digest(s):
    import hashlib

    return hashlib.blake2b(repr(s).encode(), digest_size=8).hexdigest()


# -------------------------------------------------------------------------------------------------
# copy routes
# -------------------------------------------------------------------------------------------------
# unary routes: name -> (kind, function(obj) -> copy)
def unary_routes():
    r = {}
    for d, cls in BASE.items():
        r[f"ctor:{d}"] = ("copy-ctor", (lambda c: (lambda o: c(o)))(cls))
    r["ctor:ConformerEnsemble"] = ("copy-ctor", lambda o: ConformerEnsemble(o))
    r["ctor:Pool"] = ("copy-ctor", lambda o: Pool(o))
    r["pickle"] = ("pickle", lambda o: pickle.loads(pickle.dumps(o)))
    r["deepcopy"] = ("deepcopy", lambda o: _copy.deepcopy(o))
    return r


def unary_applicable(rname, obj):
    """the copy constructors the class hierarchy defines (same class, super- and sub-classes along
    Promolecule < {Connectivity, CartesianGeometry} < Structure < Molecule; an ensemble is a
    Connectivity)"""
    if rname in ("pickle", "deepcopy"):
        return True
    d = rname.split(":")[1]
    if d in ("ConformerEnsemble", "Pool"):
        return isinstance(obj, ConformerEnsemble)  # ConformerEnsemble(ens); (mol) -> see ensemble-from-list
    if isinstance(obj, ConformerEnsemble):
        return d in ("Promolecule", "Connectivity")
    return True


# the same OBJECT several times among the sources of one call: pattern over the distinct objects a, b
REPEAT = {"concatenate[a,a]": "aa", "concatenate[a,a,a]": "aaa", "concatenate[a,b,a]": "aba", "or[a,a]": "aa"}
BINARY = ["concatenate", "or", "join", "ensemble-from-list", "concatenate3", "concatenate4"] + list(REPEAT)  # product routes
NSRC = {"concatenate3": 3, "concatenate4": 4}
TAGS = ["", "b", "c", "d"]
TAG_DZ = {"": 0.0, "b": 8.0, "c": 16.0, "d": 24.0}
AP = (2, 3)  # attachment atoms for join: atom 2 of a, atom 3 of b


def binary_apply(rname, a, b):
    if rname == "concatenate":
        cls = Molecule if isinstance(a, Molecule) else Structure
        return cls.concatenate(a, b)
    if rname == "or":
        return a | b
    if rname == "join":
        cls = Molecule if isinstance(a, Molecule) else Structure
        return cls.join(a, b, *ap_of())
    if rname == "ensemble-from-list":
        return ConformerEnsemble([a, b])
    raise HarnessError(rname)


def nary_shrink(obj, tag):
    """sources of different sizes for the n-ary routes: the third has 3 atoms / 2 bonds, the fourth
    2 atoms / 1 bond (built with the library's own del_atom, which is C05's subject)"""
    if tag in ("c", "d") and obj.n_atoms > 3:
        obj.del_atom(3)
    if tag == "d" and obj.n_atoms > 2:
        obj.del_atom(2)


def binary_applicable(rname, srcname):
    if rname in NSRC or rname in REPEAT:
        return srcname in ("Structure", "Molecule")
    return _binary_applicable(rname, srcname)


def _binary_applicable(rname, srcname):
    if rname == "ensemble-from-list":
        return srcname == "Molecule"
    return srcname in ("Structure", "Molecule", "Conformer")


# -------------------------------------------------------------------------------------------------
# fidelity: which fields of the result are compared with which fields of the source(s)
# -------------------------------------------------------------------------------------------------
def fidelity_unary(s_src, s_cp):
    """every field both classes have"""
    out = []
    for k in sorted(set(s_src) & set(s_cp)):
        if isinstance(s_src[k], str) and s_src[k].startswith("raises:"):
            continue  # the source itself cannot answer (a Substructure has no name / charge / mult)
        out += diff(s_src[k], s_cp[k], (k,))
    return out


def _atom_core(d):
    return {k: v for k, v in d.items() if k != "idx"}


def fidelity_concat(snaps, sp):
    """concatenate(s1, .., sn): the product lists the atoms of s1, then s2, ...; every product bond
    joins the copies of the atoms its source bond joins (ORDERED end points by position, offset by
    the sizes of ALL earlier sources); rows and charges are stacked in the same order"""
    out = []
    src_atoms = [d for sn in snaps for d in sn["atoms"]]
    if sp["n_atoms"] != len(src_atoms):
        return [("atoms", "len")]
    for i, d in enumerate(src_atoms):
        out += diff(_atom_core(d), _atom_core(sp["atoms"][i]), ("atoms", i))
        if sp["atoms"][i]["parent"] == "self" and sp["atoms"][i]["idx"] != i:
            out.append(("atoms", i, "idx"))
    exp = []
    off = 0
    for sn in snaps:
        for d in sn["bonds"]:
            e = dict(d)
            e["a1"], e["a2"] = d["a1"] + off, d["a2"] + off
            exp.append(e)
        off += sn["n_atoms"]
    if len(sp["bonds"]) != len(exp):
        out.append(("bonds", "len"))
    else:
        for i, (x, y) in enumerate(zip(exp, sp["bonds"])):
            out += diff(x, y, ("bonds", i))
    if "coords" in sp:
        rows = ()
        for sn in snaps:
            rows += sn["coords"][3][1]
        out += diff(("nd", (len(src_atoms), 3), "f", ("seq", rows)), sp["coords"], ("coords",))
    if "atomic_charges" in sp and all("atomic_charges" in sn for sn in snaps):
        qs = ()
        for sn in snaps:
            qs += sn["atomic_charges"][3][1]
        out += diff(("nd", (len(src_atoms),), "f", ("seq", qs)), sp["atomic_charges"], ("atomic_charges",))
    return out


def fidelity_product(rname, sa, sb, sp):
    """atom and bond records, coordinate and charge rows of everything that was carried over;
    name / charge / mult / attrib of a product follow combination rules (C12) and the geometry of
    a join is C12's subject too."""
    out = []
    na, nb = sa["n_atoms"], sb["n_atoms"]
    if rname == "ensemble-from-list":
        if sp["n_atoms"] != na:
            return [("atoms", "len")]
        for i in range(na):
            out += diff(sa["atoms"][i], sp["atoms"][i], ("atoms", i))
        out += diff(sa["bonds"], sp["bonds"], ("bonds",))
        exp_c = ("nd", (2,) + sa["coords"][1], "f", ("seq", (sa["coords"][3], sb["coords"][3])))
        out += diff(exp_c, sp["coords"], ("coords",))
        exp_q = ("nd", (2,) + sa["atomic_charges"][1], "f", ("seq", (sa["atomic_charges"][3], sb["atomic_charges"][3])))
        out += diff(exp_q, sp["atomic_charges"], ("atomic_charges",))
        return out
    if rname in ("concatenate", "or"):
        keep_a, keep_b = list(range(na)), list(range(nb))
    else:
        keep_a = [i for i in range(na) if i != ap_of()[0]]
        keep_b = [i for i in range(nb) if i != ap_of()[1]]
    src_atoms = [sa["atoms"][i] for i in keep_a] + [sb["atoms"][i] for i in keep_b]
    if sp["n_atoms"] != len(src_atoms):
        return [("atoms", "len")]
    for i, d in enumerate(src_atoms):
        out += diff(_atom_core(d), _atom_core(sp["atoms"][i]), ("atoms", i))
        if sp["atoms"][i]["idx"] != i and sp["atoms"][i]["parent"] == "self":
            out.append(("atoms", i, "idx"))
    # bonds carried over (renumbered)
    ma = {old: new for new, old in enumerate(keep_a)}
    mb = {old: new + len(keep_a) for new, old in enumerate(keep_b)}
    exp = []
    for sbonds, mp in ((sa["bonds"], ma), (sb["bonds"], mb)):
        for d in sbonds:
            if d["a1"] in mp and d["a2"] in mp:
                e = dict(d)
                e["a1"], e["a2"] = mp[d["a1"]], mp[d["a2"]]
                exp.append(e)
    got = sp["bonds"][: len(exp)]
    if len(sp["bonds"]) != len(exp) + (1 if rname == "join" else 0):
        out.append(("bonds", "len"))
    else:
        for i, (x, y) in enumerate(zip(exp, got)):
            # end points are an ORDERED pair (bond_vector, the mol2 text depend on which is a1)
            if (x["a1"], x["a2"]) != (y["a1"], y["a2"]):
                out.append(("bonds", i, "a1" if x["a1"] != y["a1"] else "a2"))
            x2, y2 = dict(x), dict(y)
            for k in ("a1", "a2"):
                x2.pop(k)
                y2.pop(k)
            out += diff(x2, y2, ("bonds", i))
    if rname in ("concatenate", "or") and "coords" in sp:
        exp_c = ("nd", (na + nb, 3), "f", ("seq", sa["coords"][3][1] + sb["coords"][3][1]))
        out += diff(exp_c, sp["coords"], ("coords",))
    if "atomic_charges" in sp and "atomic_charges" in sa and "atomic_charges" in sb:
        qa, qb = sa["atomic_charges"][3][1], sb["atomic_charges"][3][1]
        exp_q = ("nd", (len(src_atoms),), "f", ("seq", tuple(qa[i] for i in keep_a) + tuple(qb[i] for i in keep_b)))
        out += diff(exp_q, sp["atomic_charges"], ("atomic_charges",))
    return out


# -------------------------------------------------------------------------------------------------
# mutations
# -------------------------------------------------------------------------------------------------
def _has_bonds(o):
    return isinstance(o, Connectivity) and o.n_bonds > 0


def _geom(o):
    return isinstance(o, (CartesianGeometry, ConformerEnsemble))


def _q(o):
    return isinstance(o, (Molecule, ConformerEnsemble))


def _m_add_atom(o, s):
    a = Atom("N", label="added", attrib={"k": "new"})
    if isinstance(o, Molecule):
        o.add_atom(a, [9.0, 8.0, 7.0], 0.5)
    elif isinstance(o, CartesianGeometry):
        o.add_atom(a, [9.0, 8.0, 7.0])
    else:
        o.append_atom(a)


def _m_coords_inplace(o, s):
    c = o.coords
    c[(0,) * (c.ndim - 1)] += 1.0 + s


def _m_coords_assign(o, s):
    o.coords = np.asarray(o.coords) + (2.0 + s)


def _m_q_inplace(o, s):
    q = o.atomic_charges
    q[(0,) * q.ndim] = 9.0 + s


def _set(o, name, v):
    setattr(o, name, v)


def _nested(d):
    """every dict / list / ndarray strictly inside the dictionary d"""
    out = []
    _sub_containers(d, (), out)
    return [c for p, c in out if p != ()]


def _write_flat(dicts, v):
    """insert a key (the FIRST one, when the dictionary was empty at copy time) into every dictionary"""
    n = 0
    for d in dicts:
        d["new"] = v
        n += 1
    if not n:
        raise _NA()


def _write_nested(dicts, v):
    """write into every container nested inside the dictionaries"""
    n = 0
    for d in dicts:
        for c in _nested(d):
            if isinstance(c, dict):
                c["nn"] = v
            elif isinstance(c, list):
                c.append(v)
            elif isinstance(c, set):
                c.add(("nn", v))
            elif isinstance(c, bytearray):
                c.append(v % 256)
            elif isinstance(c, np.ndarray):
                c[(0,) * c.ndim] = 41.0 + v
            else:
                continue  # a referenced Atom / Bond: its own fields are edited by the atom mutations
            n += 1
    if not n:
        raise _NA()


def _hint(o, s):
    """the annotation add_implicit_hydrogens consumes (the CDXML reader writes it), on every heavy atom"""
    n = 0
    for a in o.atoms:
        if a.element.symbol != "H":
            a.attrib["__implicit_hydrogens"] = 1
            n += 1
    if not n:
        raise _NA()


class _NA(Exception):
    pass


def _nz(o):
    return o.n_atoms > 0


# name -> (applicable(obj), function(obj, seed)).  Attribute-dictionary edits go to EVERY atom / bond
# (not a sample), so every container is exercised; the index of field edits rotates with the seed.
MUTATIONS = {
    "atom.label": (_nz, lambda o, s: _set(o.atoms[s % o.n_atoms], "label", "mut")),
    "atom.element": (_nz, lambda o, s: _set(o.atoms[s % o.n_atoms], "element", "S")),
    "atom.formal_charge": (_nz, lambda o, s: _set(o.atoms[s % o.n_atoms], "formal_charge", 3)),
    "atom.attrib[k]": (_nz, lambda o, s: _write_flat([a.attrib for a in o.atoms], 7 + s)),
    "atom.attrib[k][j]": (_nz, lambda o, s: _write_nested([a.attrib for a in o.atoms], 99 + s)),
    "atom.attrib[hint]": (_nz, _hint),
    "bond.label": (_has_bonds, lambda o, s: _set(o.bonds[s % o.n_bonds], "label", "mutb")),
    "bond.btype": (_has_bonds, lambda o, s: _set(o.bonds[s % o.n_bonds], "btype", BondType.Triple)),
    "bond.attrib[k]": (_has_bonds, lambda o, s: _write_flat([b.attrib for b in o.bonds], 5 + s)),
    "bond.attrib[k][j]": (_has_bonds, lambda o, s: _write_nested([b.attrib for b in o.bonds], 77 + s)),
    "mol.attrib[k]": (lambda o: True, lambda o, s: _write_flat([o.attrib], 3 + s)),
    "mol.attrib[k][j]": (lambda o: True, lambda o, s: _write_nested([o.attrib], 13 + s)),
    "coords[i]+=": (lambda o: _geom(o) and _nz(o), _m_coords_inplace),
    "coords=": (lambda o: _geom(o) and _nz(o), _m_coords_assign),
    "atomic_charges[i]=": (lambda o: _q(o) and _nz(o), _m_q_inplace),
    "name=": (lambda o: True, lambda o, s: _set(o, "name", "renamed")),
    "charge=": (lambda o: True, lambda o, s: _set(o, "charge", 5)),
    "add_atom": (lambda o: True, _m_add_atom),
    "del_atom": (_nz, lambda o, s: o.del_atom(s % o.n_atoms)),
    "connect": (lambda o: isinstance(o, Connectivity) and o.n_atoms > 2, lambda o, s: o.connect(1, 2)),
    "del_bond": (_has_bonds, lambda o, s: o.del_bond(o.bonds[s % o.n_bonds])),
    "add_implicit_hydrogens": (lambda o: isinstance(o, Structure), lambda o, s: o.add_implicit_hydrogens()),
    "scale": (_geom, lambda o, s: o.scale(2.0)),
    "translate": (_geom, lambda o, s: o.translate([1.0, 2.0, 3.0 + s])),
    "weights[i]=": (lambda o: isinstance(o, ConformerEnsemble), lambda o, s: o.weights.__setitem__(0, 9.0)),
}
MUT_NAMES = list(MUTATIONS)
# the library-routine direction the property names: an annotation written on one side, the routine
# that consumes annotations run on the OTHER side
CROSS = [("atom.attrib[hint]", "add_implicit_hydrogens"), ("atom.attrib[k]", "add_implicit_hydrogens"), ("mol.attrib[k]", "add_implicit_hydrogens")]


def apply_mut(name, obj, seed):
    """-> None | exception name.  Applicability is a static table on the class; a mutation that is
    applicable and raises is an observation."""
    ok, fn = MUTATIONS[name]
    try:
        if not ok(obj):
            return "n/a"
    except Exception:
        return "n/a"
    try:
        fn(obj, seed)
    except _NA:
        return "n/a"
    except Exception as e:
        return "raised:" + type(e).__name__
    return None


# -------------------------------------------------------------------------------------------------
# one cell
# -------------------------------------------------------------------------------------------------
class Side:
    """an object of a cell with the (possibly several) objects whose snapshot describes it"""

    def __init__(self, label, obj, owner=None):
        self.label = label
        self.obj = obj
        self.owner = owner

    def labels(self):
        return [self.label] + ([self.label + ".ensemble"] if self.owner is not None else [])

    def reach(self):
        return reach(self.obj, self.owner)

    def snaps(self):
        out = {self.label: snap(self.obj, self.owner)}
        if self.owner is not None:
            out[self.label + ".ensemble"] = snap(self.owner)
        return out


def make_copy(ctx, cell):
    """build the source(s) and run the route(s).  -> (sources [Side], copies [Side] (last = result), route kind, error)"""
    seed = ctx.seed
    src = cell["src"]
    route = cell["route"]
    pop = cell.get("pop", "full")
    env_a = build_source(src, seed, "", pop)
    sources = [Side("source", env_a.obj, env_a.owner)]
    keep = [env_a]
    ur = unary_routes()
    nops = 1
    if route[0] in BINARY:
        for tag in TAGS[1 : NSRC.get(route[0], 2)]:
            env_x = build_source(src, seed, tag, pop)
            nary_shrink(env_x.obj, tag)
            keep.append(env_x)
            sources.append(Side("source_" + tag, env_x.obj, env_x.owner))
        kind = "concatenate" if route[0] in ("or", "concatenate3", "concatenate4") or route[0] in REPEAT else route[0]  # a | b is the operator spelling of concatenate
        try:
            if route[0] in REPEAT:
                args = [sources[0].obj if ch == "a" else sources[1].obj for ch in REPEAT[route[0]]]
                if route[0].startswith("or"):
                    p = args[0] | args[1]
                else:
                    cls = Molecule if isinstance(env_a.obj, Molecule) else Structure
                    p = cls.concatenate(*args)
            elif route[0] in NSRC:
                cls = Molecule if isinstance(env_a.obj, Molecule) else Structure
                p = cls.concatenate(*[sd.obj for sd in sources])
            else:
                p = binary_apply(route[0], env_a.obj, sources[1].obj)
        except Exception as e:
            return sources, [], kind, e, keep, nops
        return sources, [Side("copy", p)], kind, None, keep, nops
    copies = []
    cur = env_a.obj
    kind = None
    for j, rn in enumerate(route):
        k, fn = ur[rn]
        kind = k if kind is None else (kind if k in kind.split("+") else kind + "+" + k)
        try:
            nxt = fn(cur)
        except Exception as e:
            return sources, copies, kind, e, keep, nops
        nops += 1
        owner = None
        if isinstance(nxt, Conformer):
            owner = getattr(nxt, "_parent", None)
        copies.append(Side("copy" if j == len(route) - 1 else f"intermediate{j}", nxt, owner))
        cur = nxt
    return sources, copies, kind, None, keep, nops


def sig(kind, symptom):
    return f"{kind}:{symptom}"


def run_cell(ctx, cell, report=True):
    """executes one cell (with the source geometry the cell names); returns an outcome digest"""
    global _GEOM, _WITH_NT
    _GEOM = cell.get("geom", "std")
    _WITH_NT = cell.get("pop") == "full+nt"
    try:
        return _run_cell(ctx, cell)
    finally:
        _GEOM = "std"
        _WITH_NT = False


_FRAG_DETAIL = {}


def _det3(a, b, c):
    return a[0] * (b[1] * c[2] - b[2] * c[1]) - a[1] * (b[0] * c[2] - b[2] * c[0]) + a[2] * (b[0] * c[1] - b[1] * c[0])


def fragment_geometry(rname, a, b, p):
    """every fragment of a product is a PROPER rigid image of its source: all distances inside the
    fragment are the source's, and every signed volume (atom quadruple in list order) keeps its sign
    and size - a mirror image has the same distances and fields, only the signed volumes flip.
    (Where the fragments end up relative to each other is C12's subject.)"""
    out = []
    try:
        ca, cb, cp = np.asarray(a.coords, float).tolist(), np.asarray(b.coords, float).tolist(), np.asarray(p.coords, float).tolist()
    except Exception:
        return out
    na, nb = len(ca), len(cb)
    if rname == "join":
        keep_a = [i for i in range(na) if i != ap_of()[0]]
        keep_b = [i for i in range(nb) if i != ap_of()[1]]
    else:
        keep_a, keep_b = list(range(na)), list(range(nb))
    if len(cp) != len(keep_a) + len(keep_b):
        return out  # reported by the record comparison
    frags = [([ca[i] for i in keep_a], cp[: len(keep_a)]), ([cb[i] for i in keep_b], cp[len(keep_a) :])]
    for k, (src_xyz, prd_xyz) in enumerate(frags):
        m = len(src_xyz)
        if m < 2 or any(x != x for r in src_xyz + prd_xyz for x in r):
            continue
        scale = max(1.0, max(abs(x) for r in src_xyz for x in r))
        for i in range(m):
            for j in range(i + 1, m):
                ds = sum((src_xyz[i][t] - src_xyz[j][t]) ** 2 for t in range(3)) ** 0.5
                dp = sum((prd_xyz[i][t] - prd_xyz[j][t]) ** 2 for t in range(3)) ** 0.5
                if abs(ds - dp) > 1e-9 * scale:
                    out.append(("fragment", k, "distances"))
                    _FRAG_DETAIL[("fragment", k)] = f"distance between atoms {i} and {j} of fragment {k + 1}: {ds!r} in the source, {dp!r} in the product"
                    break
            else:
                continue
            break
        for i in range(m - 3):
            q = [i, i + 1, i + 2, i + 3]
            vs = _det3(*[[src_xyz[q[t]][u] - src_xyz[q[0]][u] for u in range(3)] for t in (1, 2, 3)])
            vp = _det3(*[[prd_xyz[q[t]][u] - prd_xyz[q[0]][u] for u in range(3)] for t in (1, 2, 3)])
            if abs(vs) > 1e-6 and abs(vs - vp) > 1e-8 * max(1.0, abs(vs)) * scale:
                out.append(("fragment", k, "handedness" if abs(vs + vp) <= 1e-8 * max(1.0, abs(vs)) * scale else "signed-volume"))
                _FRAG_DETAIL[("fragment", k)] = f"signed volume of atoms {q} of fragment {k + 1}: {vs!r} in the source, {vp!r} in the product"
                break
    return out


# -------------------------------------------------------------------------------------------------
# composite sources: ONE pickle / deepcopy call that covers an object TOGETHER WITH references into it
# -------------------------------------------------------------------------------------------------
COMPOSITES = ["tuple(obj,atom,bond,coords)", "tuple(atom,bond,coords,obj)", "dict(sites,bond,mol)", "list(obj,obj)", "tuple(view,owner)", "tuple(a,b)"]


def make_composite(kind, src, seed):
    env = build_source(src, seed, "", "full")
    o = env.obj
    has_b = isinstance(o, Connectivity) and o.n_bonds > 1
    arr = o.coords if isinstance(o, (CartesianGeometry, ConformerEnsemble)) and not isinstance(o, Conformer) else None
    if kind == "tuple(obj,atom,bond,coords)":
        return (o, o.atoms[1], o.bonds[0] if has_b else None, arr), env
    if kind == "tuple(atom,bond,coords,obj)":
        return (o.atoms[1], o.bonds[0] if has_b else None, arr, o), env
    if kind == "dict(sites,bond,mol)":
        return {"sites": [o.atoms[2], o.atoms[0]], "bond": o.bonds[1] if has_b else None, "mol": o}, env
    if kind == "list(obj,obj)":
        return [o, o], env
    if kind == "tuple(view,owner)":
        if src == "Conformer":
            return (o, env.owner, env.owner[0]), env
        if src == "ConformerEnsemble":
            return (o[1], o, o[1]), env
        return None, env
    if kind == "tuple(a,b)":
        env_b = build_source(src, seed, "b", "full")
        env.keep.append(env_b)
        return (o, env_b.obj), env
    raise HarnessError(kind)


def _leaves(c):
    if isinstance(c, dict):
        out = []
        for k in sorted(c):
            out += _leaves(c[k])
        return out
    if isinstance(c, (list, tuple)):
        out = []
        for x in c:
            out += _leaves(x)
        return out
    return [c]


def describe(comp):
    """the reference STRUCTURE of a composite: which leaf is which object, whose atom i / bond j / array,
    which conformer of which ensemble - by identity, relative to the objects of this very composite"""
    leaves = _leaves(comp)
    objs = []
    for x in leaves:
        if isinstance(x, Promolecule) and not any(x is y for y in objs):
            objs.append(x)
    # an ensemble that is only reachable through a conformer still counts as "its" ensemble
    out = []
    for x in leaves:
        if x is None:
            out.append(None)
        elif isinstance(x, Promolecule):
            k = next(i for i, y in enumerate(objs) if y is x)
            d = ("obj", type(x).__name__, k)
            if isinstance(x, Conformer):
                ens = [i for i, y in enumerate(objs) if isinstance(y, ConformerEnsemble) and x.atoms is y.atoms]
                same = [i for i in ens if x.n_atoms and np.shares_memory(x.coords, objs[i].coords)]
                d += (("conformer-of", tuple(same)),)
            out.append(d)
        elif isinstance(x, Atom):
            hit = [(k, i) for k, y in enumerate(objs) for i, a in enumerate(y.atoms) if a is x]
            out.append(("atom", tuple(hit)))
        elif isinstance(x, Bond):
            hit = [(k, j) for k, y in enumerate(objs) if isinstance(y, Connectivity) for j, b in enumerate(y.bonds) if b is x]
            out.append(("bond", tuple(hit)))
        elif isinstance(x, np.ndarray):
            hit = [k for k, y in enumerate(objs) if isinstance(y, (CartesianGeometry, ConformerEnsemble)) and y.coords is x]
            out.append(("array", tuple(hit)))
        else:
            out.append(("other", type(x).__name__))
    return out


def run_composite(ctx, cell):
    seed = ctx.seed
    src, kind, route = cell["src"], cell["comp"], cell["route"][0]
    comp, env = make_composite(kind, src, seed)
    case = dict(cell)
    case["seed"] = seed
    ctx.count(evaluations=1, traces=1, transitions=1)
    if comp is None:
        return
    fn = unary_routes()[route][1]
    try:
        cp = fn(comp)
    except Exception as e:
        ctx.violation(sig(route, f"raises[composite:{src}]"), f"{route} of {kind} around a {src} raised {type(e).__name__}: {e}", case)
        return
    ds, dc = describe(comp), describe(cp)
    key = (src, kind, route)
    ctx.nontrivial(key)
    ctx.outcome(digest((key, dc)))
    if type(cp) is not type(comp) or len(ds) != len(dc):
        ctx.violation(sig(route, "composite:shape-changed"), f"{route} of {kind} around a {src}: the container came back as {type(cp).__name__} with {len(dc)} leaves", case)
        return
    for i, (a, b) in enumerate(zip(ds, dc)):
        if a != b:
            what = a[0] if isinstance(a, tuple) else "none"
            if what == "obj" and isinstance(b, tuple) and b[0] == "obj" and a[:3] != b[:3]:
                what = "same-object-twice" if kind == "list(obj,obj)" else "obj"
            elif what == "obj":
                what = "conformer-of-its-ensemble"
            ctx.violation(
                sig(route, f"composite:reference-structure-lost:{what}"),
                f"{route} of {kind} around a {src}: leaf {i} was {a} relative to the objects of the composite, in the copy it is {b} "
                "(a copied reference must be the copy's own atom / bond / array; the same object twice stays one object)",
                case,
            )
            return
    # every object of the copy is a faithful, independent copy of its original
    so = [x for x in _leaves(comp) if isinstance(x, Promolecule)]
    co = [x for x in _leaves(cp) if isinstance(x, Promolecule)]
    for x, y in zip(so, co):
        ox = getattr(x, "_parent", None) if isinstance(x, Conformer) else None
        oy = getattr(y, "_parent", None) if isinstance(y, Conformer) else None
        fd = prune(fidelity_unary(snap(x, ox), snap(y, oy)))
        for pth in sorted(set(norm_path(q) for q in fd)):
            ctx.violation(sig(route, f"copy-differs:{pth}"), f"{route} of {kind} around a {src}: field {pth} of a copied object differs from its original", case)
        for pc, ps, empty in aliases(reach(x, ox), reach(y, oy)):
            ctx.violation(sig(route, f"shared-state:{norm_path(pc)}"), f"{route} of {kind} around a {src}: copy.{pc} is the original's {ps}", case)
            break


def _run_cell(ctx, cell):
    if cell.get("comp"):
        return run_composite(ctx, cell)
    seed = ctx.seed
    src, route, muts, direction = cell["src"], cell["route"], cell["muts"], cell["dir"]
    sources, copies, kind, err, keep, nops = make_copy(ctx, cell)
    ctx.count(evaluations=1, traces=1, transitions=nops)
    case = dict(cell)
    case["seed"] = seed
    if err is not None:
        if len(route) == 1 and len(muts) == 1:
            ctx.add_note(f"dirty|{src}|{route[0]}")
        ctx.violation(sig(kind, f"raises[{src}]"), f"{'/'.join(route)} of a {src} raised {type(err).__name__}: {err}", case, repro=repro_of(cell, seed))
        return ("route-raised", type(err).__name__)
    result = copies[-1]
    # ---- (a) fidelity -----------------------------------------------------------------------
    s_before = {}
    for sd in sources + copies:
        s_before.update(sd.snaps())
    ur = unary_routes()
    last_kind = kind if route[0] in BINARY else ur[route[-1]][0]
    checks = []  # (kind label, reference label, paths)
    # WHICH atom a reference inside an attrib points at is demanded on the generic routes only: pickle and
    # deepcopy re-point it at the copy's own atom; the constructors / products make a detached deep copy
    generic = lambda k: all(x in ("pickle", "deepcopy") for x in k.split("+"))
    cmpv = lambda label, k: s_before[label] if generic(k) else strip_rel(s_before[label])
    if route[0] in REPEAT:
        # judged like distinct sources: the k-th occurrence of a source is a fragment of its own
        snaps = [strip_rel(s_before["source" if ch == "a" else "source_b"]) for ch in REPEAT[route[0]]]
        fc = [q + ("[same-object-repeated]",) for q in fidelity_concat(snaps, strip_rel(s_before["copy"]))]
        checks.append((kind, "source", fc))
    elif route[0] in NSRC:
        checks.append((kind, "source", fidelity_concat([strip_rel(s_before[sd.label]) for sd in sources], strip_rel(s_before["copy"]))))
    elif route[0] in BINARY:
        fp = fidelity_product(route[0], strip_rel(s_before["source"]), strip_rel(s_before["source_b"]), strip_rel(s_before["copy"]))
        if route[0] != "ensemble-from-list":
            fp = fp + fragment_geometry(route[0], sources[0].obj, sources[1].obj, result.obj)
        checks.append((kind, "source", fp))
    elif len(route) == 1:
        fu = fidelity_unary(cmpv("source", kind), cmpv("copy", kind))
        if src in XSOURCES:
            # the parent / idx an atom of such a source reports refer to ANOTHER container by construction
            fu = [q for q in fu if not (q[0] == "atoms" and q[-1] in ("parent", "idx"))]
        checks.append((kind, "source", fu))
    else:
        # a copy of a copy: against the object it was made from (that is the last route, applied to a
        # source that happens to be a copy), and against the original on the fields every class
        # along the chain has
        mid = f"intermediate{len(route) - 2}"
        checks.append((last_kind, mid, fidelity_unary(cmpv(mid, last_kind), cmpv("copy", last_kind))))
        common = set(s_before["source"]) & set(s_before["copy"])
        for j in range(len(route) - 1):
            common &= set(s_before[f"intermediate{j}"])
        checks.append((kind, "source", [q for q in fidelity_unary(cmpv("source", kind), cmpv("copy", kind)) if q[0] in common]))
    bad = False
    for klabel, ref, fd in checks:
        fd = prune(fd)
        for p in sorted(set(norm_path(p) for p in fd)):
            bad = True
            first = next(q for q in fd if norm_path(q) == p)
            if first and isinstance(first[-1], str) and first[-1].startswith("["):
                first = first[:-1]
            ctx.violation(
                sig(klabel, f"copy-differs:{p}"),
                f"{'/'.join(route)} of a {src}" + (f" [{cell['geom']}]" if cell.get("geom") else "") + f": field {p} of the result differs from the {ref} "
                + (f"({_FRAG_DETAIL.get(first[:2], '')}: a fragment of the product is not a proper rigid image of its source)" if first[0] == "fragment" else f"(first at {first}: {_at(s_before[ref], first)!r} -> {_at(s_before['copy'], first)!r})"),
                case,
                repro=repro_of(cell, seed),
            )
    # ---- (b0) identity: nothing mutable reachable from the result may BE (or share memory with)
    #      something reachable from what it was made from - whether or not it is empty right now
    pairs = [(sd, kind) for sd in sources]
    if len(copies) > 1:
        pairs = [(sources[0], kind), (copies[-2], last_kind)]
    r_cp = result.reach()
    flagged = set()
    for sd, klabel in pairs:
        for pc, ps, empty in aliases(sd.reach(), r_cp):
            npth = norm_path(pc)
            sfx = "[empty-at-copy-time]" if empty else ""
            if (klabel, npth, sfx) in flagged:
                continue
            flagged.add((klabel, npth, sfx))
            bad = True
            ctx.violation(
                sig(klabel, f"shared-state:{npth}{sfx}"),
                f"{'/'.join(route)} of a {src} [{cell.get('pop', 'full')}]: {'the (empty) ' if empty else ''}object at copy.{'.'.join(map(str, pc))} IS the object at "
                f"{sd.label}.{'.'.join(map(str, ps))} (same Python object / shared memory): the first in-place write on either side shows on the other",
                case,
                repro=repro_of(cell, seed),
            )
    flagged_paths = {(k, p) for k, p, _ in flagged}
    # ---- mutate: one edit after the other, each on the side its direction names -------------------
    dirs = cell.get("dirs") or [direction] * len(muts)
    outcomes = []
    changed_self = False
    s_prev = s_before
    for mname, d in zip(muts, dirs):
        side = result if d == "copy" else sources[0]
        r = apply_mut(mname, side.obj, seed)
        ctx.count(transitions=1)
        outcomes.append(r)
        if r is not None and r.startswith("raised:") and not bad and d == "copy" and route[0] not in BINARY and type(side.obj) is type(sources[0].obj) and len(muts) == 1:
            # (c) the same edit on a fresh source of the same class
            ref = build_source(src, seed, "", cell.get("pop", "full"))
            r2 = apply_mut(mname, ref.obj, seed)
            if r2 is None:
                bad = True
                ctx.violation(
                    sig(kind, f"edit-fails-on-copy-only:{mname}"),
                    f"{mname} works on a {src} but raises {r[7:]} on its {'/'.join(route)} copy",
                    case,
                    repro=repro_of(cell, seed),
                )
        # ---- (b) independence: whatever was not edited in this step is unchanged by it ----------
        s_now = {}
        for sd in sources + copies:
            s_now.update(sd.snaps())
        touched = set(side.labels())  # a conformer and its ensemble are one object for this purpose
        changed_self = changed_self or any(s_prev[k] != s_now[k] for k in touched)
        # pairs that are this cell's business: (source(s), result) and, in a chain, (last intermediate,
        # result); source <-> intermediate is the single-route cell of the first route
        if d == "copy":
            watch = [(k, kind) for sd in sources for k in sd.labels()]
            if len(copies) > 1:
                watch += [(k, last_kind) for k in copies[-2].labels()]
        else:
            watch = [(k, kind) for k in result.labels()]
            if route[0] in BINARY:
                watch += [(k, kind) for sd in sources[1:] for k in sd.labels()]
        step_bad = False
        for k, klabel in watch:
            if k in touched:
                continue
            dd = diff(s_prev[k], s_now[k])
            for pth in sorted(set(norm_path(q) for q in dd)):
                step_bad = True
                if (klabel, pth) in flagged_paths:
                    continue  # the identity check named this very container already
                first = next(q for q in dd if norm_path(q) == pth)
                sfx = "[empty-at-copy-time]" if _empty_container_at(s_before[k], first) else ""
                ctx.violation(
                    sig(klabel, f"shared-state:{pth}{sfx}"),
                    f"{'/'.join(route)} of a {src} [{cell.get('pop', 'full')}]: {mname} on the {'copy' if d == 'copy' else 'source'} (history {'+'.join(muts)} on {'/'.join(dirs)}) changed {k}.{pth} "
                    f"({_at(s_prev[k], first)!r} -> {_at(s_now[k], first)!r})",
                    case,
                    repro=repro_of(cell, seed),
                )
        s_prev = s_now
        if step_bad:
            bad = True
            break  # nothing is explored beyond a violating step
    key = (src, cell.get("pop", "full"), cell.get("geom", "std"), "/".join(route), "+".join(muts), "/".join(dirs))
    if bad and len(route) == 1 and len(muts) == 1:
        ctx.add_note(f"dirty|{src}|{route[0]}")
    if changed_self:
        ctx.nontrivial(key)
    out = (tuple(outcomes), changed_self, bad, digest(s_prev.get("copy")), digest(s_prev.get("source")))
    ctx.outcome(digest(out))
    return out


def _empty_container_at(snapshot, path):
    """was the attribute dictionary this path leads into empty when the copy was made?"""
    cur = snapshot
    try:
        for x in path:
            cur = cur[x]
            if x == "attrib":
                return isinstance(cur, tuple) and cur[0] == "dict" and cur[-1] == ()
    except Exception:
        return False
    return False


def _at(s, path):
    try:
        for x in path:
            if x == "len":
                return f"len={len(s)}"
            s = s[x]
        if isinstance(s, tuple) and len(repr(s)) > 120:
            return repr(s)[:117] + "..."
        return s
    except Exception:
        return "<absent>"


# -------------------------------------------------------------------------------------------------
# python repro (imports only molli)
# -------------------------------------------------------------------------------------------------
def repro_of(cell, seed):
    try:
        return _repro_of(cell, seed)
    except Exception as e:
        return f"# (no script: {type(e).__name__})"


def _repro_chiral(cell, seed):
    g = cell["geom"]
    move = {"chiral-par": "p + [8.0, 0.5, -0.25]", "chiral-anti": "p * [1, -1, -1] + [8.0, 0.5, -0.25]", "chiral-gen": "p[:, [1, 2, 0]] + [8.0, 0.5, -0.25]"}[g]
    call = {"join": "Molecule.join(a, b, 4, 4)", "concatenate": "Molecule.concatenate(a, b)", "or": "a | b"}[cell["route"][0]]
    n1 = 4 if cell["route"][0] == "join" else 5
    return "\n".join(
        [
            "import numpy as np",
            "from molli.chem import *",
            f"p = np.array({[list(x) for x in CH_XYZ]!r})   # C(F)(Cl)(O)H : a stereocentre; atom 4 (H) is the attachment atom",
            "def build(xyz):",
            "    m = Molecule([Atom(e) for e in ['C', 'F', 'Cl', 'O', 'H']], coords=xyz)",
            "    for i, j in [(0, 1), (2, 0), (0, 3), (4, 0)]: m.connect(i, j)",
            "    return m",
            f"a, b = build(p), build({move})   # b = a moved by a proper rigid motion ({g}: attachment bonds {g.split('-')[1]})",
            f"prod = {call}",
            "vol = lambda x: float(np.linalg.det(np.asarray(x[1:4]) - np.asarray(x[0])))",
            f"print('signed volume C,F,Cl,O   source a:', vol(a.coords), ' fragment 1 of the product:', vol(prod.coords[:4]))",
            f"print('signed volume C,F,Cl,O   source b:', vol(b.coords), ' fragment 2 of the product:', vol(prod.coords[{n1}:{n1}+4]))",
        ]
    )


def _repro_of(cell, seed):
    if cell.get("geom"):
        return _repro_chiral(cell, seed)
    src, route, muts, direction = cell["src"], cell["route"], cell["muts"], cell["dir"]
    pop = cell.get("pop", "full")
    dirs = cell.get("dirs") or [direction] * len(muts)
    L = ["import pickle, copy, numpy as np", "from molli.chem import *", ""]
    if pop == "void":
        L += ["def build(tag=''):", "    return Molecule(name='src'+tag, charge=-1, mult=2)   # no atoms, no bonds, empty attrib", ""]
    else:
        full = pop.startswith("full")
        L += [
            "def build(tag=''):",
            "    atoms = [Atom('C', label='c0'+tag), Atom('O', label='o1'+tag), Atom('H', label='h2'+tag), Atom('H', isotope=0, label='', atype=AtomType.Unknown)]",
            f"    m = Molecule(atoms, name='src'+tag, charge=-1, mult=2, coords={_coords(seed)!r}, atomic_charges={_charges()!r})",
            f"    for a, b in {BONDS!r}:   # stored direction (a1, a2), deliberately mixed",
            "        m.connect(a, b)",
            "    m.bonds[2].label, m.bonds[2].btype, m.bonds[2].f_order = '', BondType.Unknown, 0.0   # falsy, not the defaults",
        ]
        if full:
            L += [
                "    for a in m.atoms: a.attrib.update({'k': 1, 'n': {'x': [1]}, 'e': {}})",
                "    for b in m.bonds: b.attrib.update({'bk': 1, 'bn': {'z': [1]}, 'be': {}})",
                "    m.attrib.update({'mk': 1, 'mn': {'y': [1]}, 'me': {}})",
            ]
        else:
            L += ["    # every attribute dictionary (atoms, bonds, molecule) is EMPTY at copy time"]
        L += ["    return m", ""]
    if src in BASE:
        L.append(f"src = {src}(build())" if src != "Molecule" else "src = build()")
        if src != "Molecule":
            L.append("# (the harness builds the source class directly; shown here through its copy constructor for brevity)")
        L.append(f"src_b = {src}(build('b'))" if src != "Molecule" else "src_b = build('b')")
    else:
        L.append("ens = ConformerEnsemble([build(), build()])")
        L.append("ens_b = ConformerEnsemble([build('b'), build('b')])")
        if src == "ConformerEnsemble":
            L.append("src, src_b = ens, ens_b")
        else:
            L.append("src, src_b = ens[1], ens_b[1]")
    expr = {
        "pickle": "pickle.loads(pickle.dumps({x}))",
        "deepcopy": "copy.deepcopy({x})",
        "concatenate": "(Molecule if isinstance(src, Molecule) else Structure).concatenate(src, src_b)",
        "or": "src | src_b",
        "join": "(Molecule if isinstance(src, Molecule) else Structure).join(src, src_b, 2, 3)",
        "ensemble-from-list": "ConformerEnsemble([src, src_b])",
    }
    cur = "src"
    for rn in route:
        if rn.startswith("ctor:"):
            e = f"{rn[5:]}({cur})"
        else:
            e = expr[rn].format(x=cur)
        L.append(f"cp = {e}")
        cur = "cp"
    nest = "[c.__setitem__('nn', 9) if isinstance(c, dict) else c.append(9) for d in ({ds}) for c in d.values() if isinstance(c, (dict, list))]"
    code = {
        "atom.label": "{x}.atoms[0].label = 'mut'",
        "atom.element": "{x}.atoms[0].element = 'S'",
        "atom.formal_charge": "{x}.atoms[0].formal_charge = 3",
        "atom.attrib[k]": "for a in {x}.atoms: a.attrib['new'] = 7",
        "atom.attrib[k][j]": nest.format(ds="a.attrib for a in {x}.atoms"),
        "atom.attrib[hint]": "for a in {x}.atoms: a.attrib.update({{'__implicit_hydrogens': 1}} if a.element.symbol != 'H' else {{}})",
        "bond.label": "{x}.bonds[0].label = 'mutb'",
        "bond.btype": "{x}.bonds[0].btype = BondType.Triple",
        "bond.attrib[k]": "for b in {x}.bonds: b.attrib['new'] = 5",
        "bond.attrib[k][j]": nest.format(ds="b.attrib for b in {x}.bonds"),
        "mol.attrib[k]": "{x}.attrib['new'] = 3",
        "mol.attrib[k][j]": nest.format(ds="[{x}.attrib]"),
        "coords[i]+=": "{x}.coords[(0,) * ({x}.coords.ndim - 1)] += 1.0",
        "coords=": "{x}.coords = {x}.coords + 2.0",
        "atomic_charges[i]=": "{x}.atomic_charges[(0,) * {x}.atomic_charges.ndim] = 9.0",
        "name=": "{x}.name = 'renamed'",
        "charge=": "{x}.charge = 5",
        "add_atom": "{x}.add_atom(Atom('N'), [9.0, 8.0, 7.0]) if hasattr({x}, 'add_atom') else {x}.append_atom(Atom('N'))",
        "del_atom": "{x}.del_atom(0)",
        "connect": "{x}.connect(1, 2)",
        "del_bond": "{x}.del_bond({x}.bonds[0])",
        "add_implicit_hydrogens": "{x}.add_implicit_hydrogens()",
        "scale": "{x}.scale(2.0)",
        "translate": "{x}.translate([1.0, 2.0, 3.0])",
        "weights[i]=": "{x}.weights[0] = 9.0",
    }
    L.append("def show(o):")
    L.append("    return repr(dict(name=o.name, attrib=o.attrib, atoms=[(a.label, a.element, a.formal_charge, a.attrib) for a in o.atoms],")
    L.append("                bonds=[(b.label, b.btype, b.attrib) for b in getattr(o, 'bonds', [])], coords=getattr(o, 'coords', None), q=getattr(o, 'atomic_charges', None)))")
    L.append("print('bonds (a1, a2, label, btype, f_order)  source:', [(src.atoms.index(b.a1), src.atoms.index(b.a2), b.label, b.btype, b.f_order) for b in getattr(src, 'bonds', [])])")
    L.append("print('bonds (a1, a2, label, btype, f_order)  copy  :', [(cp.atoms.index(b.a1), cp.atoms.index(b.a2), b.label, b.btype, b.f_order) for b in getattr(cp, 'bonds', [])])")
    L.append("print('atom fields source:', [(a.isotope, a.label, a.atype) for a in src.atoms], ' copy:', [(a.isotope, a.label, a.atype) for a in cp.atoms])")
    L.append("print('same dict object on both sides:', [a.attrib is b.attrib for a, b in zip(cp.atoms, src.atoms)], cp.attrib is src.attrib)")
    L.append("print('nested containers that are the same object:', [k for a, b in zip(list(cp.atoms) + [cp], list(src.atoms) + [src]) for k, v in a.attrib.items() if isinstance(v, (dict, list)) and v is b.attrib.get(k)])")
    for m, d in zip(muts, dirs):
        side = "cp" if d == "copy" else "src"
        other = "src" if d == "copy" else "cp"
        L.append(f"before = show({other})")
        L.append(code[m].format(x=side) + f"        # {m} on the {d}")
        L.append(f"print('{m} on the {d} changed the other side:', before != show({other}))")
    return "\n".join(L)


# -------------------------------------------------------------------------------------------------
# the matrix
# -------------------------------------------------------------------------------------------------
def _routes_for(seed):
    ur = unary_routes()
    routes_for = {}
    for s in SOURCES:
        probe = build_source(s, seed).obj
        rs = [(rn,) for rn in ur if unary_applicable(rn, probe)]
        rs += [(bn,) for bn in BINARY if binary_applicable(bn, s)]
        routes_for[s] = rs
    return routes_for


def _pop_ok(pop, route):
    return not (pop == "void" and route[0] == "join")  # a join needs attachment atoms


def cells(ctx):
    """first wave: source x population x route x (mutation x direction  +  cross histories)"""
    seed = ctx.seed
    routes_for = _routes_for(seed)
    muts = MUT_NAMES[seed % len(MUT_NAMES) :] + MUT_NAMES[: seed % len(MUT_NAMES)]
    out = []
    for s in SOURCES:
        for pop in POPS:
            for r in routes_for[s]:
                if not _pop_ok(pop, r):
                    continue
                if pop == "full+nt":
                    # the same routes with namedtuples in the dictionaries: decided when the copy is made
                    for d in ("copy", "source"):
                        out.append({"src": s, "pop": pop, "route": list(r), "muts": ["atom.attrib[k]"], "dir": d})
                    continue
                for m in muts:
                    for d in ("copy", "source"):
                        out.append({"src": s, "pop": pop, "route": list(r), "muts": [m], "dir": d})
                if pop == "full" and r[0] in ("join", "concatenate", "or"):
                    # chiral sources, attachment bonds parallel / antiparallel / generic: is every fragment of
                    # the product a proper rigid image of its source?  (decided when the product is made)
                    for g in GEOMS:
                        for d in ("copy", "source"):
                            out.append({"src": s, "pop": pop, "geom": g, "route": list(r), "muts": ["coords[i]+="], "dir": d})
                if pop == "void":
                    continue
                # an annotation written on one side, the library routine that reads annotations on the other
                for m1, m2 in CROSS:
                    for d1, d2 in (("copy", "source"), ("source", "copy")):
                        out.append({"src": s, "pop": pop, "route": list(r), "muts": [m1, m2], "dir": d1, "dirs": [d1, d2]})
    for s in SOURCES:
        for kind in COMPOSITES:
            for r in ("pickle", "deepcopy"):
                out.append({"src": s, "pop": "full", "comp": kind, "route": [r], "muts": [], "dir": "copy"})
    for s in XSOURCES:
        for d in BASE:
            for m in muts:
                for dr in ("copy", "source"):
                    out.append({"src": s, "pop": "full", "route": [f"ctor:{d}"], "muts": [m], "dir": dr})
    return out, routes_for, muts


def cells2(ctx, routes_for, muts, dirty):
    """second wave (thorough): copies of copies, and every ordered pair of edits both on one side and
    on opposite sides - only on top of (source, route) combinations whose first-wave cells were all
    clean (a route that already violates the property is a damaged state: nothing is explored
    beyond it)"""
    seed = ctx.seed
    ur = unary_routes()
    out = []
    # the user subclasses add nothing to the second wave that Structure / Molecule do not already carry
    # (budget): they stay in the first wave, as sources and as targets
    WAVE2 = [x for x in SOURCES if x not in ("Frame", "Ligand")]
    # chains of two unary routes: the class of the first copy decides what applies next
    for s in WAVE2:
        for (r1,) in [r for r in routes_for[s] if r[0] not in BINARY and (s, r[0]) not in dirty]:
            try:
                mid = ur[r1][1](build_source(s, seed).obj)
            except Exception:
                continue  # reported by the single-route cell
            for r2 in ur:
                if not unary_applicable(r2, mid):
                    continue
                for pop in POPS:
                    for m in muts:
                        for d in ("copy", "source"):
                            out.append({"src": s, "pop": pop, "route": [r1, r2], "muts": [m], "dir": d})
    # every ordered pair of mutations on every single route
    for s in WAVE2:
        for r in [r for r in routes_for[s] if (s, r[0]) not in dirty]:
            for pop in ("full", "bare"):
                if not _pop_ok(pop, r):
                    continue
                for m1 in muts:
                    for m2 in muts:
                        if m1 == m2:
                            continue
                        for d1, d2 in (("copy", "copy"), ("source", "source"), ("copy", "source"), ("source", "copy")):
                            if pop == "bare" and d1 == d2:
                                continue  # same-side pairs differ from the single cells only through the first edit's effect
                            out.append({"src": s, "pop": pop, "route": list(r), "muts": [m1, m2], "dir": d1, "dirs": [d1, d2]})
    return out


def _observe_repeats(ctx):
    """join(a, a, ap1, ap2): the same fragment OBJECT as both arguments.  Measured, not judged: on the
    tree this was written against it raises (both attachment atoms are dropped from both copies while the
    coordinates are computed for one dropped atom each), i.e. it is not a supported call."""
    obs = {}
    for cname in ("Structure", "Molecule"):
        a = build_base(cname, ctx.seed, "")
        try:
            p = type(a).join(a, a, *AP)
            obs[f"{cname}.join(a, a)"] = f"{p.n_atoms} atoms, {p.n_bonds} bonds"
        except Exception as e:
            obs[f"{cname}.join(a, a)"] = f"raised {type(e).__name__}: {e}"
        ctx.count(transitions=1)
    ctx.note("observation_join_with_the_same_object_twice(not judged)", obs)


def _self_check(ctx):
    """the numeric alphabets really are outside float32 (otherwise a precision loss would be invisible)"""
    for s in ("Molecule", "ConformerEnsemble"):
        o = build_source(s, ctx.seed).obj
        for fld in ("coords", "atomic_charges", "weights"):
            a = getattr(o, fld, None)
            if a is None:
                continue
            a = np.asarray(a, dtype=np.float64)
            rows = a.reshape(-1, a.shape[-1]) if a.ndim > 1 else a.reshape(-1, 1)
            lossy = rows.astype(np.float32).astype(np.float64) != rows
            if not lossy.any(axis=1).all():
                raise HarnessError(f"C06 alphabet: {s}.{fld} has a row that survives a float32 round trip")


def _work(sub, part):
    for cell in part:
        run_cell(sub, cell)
    n = 0
    for cell in part[:: max(1, len(part) // 2)]:
        if n < 2:
            sub.sample(cell)
            n += 1


def run(ctx):
    ctx.rule = (
        "full matrix source class x copy route x mutation x direction, each cell a short history on fresh real objects; "
        "a cell is non-trivial when the edit really changed the snapshot of the edited side (otherwise independence is "
        "trivially true); states = distinct cells, transitions = library operations executed (routes + edits)"
    )
    ctx.assumptions += [
        "fidelity compares the fields that both the source class and the result class have (a Promolecule copy of a Molecule "
        "cannot carry bonds, a Structure has no partial charges): the table is the class hierarchy itself",
        "for products (concatenate, |, join, ConformerEnsemble([..])) the atom and bond records, coordinate rows and partial "
        "charges of the atoms carried over are compared; name/charge/mult/attrib of a product and the geometry of a join are "
        "combination rules (C12), not copies",
        "join / concatenate / | additionally run on CHIRAL sources whose attachment bonds are parallel, antiparallel and in generic "
        "orientation; every fragment of the product must be a proper rigid image of its source: intra-fragment distances equal "
        "(1e-9 relative) and signed volumes of atom quadruples equal in sign and size - where the fragments are placed relative "
        "to each other stays C12's subject",
        "composite sources: one pickle / deepcopy call over a tuple / dict / list that holds an object together with references to "
        "its atoms, a bond, its coords array, a Conformer with its ensemble, the same object twice, two unrelated objects; the copy "
        "must preserve the reference structure (a copied reference IS the copy's own atom i / bond j / coords array, the same object "
        "twice stays one object, a conformer stays a view of the copied ensemble) - what the generic __reduce_ex__ route of HEAD "
        "guarantees; likewise a reference to an own atom / bond inside an attrib must point at the copy's own atom / bond after pickle "
        "and deepcopy",
        "user subclasses (class Ligand(Molecule), class Frame(Structure), class Pool(ConformerEnsemble)) are sources and targets of "
        "the copy constructors like the library classes: Sub(Base), Base(Sub), Sub(Sub), Sub(conformer view); oracle unchanged",
        "copy constructors also run on sources whose atoms belong (also) to another container: Substructure (heavy atoms; an "
        "unordered atom list) and a Molecule two of whose atoms were later adopted by Promolecule([...]); for these the parent / idx "
        "an atom reports refer to the other container by construction and are not compared, fields the source cannot answer (a "
        "Substructure has no name / charge / mult) are skipped; bonds must join the copies of the same atoms BY POSITION, ordered",
        "concatenate with 3 and 4 sources of different sizes (Structure, Molecule): every product bond joins the copies of the "
        "atoms its source bond joins (ordered end points offset by the sizes of all earlier sources), rows and charges stacked in "
        "order.  The same OBJECT several times among the sources of one call (a, a / a, a, a / a, b, a; concatenate and |) is judged "
        "like distinct sources: the k-th occurrence is a fragment of its own.  join(a, a) raises on HEAD (not a supported call): "
        "measured and written to the notes, not judged",
        "a | b of two Molecules returns a Structure, which has no partial charges: not compared for that route",
        "coordinates, partial charges and weights are compared bit for bit (NaN == NaN) on every route: none of them goes through "
        "a text or library format; the source values are not representable in float32 (1e-7 ... 1e3)",
        "what attrib may hold: Counter, defaultdict, OrderedDict, a namedtuple, a frozen dataclass, references to atoms (same object "
        "and foreign), set / frozenset / bytes / bytearray, numpy scalars and 0-d arrays, nested mixes - at atom, bond and molecule "
        "level.  The walker compares the exact type recursively (type(x) is type(y)).  A reference to an atom must arrive as an Atom "
        "with equal fields that is not the source's object; WHICH atom it is is not demanded: on HEAD pickle / deepcopy re-point it at "
        "the copy's corresponding atom, the copy constructors / concatenate / join produce a detached deep copy of it (recorded, "
        "taken as the rule).  Library codecs (msgpack) are C01's subject, only copy routes are judged here",
        "attribute dictionaries are compared recursively by value; 'shares no mutable state' includes nested "
        "containers inside attribute dictionaries",
        "bonds are snapshot as ORDERED (index(a1), index(a2)) pairs plus every field; the sources store bonds in mixed directions "
        "and not sorted by index.  Every field of atoms and bonds occurs with the falsy member of its domain where that is not the "
        "default (isotope 0, label '', AtomType.Unknown, BondType.Unknown, f_order 0.0; 0 / '' / 0.0 / () / False / None inside attrib) "
        "and with a non-default truthy one; values are compared with their kind (None vs '' vs 0 vs 0.0 vs False; enum members by value)",
        "parent is compared as a relation (the atom's parent is the object it is listed in, or the ensemble behind a conformer)",
        "copy.copy and Substructure are shallow/views by definition and not part of the claim; ConformerEnsemble(molecule) is a "
        "constructor that allocates empty conformers, not a copy route",
        "an edit that is not defined for a class (add_implicit_hydrogens on a Promolecule, renaming a Conformer, ...) leaves "
        "the cell in the matrix: whatever it did, the other side must be unchanged",
    ]
    _self_check(ctx)
    _observe_repeats(ctx)
    allc, routes_for, muts = cells(ctx)
    ctx.bound["cells_single"] = len(allc)
    ctx.bound["sources"] = SOURCES + XSOURCES
    ctx.bound["routes"] = {s: ["/".join(r) for r in rs] for s, rs in routes_for.items()}
    ctx.bound["mutations"] = MUT_NAMES
    ctx.bound["populations_at_copy_time"] = POPS
    ctx.bound["composite_sources_for_pickle_and_deepcopy"] = COMPOSITES
    ctx.bound["product_route_geometries"] = ["std"] + GEOMS
    ctx.bound["cross_histories"] = [list(c) for c in CROSS]
    nparts = 32 if ctx.thorough else 16
    parts = [p for p in (allc[i::nparts] for i in range(nparts)) if p]
    ctx.pmap(_work, parts)
    ctx.count(states=len(allc))
    dirty = set()
    for k in list(ctx.notes):
        if k.startswith("dirty|"):
            _, s, r = k.split("|")
            dirty.add((s, r))
            del ctx.notes[k]
    ctx.note("route_combinations", sum(len(v) for v in routes_for.values()))
    ctx.note("route_combinations_violating", sorted(f"{s}:{r}" for s, r in dirty))
    if ctx.thorough:
        more = cells2(ctx, routes_for, muts, dirty)
        ctx.bound["cells_chains_and_pairs"] = len(more)
        ctx.bound["route_chain_length"] = 2
        ctx.bound["mutations_per_cell"] = 2
        nparts = 64
        parts = [p for p in (more[i::nparts] for i in range(nparts)) if p]
        if parts:
            ctx.pmap(_work, parts)
        ctx.count(states=len(more))


def replay(ctx, case):
    ctx.seed = case.get("seed", ctx.seed)
    cell = {"src": case["src"], "pop": case.get("pop", "full"), "route": list(case["route"]), "muts": list(case["muts"]), "dir": case["dir"]}
    if case.get("dirs"):
        cell["dirs"] = list(case["dirs"])
    if case.get("geom"):
        cell["geom"] = case["geom"]
    if case.get("comp"):
        cell["comp"] = case["comp"]
    run_cell(ctx, cell)
