"""
C18 - jobmap computes each item once, reuses only valid results, resumes cleanly.

Explicit-state exploration of histories of real `molli.pipeline.jobmap` runs:

  initial configuration = job kind (single / vectorised over 2 conformers) x per-unit scripted outcome
      {S succeed, F fail, FS fail-then-succeed, O succeed-but-omit-the-return-file,
       W fail-after-writing-the-file} x destination pre-populated with every subset of the source keys
      x optional destination-only (foreign) key
  step = (cache action {none, delete output of unit u, corrupt output of unit u}, job kwargs {same, changed},
          destination {same, fresh empty one}) followed by one jobmap run

The file-system state of a history node (destination, cache dir, attempt counters) is snapshotted and
restored for every sibling, so every tree node costs one jobmap run.  Nodes are deduplicated by the
reference model's state.  `molli.pipeline.job._run_local` (the seam jobmap dispatches through: a
ThreadPoolExecutor calling the `_molli_run` console script in a subprocess) is replaced by an in-process
call of the real `runner.run_local`; the thorough tier repeats a stated subset with the unmodified
subprocess runner.

Reference model (independent of molli):  dest' = dest U {k: post(out_k) | every command of every unit of k
succeeded and the return file exists}; a unit is executed iff its key is not in the destination and it has no
cached output (same input, success); executions are observed through counter files the commands append to.
"""
from __future__ import annotations

import os

os.environ.setdefault("TQDM_DISABLE", "1")  # before tqdm is imported by molli

import atexit
import contextlib
import copy
import hashlib
import io
import itertools
import linecache
import logging
import shlex
import shutil
import signal
import sys
import traceback
from pathlib import Path

import numpy as np

from mc.core import HarnessError

import molli as ml
from molli.pipeline.driver import DriverBase
from molli.pipeline.job import Job, JobInput, JobOutput, jobmap
import molli.pipeline.job as _jobmod
import molli.pipeline.runner as _runner
from molli.storage import Collection, UkvCollectionBackend

LEVEL = "model_checking"

SCRIPTS = ("S", "F", "FS", "O", "W")
TAGS = ("A", "B")
FOREIGN = "zz"
FOREIGN_VALUE = b"foreign-value"
JOBMAP_TIMEOUT = 600

# unit -> script; read by the driver's prep (set by the harness before every run)
PLAN: dict = {}


# -------------------------------------------------------------------------------------------------
# harness-defined driver in the style of XTBDriver
# -------------------------------------------------------------------------------------------------
def unit_of(M):
    """(key, conformer index or None): conformer i of the source ensembles has coords[0,0] == i."""
    if isinstance(M, ml.chem.Conformer):
        return (M.name, int(round(float(M.coords[0][0]))))
    return (M.name, None)


def unit_name(u):
    return u[0] if u[1] is None else f"{u[0]}.{u[1]}"


def shell_text(script, uname, tag, mdir, to_file=True, letter=None, extra=False, slow=False):
    """The two commands of a unit.  A script is a string of per-attempt outcomes (the last one repeats):
    S succeed, F fail (exit 3, nothing produced), O succeed but produce nothing, W produce the result and
    then fail in the second command.  "FS" = fail, then succeed; "SF" = succeed, then fail; ..."""
    m = shlex.quote(str(mdir))
    cnt = f"{m}/{uname}.cnt"
    # the result goes into the declared return file, or to stdout for jobs that declare none
    # `letter`: shell text that yields the input's identifying letter (default: the literal tag)
    write = f"printf %s {uname}:{letter or tag}:n$n" + (" > res.txt" if to_file else "")
    # K / G: the first command produces the result and is then killed by SIGKILL / SIGSEGV (the runner sees a
    # NEGATIVE return code); Z: killed by SIGKILL before producing anything
    # E: succeeds and leaves an EMPTY result (a 0-byte return file); Y: succeeds with a one-byte result, no newline
    empty = ": > res.txt" if to_file else ":"
    onebyte = "printf x" + (" > res.txt" if to_file else "")
    first = {"S": write, "F": "exit 3", "O": ":", "W": write, "K": write + "; kill -KILL $$", "G": write + "; kill -SEGV $$", "Z": "kill -KILL $$", "E": empty, "Y": onebyte}
    second = {"S": ":", "F": ":", "O": ":", "W": "exit 3", "K": ":", "G": ":", "Z": ":", "E": ":", "Y": ":"}
    if not script or any(c not in first for c in script):
        raise HarnessError(f"unknown script {script}")

    def case(table):
        arms = "".join(f"{i + 1}) {table[c]};; " for i, c in enumerate(script[:-1]))
        return f"case $n in {arms}*) {table[script[-1]]};; esac"

    # slow: the job takes long enough for jobmap's submit loop to finish before any queued job starts
    c0 = ("sleep 0.05; " if slow else "") + f"echo x >> {cnt}; n=$(wc -l < {cnt}); n=$((n+0)); " + ("printf x > extra.txt; " if extra else "") + case(first)
    c1 = f"n=$(wc -l < {cnt}); n=$((n+0)); " + case(second)
    return c0, c1


# job declarations: with a return file / without return_files (None, results on stdout, like
# XTBDriver.energy_m) / with an empty tuple (like XTBDriver.atom_properties_m)
DECLS = {"file": ("res.txt",), "none": None, "empty": ()}
DECL_LABEL = {"file": "return_files=tuple", "none": "return_files=None", "empty": "return_files=()"}
JOB_OF = {"file": "calc", "none": "calc_out", "empty": "calc_nof"}


# jobmap keywords: the value every other history uses / the alternatives explored by the option histories.
# (job, source, destination, kwargs, strict_hash are dimensions of their own.)
BASE_OPTS = {"progress": False, "verbose": False, "n_workers": 1, "scratch": "given", "cache": "given", "shared": "none", "log_level": "warning", "args": "none"}
ALT_OPTS = {"progress": [True], "verbose": [True], "n_workers": [2, None], "scratch": ["none"], "cache": ["none"], "shared": ["given"], "log_level": ["debug"], "args": ["empty-tuple"]}
OPT_OF_KEYWORD = {"progress": "progress", "verbose": "verbose", "n_workers": "n_workers", "scratch_dir": "scratch", "cache_dir": "cache", "shared_dir": "shared", "log_level": "log_level", "args": "args"}
OTHER_KEYWORDS = {"job", "source", "destination", "kwargs", "strict_hash"}


# "the input differs in field F only": variants of one JobInput that differ from the base input in exactly one field
VARY = ("jid", "commands", "files-name", "files-content", "return_files", "envars-add", "envars-value", "envars-remove", "timeout")
VARY_FIELD = {"jid": "jid", "commands": "commands", "files-name": "files", "files-content": "files", "return_files": "return_files", "envars-add": "envars", "envars-value": "envars", "envars-remove": "envars", "timeout": "timeout"}
# variants whose difference the commands can see: the payload carries the variant's letter
VARY_VISIBLE = {"commands": None, "files-content": '"$(cat note.txt)"', "envars-value": '"$C18_V"'}


def make_driver_class():
    def prep(self, M, tag="A", mdir=None, vary=None, alt=False, slow=False):
        u = unit_of(M)
        if vary is not None:
            un = unit_name(u)
            L = "B" if alt else "A"
            letter = VARY_VISIBLE.get(vary)
            c0, c1 = shell_text(PLAN[u], un, L if vary == "commands" else "A", mdir, to_file=bool(self.return_files), letter=letter, extra=vary == "return_files")
            files = {"note.txt": (L if vary == "files-content" else "A"), ("aux2.txt" if vary == "files-name" and alt else "aux.txt"): "aux"}
            env = {"C18_V": L if vary == "envars-value" else "A", "C18_W": "w"}
            if vary == "envars-add" and alt:
                env["C18_X"] = "x"
            if vary == "envars-remove" and alt:
                del env["C18_W"]
            ret = self.return_files
            if vary == "return_files" and alt:
                ret = tuple(ret) + ("extra.txt",)
            return JobInput(
                un + ("-alt" if vary == "jid" and alt else ""),
                commands=[(shlex.join([self.executable, "-c", c0]), "main"), (shlex.join([self.executable, "-c", c1]), None)],
                files=files,
                return_files=ret,
                envars=env,
                timeout=60.0 if vary == "timeout" and alt else None,
            )
        c0, c1 = shell_text(PLAN[u], unit_name(u), tag, mdir, to_file=bool(self.return_files), slow=slow)
        return JobInput(
            unit_name(u),
            commands=[
                (shlex.join([self.executable, "-c", c0]), "main"),
                (shlex.join([self.executable, "-c", c1]), None),
            ],
            files={"note.txt": f"{unit_name(u)} {tag}"},
            return_files=self.return_files,
            envars=self.envars,
        )

    def post(self, out, M, **kwargs):
        if self.return_files:
            res = bytes(out.files["res.txt"])
        else:
            res = out.stdouts["main"].encode()
            if not res:
                raise ValueError("no result on stdout")
        return b"post(" + res + b")"

    def reduce(self, outputs, ens, *args, **kwargs):
        return b"|".join(outputs)

    # the calls the decorators of XTBDriver make: Job(...).prep(f), .post(f), Job.vectorize(job), .reduce(f)
    ns = {"default_executable": "sh"}
    for decl, jname in JOB_OF.items():
        kw = {} if DECLS[decl] is None else {"return_files": DECLS[decl]}
        job = Job(name=jname, **kw).prep(prep)
        job.post(post)
        vec = Job.vectorize(job, name=jname + "_ens")
        vec.reduce(reduce)
        vec.name = jname + "_ens"
        ns[jname] = job
        ns[jname + "_ens"] = vec
    return type("MapDriver", (DriverBase,), ns)


_DRIVER = None


def driver():
    global _DRIVER
    if _DRIVER is None:
        _DRIVER = make_driver_class()("sh", nprocs=1)
    return _DRIVER


# -------------------------------------------------------------------------------------------------
# in-process runner seam
# -------------------------------------------------------------------------------------------------
class _Proc:
    def __init__(self, returncode, stderr=""):
        self.returncode = returncode
        self.stdout = ""
        self.stderr = stderr

    def __repr__(self):
        return f"_Proc(returncode={self.returncode})"


import threading as _threading

_SEAM_LOCK = _threading.Lock()


def _run_local_inproc(ifn, cwd, odir, sdir):
    """Same contract as molli.pipeline.job._run_local, without the interpreter start.  The in-process runner
    changes process-wide state (cwd, argv): with n_workers > 1 the executions are serialised (the worker threads,
    their start order and what each one was asked to run are jobmap's)."""
    with _SEAM_LOCK:
        return _run_local_inproc_locked(ifn, cwd, odir, sdir)


def _run_local_inproc_locked(ifn, cwd, odir, sdir):
    old_argv = sys.argv
    cwd0 = os.getcwd()
    sys.argv = ["_molli_run", str(ifn), "-o", Path(odir).as_posix(), "-s", Path(sdir).as_posix()]
    try:
        os.chdir(cwd)
        try:
            _runner.run_local()
            code = 0
        except SystemExit as e:
            code = 0 if e.code is None else e.code
        except Exception:
            # what the console script does with an uncaught exception: traceback, exit status 1
            return _Proc(1, traceback.format_exc())
    finally:
        sys.argv = old_argv
        os.chdir(cwd0)
    return _Proc(code)


class _NoClose:
    def close(self):
        pass


class _Alarm(Exception):
    pass


def _on_alarm(signum, frame):
    raise _Alarm()


# -------------------------------------------------------------------------------------------------
# the world of one history: real files + reference model
# -------------------------------------------------------------------------------------------------
class Model:
    """Reference model state."""

    __slots__ = ("dest", "cache", "attempts", "tag", "fresh_id")

    def __init__(self):
        self.dest = {}  # key -> bytes
        self.cache = {}  # unit name -> None(corrupt) | (tag, commands_ok, has_file, content)
        self.attempts = {}  # unit name -> executions so far
        self.tag = TAGS[0]
        self.fresh_id = 0

    def clone(self):
        m = Model()
        m.dest = dict(self.dest)
        m.cache = dict(self.cache)
        m.attempts = dict(self.attempts)
        m.tag = self.tag
        m.fresh_id = self.fresh_id
        return m

    def canon(self):
        return (tuple(sorted(self.dest.items())), tuple(sorted(self.cache.items(), key=lambda kv: kv[0])), tuple(sorted(self.attempts.items())), self.tag)


def script_outcome(script, n):
    """(all commands succeeded, result produced) of execution number n (1-based)."""
    c = script[min(n, len(script)) - 1]
    return {"S": (True, True), "F": (False, False), "O": (True, False), "W": (False, True), "K": (False, True), "G": (False, True), "Z": (False, False), "E": (True, True), "Y": (True, True)}[c]


def script_letter(script, n):
    return script[min(n, len(script)) - 1]


class World:
    def __init__(self, ctx, cfg, root: Path, real_runner=False):
        self.ctx = ctx
        self.cfg = cfg
        self.kind = cfg["kind"]
        self.decl = cfg.get("decl", "file")
        self.strict = bool(cfg.get("strict", True))
        self.vary = cfg.get("vary")
        self.label = f"{cfg['kind']},{DECL_LABEL[self.decl]}"
        if not self.strict:
            self.label += ",strict_hash=False"
        if self.vary:
            self.label += f",differs-in={self.vary}"
        if any("." in k for k in cfg["keys"]):
            self.label += ",keys=dotted"
        elif any(not k.isalnum() for k in cfg["keys"]):
            self.label += ",keys=dash_underscore"
        self.keys = list(cfg["keys"])
        self.nconf = int(cfg.get("nconf", 2)) if self.kind == "vector" else None
        if self.nconf and self.nconf > 2:
            self.label += ",many-subjobs"
        self.opts = dict(cfg.get("opts") or {})
        nonbase = {k: v for k, v in sorted(self.opts.items()) if BASE_OPTS.get(k, "?") != v}
        if nonbase:
            self.label += ",options[" + ",".join(f"{k}={v}" for k, v in nonbase.items()) + "]"
        self.root = root
        self.w = root / "w"
        self.real_runner = real_runner
        self.units = {k: ([(k, None)] if self.kind == "single" else [(k, i) for i in range(self.nconf)]) for k in self.keys}
        self.plan = {}
        for k in self.keys:
            for u, s in zip(self.units[k], cfg["plan"][k]):
                self.plan[u] = s
        self.model = Model()

    # ---- paths
    @property
    def src_path(self):
        return self.w / ("src.mlib" if self.kind == "single" else "src.clib")

    @property
    def cache_dir(self):
        if self.opts.get("cache") == "none":
            # jobmap's default: <stem of the source library>.<job name> under the caller's cwd (the harness sits in self.w)
            jname = JOB_OF[self.decl] + ("" if self.kind == "single" else "_ens")
            return self.w / f"{self.src_path.stem}.{jname}"
        return self.w / "cache"

    @property
    def mdir(self):
        return self.w / "markers"

    def dest_path(self, m=None):
        m = m or self.model
        return self.w / f"dest{m.fresh_id}.ukv"

    # ---- setup
    def setup(self):
        shutil.rmtree(self.w, ignore_errors=True)
        self.w.mkdir(parents=True)
        self.mdir.mkdir()
        (self.w / "scratch").mkdir()
        self.litter()
        if self.kind == "single":
            lib = ml.MoleculeLibrary(self.src_path, readonly=False)
        else:
            lib = ml.ConformerLibrary(self.src_path, readonly=False)
        with lib.writing():
            for k in self.keys:
                mol = ml.Molecule(name=k)
                mol.add_atom(ml.Atom("C"), [0.0, 0.0, 0.0])
                if self.kind == "single":
                    lib[k] = mol
                else:
                    ens = ml.ConformerEnsemble(mol, n_conformers=self.nconf, name=k)
                    arr = np.zeros((self.nconf, 1, 3))
                    for i in range(self.nconf):
                        arr[i, 0, 0] = float(i)
                    ens.coords = arr
                    lib[k] = ens
        _forget(lib)
        dest = Collection(self.dest_path(), UkvCollectionBackend, readonly=False)
        pre = {k: b"old:" + k.encode() for k in self.cfg["prepop"]}
        if self.cfg["foreign"]:
            pre[FOREIGN] = FOREIGN_VALUE
        if pre:
            with dest.writing():
                for k in sorted(pre):
                    dest[k] = pre[k]
        _forget(dest)
        self.model.dest = dict(pre)

    def litter(self):
        """Leftovers of earlier (killed / failed) runs that every run has to live with: stray files next to the
        cache files of every unit, and an abandoned scratch directory with a result file in it."""
        import msgpack

        stale = msgpack.dumps({"stdouts": {"main": "STALE"}, "stderrs": {"main": ""}, "exitcode": 0, "files": {"res.txt": b"STALE"}, "input_hash": b"stale"})
        for sub in ("input", "output", "work"):
            (self.cache_dir / sub).mkdir(parents=True, exist_ok=True)
        first = None
        for k in self.keys:
            for u in self.units[k]:
                un = unit_name(u)
                first = first or un
                (self.cache_dir / "output" / f"{un}.err").write_bytes(stale)
                (self.cache_dir / "output" / f"{un}.out~").write_bytes(stale)
        (self.cache_dir / "output" / f"{first}.out.tmp").write_bytes(stale[: len(stale) // 2])
        (self.cache_dir / "input" / f"{first}.inp.bak").write_bytes(b"\x00garbage")
        d = self.w / "scratch" / f"{first}__stale0"
        d.mkdir()
        (d / "res.txt").write_bytes(b"STALE")
        (self.cache_dir / "work" / "core.stale").write_bytes(b"x")

    # ---- snapshots
    def save(self, name):
        d = self.root / f"snap-{name}"
        shutil.rmtree(d, ignore_errors=True)
        shutil.copytree(self.w, d)
        return d, self.model.clone()

    def restore(self, snap):
        d, m = snap
        shutil.rmtree(self.w, ignore_errors=True)
        shutil.copytree(d, self.w)
        self.model = m.clone()

    # ---- actions between runs
    def actions(self, corrupt_kinds):
        """All (cache action, kwargs change, fresh destination) triples that are not no-ops by construction."""
        m = self.model
        cacts = [("none",)]
        for un in sorted(m.cache):
            cacts.append(("delete", un))
            for ck in corrupt_kinds:
                if m.cache[un] is not None:
                    cacts.append(("corrupt", un, ck))
        out = []
        for ca in cacts:
            for kw in (False, True):
                if kw and ca[0] != "none" and self.strict and not self.ctx.thorough:
                    # quick tier, strict mode: a changed input invalidates every cached output anyway, so
                    # 'delete/corrupt one output AND change the input' is explored in the thorough tier only
                    continue
                for fresh in (False, True):
                    out.append((ca, kw, fresh))
        return out

    def apply(self, act):
        ca, kw, fresh = act
        m = self.model
        if ca[0] == "delete":
            (self.cache_dir / "output" / f"{ca[1]}.out").unlink(missing_ok=True)
            del m.cache[ca[1]]
        elif ca[0] == "corrupt":
            p = self.cache_dir / "output" / f"{ca[1]}.out"
            # (an implementation that does not keep the outputs of failed runs leaves nothing to corrupt)
            data = p.read_bytes() if p.is_file() else None
            if data is None:
                del m.cache[ca[1]]
                return self._apply_rest(kw, fresh)
            if ca[2] == "truncate":
                p.write_bytes(data[: len(data) // 2])
            elif ca[2] == "empty":
                p.write_bytes(b"")
            elif ca[2] == "garbage":
                p.write_bytes(b"\xc1\xc1\xc1" + data[3:])
            elif ca[2] == "scalar":
                p.write_bytes(b"\x07")
            else:
                raise HarnessError(ca)
            m.cache[ca[1]] = None
        self._apply_rest(kw, fresh)

    def _apply_rest(self, kw, fresh):
        m = self.model
        if kw:
            m.tag = TAGS[1 - TAGS.index(m.tag)]
        if fresh:
            m.fresh_id += 1
            m.dest = {}
            d = Collection(self.dest_path(), UkvCollectionBackend, readonly=False)
            _forget(d)

    # ---- observation helpers
    def read_attempts(self):
        out = {}
        for k in self.keys:
            for u in self.units[k]:
                p = self.mdir / f"{unit_name(u)}.cnt"
                out[unit_name(u)] = len(p.read_text().splitlines()) if p.exists() else 0
        return out

    def read_dest(self):
        d = Collection(self.dest_path(), UkvCollectionBackend, readonly=True)
        try:
            with d.reading(timeout=30):
                return {k: bytes(d[k]) for k in sorted(d.keys())}
        finally:
            _forget(d)

    # ---- one jobmap run + oracle
    def expect(self, k, un):
        """(allowed numbers of executions of unit un of key k in the next run, reason)."""
        m = self.model
        if k in m.dest:
            return (0,), "key-already-in-destination"
        rec = m.cache.get(un)
        if un not in m.cache:
            reason = "no-cached-output"
        elif rec is None:
            reason = "cached-output-unreadable"
        elif rec[0] != m.tag and self.strict:
            # (strict_hash=False means: do not compare hashes - a successful output is reused whatever input made it)
            reason = "cached-output-of-different-input"
        elif not rec[1]:
            reason = "cached-output-of-failed-run"
        else:
            reason = None
        if reason is None and not rec[2] and self.decl == "file":
            return (0, 1), None  # commands exited 0 but the requested file was missing: see assumptions
        return ((0,), None) if reason is None else ((1,), reason)

    def execute(self, case):
        """The real jobmap call.  Returns (exception or None, where, executions per unit, scratch residue)."""
        m = self.model
        kind = self.kind
        PLAN.clear()
        PLAN.update(self.plan)
        drv = driver()
        job = getattr(drv, JOB_OF[self.decl] + ("" if kind == "single" else "_ens"))
        if kind == "single":
            source = ml.MoleculeLibrary(self.src_path, readonly=True)
        else:
            source = ml.ConformerLibrary(self.src_path, readonly=True)
        dest = Collection(self.dest_path(), UkvCollectionBackend, readonly=False)
        before = self.read_attempts()
        exc = None
        where = None
        old = (_jobmod._run_local, sys.stdin, sys.stdout, sys.stderr)
        if not self.real_runner:
            _jobmod._run_local = _run_local_inproc
        sys.stdin = _NoClose()
        sink = io.StringIO()
        old_handler = signal.signal(signal.SIGALRM, _on_alarm)
        signal.alarm(JOBMAP_TIMEOUT)
        cwd0 = os.getcwd()
        o = self.opts
        kw = {"cache_dir": self.cache_dir, "scratch_dir": self.w / "scratch", "n_workers": o.get("n_workers", 1)}
        if o.get("scratch") == "none":
            del kw["scratch_dir"]
        if o.get("cache") == "none":
            del kw["cache_dir"]
            os.chdir(self.w)
        for name in ("progress", "verbose", "log_level"):
            if name in o:
                kw[name] = o[name]
        if o.get("shared") == "given":
            kw["shared_dir"] = self.w / "shared"
            (self.w / "shared").mkdir(exist_ok=True)
        if o.get("args") == "empty-tuple":
            kw["args"] = ()
        jkw = {"tag": m.tag, "mdir": str(self.mdir)} if not self.vary else {"mdir": str(self.mdir), "vary": self.vary, "alt": m.tag == TAGS[1]}
        if o:
            jkw["slow"] = True
        try:
            with contextlib.redirect_stderr(sink), contextlib.redirect_stdout(sink):
                jobmap(
                    job,
                    source,
                    dest,
                    kwargs=jkw,
                    **kw,
                    **({} if self.strict else {"strict_hash": False}),
                )
        except _Alarm:
            raise HarnessError(f"jobmap did not return within {JOBMAP_TIMEOUT} s: {case}")
        except Exception as e:
            exc = e
            where = _where(e)
        finally:
            signal.alarm(0)
            signal.signal(signal.SIGALRM, old_handler)
            _jobmod._run_local, sys.stdin, sys.stdout, sys.stderr = old
            os.chdir(cwd0)
            _close_logging()
            _release(source)
            _release(dest)
        after = self.read_attempts()
        executed = {un: after[un] - before[un] for un in after}
        residue = sorted(p.name for p in (self.w / "scratch").iterdir() if not p.name.endswith("__stale0"))
        return exc, where, executed, residue

    def run(self, case):
        """Returns True when the run agrees with the model (the model is advanced)."""
        ctx = self.ctx
        m = self.model
        kind = self.label
        outdir = self.cache_dir / "output"
        pre_bytes = {}
        for k in self.keys:
            for u in self.units[k]:
                f = outdir / f"{unit_name(u)}.out"
                pre_bytes[unit_name(u)] = f.read_bytes() if f.is_file() else None
        exc, where, executed, residue = self.execute(case)
        ctx.count(transitions=1 + sum(executed.values()))

        def viol(sig, what):
            ctx.violation(sig, what, case, repro=repro_for(sig))

        if exc is not None:
            viol(
                f"jobmap:exception-escapes[{'destination-only-key' if FOREIGN in m.dest else 'no-destination-only-key'}]:{type(exc).__name__}@{where}",
                f"jobmap raised {type(exc).__name__}: {str(exc)[:80]} (foreign key in destination: {FOREIGN in m.dest}; cached outputs: {sorted(m.cache)})",
            )
            return False

        # ---- the model's run
        ok = True
        todo = [k for k in self.keys if k not in m.dest]
        newdest = dict(m.dest)
        how = {}
        signalled = set()  # keys with a unit whose command was killed by a signal in this run
        result = {}  # unit -> what this run has for it: the record of its execution, or the reused cached record
        for k in self.keys:
            for u in self.units[k]:
                un = unit_name(u)
                got = executed[un]
                allowed, reason = self.expect(k, un)
                if k in m.dest:
                    if got != 0:
                        viol(f"jobmap[{kind}]:executed-again:key-already-in-destination", f"unit {un} executed {got}x although {k} is in the destination")
                        ok = False
                    continue
                if got not in allowed:
                    if got > max(allowed):
                        viol(
                            f"jobmap[{kind}]:executed-again:{'valid-cached-output' if reason is None else reason}",
                            f"unit {un} executed {got}x, expected {max(allowed)} ({reason or 'valid cached output of the same input'})",
                        )
                    else:
                        viol(f"jobmap[{kind}]:not-executed:{reason}", f"unit {un} was not executed although it has no valid cached output ({reason})")
                    ok = False
                    continue
                if got == 1:
                    n = m.attempts.get(un, 0) + 1
                    m.attempts[un] = n
                    cok, hasfile = script_outcome(self.plan[u], n)
                    letter = m.tag if (not self.vary or self.vary in VARY_VISIBLE) else TAGS[0]
                    sl = script_letter(self.plan[u], n)
                    payload = b"" if sl == "E" else b"x" if sl == "Y" else f"{un}:{letter}:n{n}".encode()
                    rec = (m.tag, cok, hasfile, payload if hasfile else None)
                    result[un] = rec
                    if script_letter(self.plan[u], n) in "KGZ":
                        signalled.add(k)
                    how[un] = "executed"
                    if cok and (hasfile or self.decl != "file"):
                        m.cache[un] = rec  # the run succeeded: its output is the cached output from now on
                    else:
                        # What a FAILED run leaves in the cache is not the property's business (its output, nothing,
                        # or the previous output untouched): the model follows what is there, because later reuse
                        # decisions legitimately depend on it.  The result of THIS run is `rec` in every case.
                        f = outdir / f"{un}.out"
                        now = f.read_bytes() if f.is_file() else None
                        if now is None:
                            m.cache.pop(un, None)
                        elif now == pre_bytes[un] and un in m.cache:
                            pass
                        else:
                            m.cache[un] = rec
                else:
                    result[un] = m.cache.get(un)
                    how[un] = "from-cache"
        if not ok:
            return False
        outcome_class = {}
        for k in todo:
            recs = [result.get(unit_name(u)) for u in self.units[k]]
            if all(r is not None and (r[0] == m.tag or not self.strict) and r[1] and r[2] for r in recs):
                parts = [b"post(" + r[3] + b")" for r in recs]
                newdest[k] = parts[0] if self.kind == "single" else b"|".join(parts)
                outcome_class[k] = "succeeded"
            elif all(r is not None and r[2] for r in recs):
                outcome_class[k] = "failed-after-writing-the-file" if self.decl == "file" else "failed-after-printing-the-result"
                if k in signalled:
                    outcome_class[k] = "killed-by-a-signal-after-producing-the-result"
            elif all(r is not None and r[1] for r in recs):
                outcome_class[k] = "return-file-missing" if self.decl == "file" else "empty-result"
            else:
                outcome_class[k] = "failed"
        self.expected_dest = newdest
        try:
            real = self.read_dest()
        except Exception as e:
            viol(f"jobmap[{kind}]:destination:unreadable-{type(e).__name__}", f"destination cannot be read after jobmap: {e}")
            return False
        for k in sorted(set(real) | set(newdest)):
            if k in newdest and k not in real:
                if k == FOREIGN:
                    viol("jobmap:destination:foreign-key-removed", "a key present only in the destination disappeared")
                elif k in m.dest:
                    viol(f"jobmap[{kind}]:destination:existing-key-removed", f"{k} was in the destination before the run and is gone")
                else:
                    hw = "+".join(sorted({how[unit_name(u)] for u in self.units[k]}))
                    viol(f"jobmap[{kind}]:destination:successful-item-missing[{hw}]", f"{k}: all commands succeeded ({hw}) but the key is not in the destination")
                ok = False
            elif k in real and k not in newdest:
                cls = outcome_class.get(k, "unknown-key")
                # a value computed by an EARLIER execution than the one this run made for the unit = a stale result
                import re as _re

                stale = False
                for u in self.units.get(k, []):
                    un = unit_name(u)
                    for mm in _re.finditer(rb"(?:^|[(|])" + _re.escape(un.encode()) + rb":[A-Z]:n(\d+)\)", real[k]):
                        if how.get(un) == "executed" and int(mm.group(1)) < m.attempts.get(un, 0):
                            stale = True
                viol(
                    f"jobmap[{kind}]:destination:item-stored-although-{cls}" + (";stale-result-of-an-earlier-run" if stale else ""),
                    f"{k} ({cls} in this run) was stored in the destination with value {real[k][:60]!r}" + (" - the result of an earlier run with a different input" if stale else ""),
                )
                ok = False
            elif real[k] != newdest[k]:
                if k == FOREIGN:
                    viol("jobmap:destination:foreign-key-changed", "the value of a key present only in the destination changed")
                elif k in m.dest:
                    viol(f"jobmap[{kind}]:destination:existing-key-overwritten", f"{k} was in the destination before the run and changed")
                else:
                    hw = "+".join(sorted({how[unit_name(u)] for u in self.units[k]}))
                    other = any(f":{t}:".encode() in real[k] for t in TAGS if t != m.tag)
                    viol(
                        f"jobmap[{kind}]:destination:wrong-value[{hw}{';result-of-different-input' if other else ''}]",
                        f"{k}: stored {real[k][:60]!r}, expected {newdest[k][:60]!r}",
                    )
                ok = False
        if residue:
            ctx.add_note("scratch_residue_runs", 1)
        if not ok:
            return False
        # every output written in this run carries the hash of the input it was computed from
        for un in sorted(executed):
            if executed[un] < 1:
                continue
            pi = self.cache_dir / "input" / f"{un}.inp"
            po = self.cache_dir / "output" / f"{un}.out"
            if not (pi.is_file() and po.is_file()):
                continue
            try:
                ih, oh = JobInput.load(pi).hash, JobOutput.load(po).input_hash
            except Exception:
                continue
            if ih != oh:
                viol(f"jobmap[{kind}]:output:input_hash-differs-from-JobInput.hash", f"{un}.out records input_hash {oh!r}, the input file it was computed from hashes to {ih!r}")
                return False
        m.dest = newdest
        self.last_obs = (tuple(sorted(executed.items())), tuple(sorted(real.items())))
        return True


def _where(e):
    """Source text of the innermost frame inside molli/pipeline/job.py (class-level, seed-independent)."""
    tb = traceback.extract_tb(e.__traceback__)
    line = None
    for fr in tb:
        if fr.filename.replace("\\", "/").endswith("molli/pipeline/job.py"):
            line = (fr.line or linecache.getline(fr.filename, fr.lineno)).strip()
    return repr(line)[:70] if line else "outside-job.py"


def _close_logging():
    for name in ("molli.pipeline", "molli.pipeline.jobmap"):
        lg = logging.getLogger(name)
        for h in list(lg.handlers):
            lg.removeHandler(h)
            try:
                h.close()
            except Exception:
                pass


def _release(coll):
    """Make sure a handle abandoned by an escaping exception holds neither file nor lock."""
    be = coll._backend
    be._write_queue.clear()
    uf = getattr(be, "_ukvfile", None)
    try:
        if uf is not None and not uf.closed:
            uf.close()
    except Exception:
        pass
    lk = be._lock
    for rel in ("release_write_lock", "release_read_lock"):
        try:
            getattr(lk, rel)()
        except Exception:
            pass
    atexit.unregister(be.flush)


def _forget(coll):
    coll._backend._write_queue.clear()
    atexit.unregister(coll._backend.flush)


_REPRO_HEAD = """\
import os, tempfile
import molli as ml
from molli.pipeline.driver import DriverBase
from molli.pipeline.job import Job, JobInput, jobmap
from molli.storage import Collection, UkvCollectionBackend
class D(DriverBase):
    default_executable = "sh"
    @Job(return_files=("res.txt",)).prep
    def calc(self, M, fail=False):
        return JobInput(M.name, commands=[("sh -c 'echo data > res.txt'", "main"), ("sh -c 'exit %d'" % (3 if fail else 0), None)], return_files=self.return_files)
    @calc.post
    def calc(self, out, M, **kw):
        return out.files["res.txt"]
    calc_ens = Job.vectorize(calc)
    @calc_ens.reduce
    def calc_ens(self, outs, ens, **kw):
        return b"|".join(outs)
d = tempfile.mkdtemp(); os.chdir(d)
mol = ml.Molecule(name="k0"); mol.add_atom(ml.Atom("C"), [0.0, 0.0, 0.0])
src = ml.MoleculeLibrary("src.mlib", readonly=False)
with src.writing(): src["k0"] = mol
ens = ml.ConformerLibrary("src.clib", readonly=False)
with ens.writing(): ens["k0"] = ml.ConformerEnsemble(mol, n_conformers=2)
dst = Collection("dst.ukv", UkvCollectionBackend, readonly=False)
"""

_REPRO_TAILS = {
    "KeyError@'obj = source[k]'": """\
with dst.writing(): dst["only-in-destination"] = b"x"
jobmap(D().calc, src, dst, cache_dir="cache", scratch_dir="scratch", n_workers=1)
# KeyError: b'only-in-destination'  (job.py:551 `all_keys ^ skip_keys` puts destination-only keys into to_be_done)
""",
    "jobmap[single,return_files=tuple]:destination:item-stored-although-failed-after-writing-the-file": """\
jobmap(D().calc, src, dst, cache_dir="cache", scratch_dir="scratch", n_workers=1, kwargs={"fail": True})
with dst.reading(): print(dict(dst.items()))
# {'k0': b'data\\n'} although the second command of k0 exited 3; expected: {}  (job.py:664 processes <key>.out whatever its exit code)
""",
    "jobmap[vector,return_files=tuple]:destination:item-stored-although-failed-after-writing-the-file": """\
jobmap(D().calc_ens, ens, dst, cache_dir="cache", scratch_dir="scratch", n_workers=1, kwargs={"fail": True})
with dst.reading(): print(dict(dst.items()))
# {'k0': b'data\\n|data\\n'} although every conformer job failed; expected: {}  (job.py:679)
""",
    "AttributeError@'not strict_hash or _out.input_hash == _input.hash'": """\
jobmap(D().calc_ens, ens, dst, cache_dir="cache", scratch_dir="scratch", n_workers=1, kwargs={"fail": True})   # leaves k0.0.out, k0.1.out in the cache
dst2 = Collection("dst2.ukv", UkvCollectionBackend, readonly=False)
jobmap(D().calc_ens, ens, dst2, cache_dir="cache", scratch_dir="scratch", n_workers=1, kwargs={"fail": True})
# AttributeError: 'generator' object has no attribute 'hash'  (job.py:612 compares with _input.hash instead of _inp.hash)
""",
}


def repro_for(sig):
    for k, t in _REPRO_TAILS.items():
        if k in sig:
            return _REPRO_HEAD + t
    return None


# -------------------------------------------------------------------------------------------------
# enumeration
# -------------------------------------------------------------------------------------------------
def rot(lst, seed):
    lst = list(lst)
    r = seed % len(lst)
    return lst[r:] + lst[:r]


def configs(kind, keys, unit_plans, decl="file", strict=True, foreign_opts=(False, True), prepop=True, vary=None, nconf=None, opts=None, only_actions=None):
    """Every initial configuration: per key either 'already in the destination' or a plan for its units
    (unit_plans: one list of plans for all keys, or a dict key -> list); x foreign key present or not."""
    per_key = [(["DEST"] if prepop else []) + list(unit_plans[k] if isinstance(unit_plans, dict) else unit_plans) for k in keys]
    out = []
    for combo in itertools.product(*per_key):
        for foreign in foreign_opts:
            plan = {}
            pre = []
            for k, c in zip(keys, combo):
                if c == "DEST":
                    pre.append(k)
                    plan[k] = ["S"] * (1 if kind == "single" else (nconf or 2))
                else:
                    plan[k] = list(c)
            extra = {}
            if nconf:
                extra["nconf"] = nconf
            if opts:
                extra["opts"] = dict(opts)
            if only_actions:
                extra["only_actions"] = [list(a) for a in only_actions]
            out.append({**extra, "kind": kind, "decl": decl, "strict": strict, "vary": vary, "keys": list(keys), "plan": plan, "prepop": pre, "foreign": foreign})
    return out


def explore(ctx, cfg, depth, corrupt_kinds, real_runner=False, seen=None):
    """All histories of 1..depth runs from one initial configuration."""
    root = Path(ctx.scratch) / "c18"
    root.mkdir(parents=True, exist_ok=True)
    world = World(ctx, cfg, root, real_runner=real_runner)
    world.setup()
    seen = {} if seen is None else seen
    nruns = 0

    def node(hist, level):
        nonlocal nruns
        case = {"cfg": cfg, "history": [_jsonable_act(a) for a in hist], "real_runner": real_runner, "corrupt_kinds": list(corrupt_kinds)}
        ok = world.run(case)
        nruns += 1
        ctx.count(evaluations=1, traces=1)
        if not ok:
            return
        key = world.model.canon()
        m = world.model
        c = (cfg["kind"], cfg.get("decl", "file"), cfg.get("strict", True), cfg.get("vary"), cfg.get("nconf"), tuple(sorted((cfg.get("opts") or {}).items(), key=repr)), tuple(cfg["keys"]), tuple(sorted((k, tuple(v)) for k, v in cfg["plan"].items())), tuple(cfg["prepop"]), cfg["foreign"], m.canon())
        ctx.state_keys.add(hashlib.blake2b(repr(c).encode(), digest_size=10).digest())
        ctx.outcome(hashlib.sha1(repr(world.last_obs).encode()).hexdigest()[:12])
        if any(v for v in world.last_obs[0] if v[1]) or level > 1:
            ctx.nontrivial(hashlib.sha1(repr((c, [_jsonable_act(a) for a in hist])).encode()).hexdigest()[:16])
        if nruns in (2, 40) and len(ctx.samples) < 6:
            ctx.sample({"cfg": cfg, "history": [_jsonable_act(a) for a in hist], "executed": dict(world.last_obs[0]), "destination": {k: v for k, v in world.last_obs[1]}})
        if level >= depth:
            return
        # a state already expanded with at least as many runs left needs no second expansion
        if seen.get(key, depth + 1) <= level:
            return
        seen[key] = level
        snap = world.save(f"L{level}")
        acts = world.actions(corrupt_kinds)
        if cfg.get("only_actions"):
            acts = [(tuple(a[0]), a[1], a[2]) for a in cfg["only_actions"]]
        for act in acts:
            world.restore(snap)
            world.apply(act)
            node(hist + [act], level + 1)

    node([], 1)
    return nruns


def _jsonable_act(a):
    return [list(a[0]), a[1], a[2]]


def _run_part(sub, part):
    depth, corrupt_kinds, real_runner, cfgs = part
    n = 0
    for j, cfg in enumerate(cfgs):
        if cfg.get("opts"):
            # run into a private context first: a failing option case is reduced to the smallest set of non-default
            # jobmap keywords that still fails, so that the signature names the cause
            tmp = sub.sub(900 + j % 50)
            k = explore(tmp, cfg, depth, corrupt_kinds, real_runner=real_runner)
            if not tmp.violations:
                sub.merge(tmp.export())
                n += k
                continue
            cur = cfg
            for name in sorted(cfg["opts"]):
                if cur["opts"].get(name, BASE_OPTS[name]) == BASE_OPTS[name]:
                    continue
                trial = dict(cur, opts={**cur["opts"], name: BASE_OPTS[name]})
                t2 = sub.sub(950 + j % 50)
                explore(t2, trial, depth, corrupt_kinds, real_runner=real_runner)
                if t2.violations:
                    cur = trial
            cfg = cur
        n += explore(sub, cfg, depth, corrupt_kinds, real_runner=real_runner)
    sub.add_note("jobmap_runs_real_runner" if real_runner else "jobmap_runs_inprocess", n)


def chunk(lst, n):
    n = max(1, min(n, len(lst)))
    out = [[] for _ in range(n)]
    for i, x in enumerate(lst):
        out[i % n].append(x)
    return [c for c in out if c]


# key alphabets: plain keys, and keys that collide under common path manipulations (with_suffix / stem /
# splitext on "<key>.inp"), several dots, keys that end like the cache files, '-' and '_'.
# (Established on the unchanged code: these all work; keys with '/' or spaces do not and are out of scope.)
KEYSETS = {
    "lig": ["lig", "lig.1", "lig.2"],
    "ab": ["a.b", "a.c"],
    "multi": ["x.y.z", "x.y.w", "x.y"],
    "ext": ["r.out", "r.inp"],
    "dash": ["m-1_a", "m-1_b"],
}


def option_configs(thorough):
    """jobmap keyword dimension: progress x n_workers x verbose in full, every other keyword singly (x n_workers),
    over item counts {1, 2, n_workers, n_workers+1, 2*n_workers+1}; two runs after the first: same input / changed
    input into a fresh destination."""
    acts = [(("none",), False, True), (("none",), True, True)]

    def mk(opts, nitems, plan=("S",), kind="single"):
        keys = [f"k{i}" for i in range(nitems)]
        return configs(kind, keys, [plan], foreign_opts=(False,), prepop=False, opts=opts, only_actions=acts)

    out = []
    counts = {1: (1, 2, 3), 2: (1, 2, 3, 5), None: (1, 2, 5)}
    for progress in (False, True):
        for nw in (1, 2, None):
            for verbose in (False, True):
                for c in counts[nw]:
                    out += mk({"progress": progress, "n_workers": nw, "verbose": verbose}, c)
    for name in ("scratch", "cache", "shared", "log_level", "args"):
        for nw in (1, 2):
            for c in (2, 5):
                out += mk({name: ALT_OPTS[name][0], "n_workers": nw}, c)
    # every keyword that should only change what is reported / where scratch files live, alone, for single and
    # vectorised jobs: destination and executions must be those of the default run
    levels = ["debug", "info", "error", "critical", "DEBUG"]
    for kind, plan in (("single", ("S",)), ("vector", ("S", "S"))):
        for lv in levels:
            out += mk({"log_level": lv}, 2, plan=plan, kind=kind)
        for name in ("progress", "verbose", "scratch", "cache", "shared", "args"):
            out += mk({name: ALT_OPTS[name][0]}, 2, plan=plan, kind=kind)
        out += mk({"log_level": "debug", "progress": True, "verbose": True}, 3, plan=plan, kind=kind)
    # vectorised: sub-jobs outnumber the workers as well
    for progress in (False, True):
        for nw in (2, None):
            out += mk({"progress": progress, "n_workers": nw}, 2, plan=("S", "S"), kind="vector")
            if thorough:
                out += mk({"progress": progress, "n_workers": nw}, 3, plan=("S", "F"), kind="vector")
    if thorough:
        for progress in (False, True):
            for nw in (2, None):
                for c in (3, 5):
                    out += mk({"progress": progress, "n_workers": nw}, c, plan=("FS",))
                    out += mk({"progress": progress, "n_workers": nw, "cache": "none", "scratch": "none", "log_level": "debug"}, c)
    return out


def subjob_configs(thorough):
    """Vectorised items with many sub-jobs (the payload of a sub-job carries its own index; the stored results are
    compared in order), and keys that are prefixes of each other with dots / digits in one run."""
    acts = [(("none",), False, True), (("none",), True, True)]
    NF = (False,)
    out = []
    for n in (10, 11, 12, 101):
        out += configs("vector", ["K"], [("S",) * n], foreign_opts=NF, prepop=False, nconf=n, only_actions=acts)
    pre = ["K", "K.1", "K1"]
    out += configs("vector", pre, [("S",) * 11], foreign_opts=NF, prepop=False, nconf=11, only_actions=acts)
    out += configs("vector", pre, [("S", "S"), ("F", "S")], foreign_opts=NF, prepop=False, only_actions=acts + [(("none",), False, False)])
    out += configs("single", pre, [("S",), ("F",)], foreign_opts=NF, prepop=False, only_actions=acts + [(("none",), False, False)])
    if thorough:
        out += configs("vector", ["K"], [("S",) * 57 + ("F",) + ("S",) * 43, ("S",) * 10 + ("FS",) + ("S",) * 90], foreign_opts=NF, prepop=False, nconf=101, only_actions=acts + [(("none",), False, False)])
        out += configs("vector", ["K", "K.1"], [("S",) * 12, ("S",) * 11 + ("W",)], foreign_opts=NF, nconf=12, only_actions=acts + [(("none",), False, False)])
        out += configs("vector", ["K"], [("S",) * 11], "none", foreign_opts=NF, prepop=False, nconf=11, only_actions=acts)
    return out


# vectorised plans of the quick tier: each scripted outcome once, on either conformer
VEC5 = [("S", "S"), ("F", "S"), ("S", "FS"), ("O", "S"), ("S", "W")]


def run(ctx):
    seed = ctx.seed
    repo = os.environ.get("VERIF_REPO", "/repo")
    os.environ["PYTHONPATH"] = repo + (os.pathsep + os.environ["PYTHONPATH"] if os.environ.get("PYTHONPATH") else "")
    scripts = rot(SCRIPTS, seed)
    single = [(x,) for x in scripts]
    vec5 = rot(VEC5, seed)
    vec25 = list(itertools.product(scripts, repeat=2))
    ctx.rule = (
        "every history of 1..depth jobmap runs from every initial configuration (per key: already in the destination, or a "
        "scripted outcome per unit from {S,F,FS,O,W}; foreign key or not; single / vectorised job), steps = cache action x kwargs "
        "change x fresh destination; deduplicated by the reference model's state; a history is non-trivial when something was "
        "executed in its last run or it has more than one run"
    )
    ctx.assumptions += [
        "an item whose post-processing raises (e.g. return file missing) has no processed result and must not appear in the destination",
        "a cached output whose commands all exited 0 but whose requested file is missing (the runner exits 1 but stores exitcode 0) may or may not be re-executed: both accepted",
        "every conformer job of a vectorised item that is not validly cached is executed, also when a sibling conformer fails",
        "item-level failures and destination-only keys must not make jobmap raise",
        "for a job declared without return files the result is what the named command prints; an empty stdout makes post-processing raise (no processed result), and such a run is a plain success for the cache (exit 0): it must not be executed again",
        "strict_hash=False means 'do not compare hashes': the successful cached output of a different input is reused (and its result stored); outputs of failed runs and unreadable outputs are still never reused",
        "keys: alphanumerics, '.', '-', '_' (keys with '/' or blanks cannot be used as cache file names by the unchanged code: out of scope)",
        "every run starts with leftovers of earlier runs in place: the .inp/.out files of all earlier runs of the history plus stray <unit>.err / .out~ / .out.tmp / .inp.bak files and an abandoned scratch directory holding a result file",
        "what a FAILED execution leaves in the cache (its own output, nothing, or the previous output untouched) is not constrained; the model follows what is found there for later reuse decisions - the RESULT of the run is always that of the run's own execution: a failed item is absent from the destination, never served from an earlier run's output",
        "a cached output is reused iff the current JobInput equals the one it was computed from in EVERY field (jid, commands, files, return_files, envars, timeout: the unchanged code hashes attrs.asdict of the whole input; no field is deliberately ignored)",
        "a return file of 0 bytes (or 1 byte, no newline) left by a command that succeeded is a result like any other: it is returned, post-processed and stored, and its cached output is reused",
        "a command terminated by a signal has failed like one that exits non-zero (the runner reports a negative return code): the item is not stored, whatever it wrote before, and is executed again in the next run",
        "jobmap keywords: every keyword of jobmap's signature is exercised (progress, verbose, n_workers 1/2/default, scratch_dir / cache_dir / shared_dir given or not, log_level, args); the scripted commands of these histories sleep 50 ms so that jobmap's submit loop has finished before a queued job starts; every submitted item must be executed exactly once. The in-process runner is serialised by a lock when n_workers > 1 (it changes the process cwd); thread start order and what each task runs remain jobmap's",
        "n_workers=1 in every history outside the option histories; the destination is a plain Collection[bytes] on the Ukv backend, the sources are a MoleculeLibrary / ConformerLibrary",
    ]
    import attrs as _attrs

    unknown = [f.name for f in _attrs.fields(JobInput) if f.name not in set(VARY_FIELD.values())]
    if unknown:
        raise HarnessError(f"JobInput has fields that the 'input differs in one field only' histories do not vary: {unknown} - extend VARY in mc/props/c18.py")
    ctx.bound["input_differs_in_one_field"] = {"fields_of_JobInput": [f.name for f in _attrs.fields(JobInput)], "variants": list(VARY)}
    import inspect as _inspect

    kws = list(_inspect.signature(jobmap).parameters)
    unknown_kw = [k for k in kws if k not in OPT_OF_KEYWORD and k not in OTHER_KEYWORDS]
    if unknown_kw:
        raise HarnessError(f"jobmap accepts keywords that the option histories do not exercise: {unknown_kw} - extend BASE_OPTS/ALT_OPTS in mc/props/c18.py")
    ctx.bound["jobmap_keywords"] = {"signature": kws, "alternatives": {k: [repr(x) for x in v] for k, v in ALT_OPTS.items()}, "item_counts": "1, 2, n_workers, n_workers+1, 2*n_workers+1"}
    ctx.bound["sub_jobs_per_item"] = [2, 10, 11, 12, 101]
    parts = []
    nproc = 16 if ctx.thorough else 8
    oc = option_configs(ctx.thorough)
    parts += [(2, ["truncate"], False, c) for c in chunk(oc, nproc * 3)]
    sc = subjob_configs(ctx.thorough)
    parts += [(2, ["truncate"], False, [c]) for c in sc]
    if ctx.thorough:
        # the option cases where jobs outnumber the workers, and the 11 sub-job item, through the real subprocess runner too
        parts += [(1, ["truncate"], True, [c]) for c in oc if c["kind"] == "single" and len(c["keys"]) == 5 and c["opts"].get("n_workers") == 2 and set(c["opts"]) == {"progress", "n_workers", "verbose"} and not c["opts"]["verbose"]]
        parts += [(1, ["truncate"], True, [c]) for c in sc if c.get("nconf") == 11 and c["keys"] == ["K"] and c["decl"] == "file"]
    k2, k3 = ["k0", "k1"], ["k0", "k1", "k2"]
    T = ["truncate"]
    if not ctx.thorough:
        parts += [(2, T, False, c) for c in chunk(configs("single", k2, single), nproc * 2)]
        parts += [(2, T, False, c) for c in chunk(configs("vector", k2, vec5), nproc * 3)]
        # jobs declared without return files (result on stdout): the histories that reuse / invalidate the cache
        noO = [p for p in single if p != ("O",)]
        NF = (False,)  # the destination-only key is independent of these dimensions: explored above
        parts += [(2, T, False, c) for c in chunk(configs("single", k2, noO, "none", foreign_opts=NF), nproc * 2)]
        parts += [(2, T, False, c) for c in chunk(configs("vector", k2, [p for p in vec5 if "O" not in p], "none", foreign_opts=NF), nproc * 3)]
        parts += [(2, T, False, c) for c in chunk(configs("single", k2, [("S",), ("F",)], "empty", foreign_opts=NF), nproc)]
        # strict_hash=False: every history of 1..2 runs again (hashes ignored, failed / unreadable outputs still not reused)
        parts += [(2, T, False, c) for c in chunk(configs("single", k2, single, strict=False, foreign_opts=NF), nproc * 2)]
        parts += [(2, T, False, c) for c in chunk(configs("vector", k2, [p for p in vec5 if "O" not in p and "FS" not in p], strict=False, foreign_opts=NF), nproc * 3)]
        # outcomes that get WORSE from one execution to the next (succeed, then fail / then produce nothing / then fail
        # after producing the result) x input same/changed x destination same/fresh: an item that fails now must not be
        # served from what an earlier run left behind
        worse = [("SF",), ("SO",), ("SW",)]
        parts += [(2, T, False, c) for c in chunk(configs("single", k2, worse, foreign_opts=NF), nproc * 2)]
        parts += [(2, T, False, c) for c in chunk(configs("vector", k2, [("SF", "S"), ("S", "SO")], foreign_opts=NF), nproc * 2)]
        parts += [(2, T, False, c) for c in chunk(configs("single", k2, [("SF",), ("SW",)], "none", foreign_opts=NF, prepop=False), nproc)]
        parts += [(2, T, False, c) for c in chunk(configs("single", k2, [("SF",)], strict=False, foreign_opts=NF, prepop=False), nproc)]
        ctx.bound["scripts"] = "per-attempt outcome strings over {S,F,O,W}: S F FS O W (everywhere); SF SO SW (single), SF / SO on one conformer (vectorised), 1..2 runs"
        # the input of the second run differs from the first in exactly ONE field of JobInput
        for v in rot(VARY, seed):
            parts += [(2, T, False, c) for c in chunk(configs("single", k2, [("S",), ("F",)], foreign_opts=NF, prepop=False, vary=v), 2)]
            if v in ("jid", "envars-value", "timeout"):
                parts += [(2, T, False, configs("vector", k2, [("S", "S")], foreign_opts=NF, prepop=False, vary=v))]
        # result sizes: a command that succeeds and legitimately leaves a 0-byte / 1-byte return file
        parts += [(2, T, False, c) for c in chunk(configs("single", k2, [("E",), ("Y",), ("S",)], foreign_opts=NF), nproc)]
        parts += [(2, T, False, c) for c in chunk(configs("vector", k2, [("E", "S"), ("S", "Y"), ("E", "E")], foreign_opts=NF, prepop=False), nproc)]
        # commands terminated by a signal (negative return code), after / before producing the result
        parts += [(2, T, False, c) for c in chunk(configs("single", k2, [("K",), ("G",), ("Z",)], foreign_opts=NF), nproc)]
        parts += [(2, T, False, c) for c in chunk(configs("vector", k2, [("K", "S"), ("S", "G"), ("Z", "S")], foreign_opts=NF, prepop=False), nproc)]
        parts += [(2, T, False, c) for c in chunk(configs("single", k2, [("K",), ("SK",)], "none", foreign_opts=NF, prepop=False), 4)]
        # key alphabets
        for name, ks in KEYSETS.items():
            parts += [(2, T, False, c) for c in chunk(configs("single", ks, [("S",), ("F",)], foreign_opts=NF, prepop=False), nproc)]
            if name in ("lig", "ext"):
                parts += [(2, T, False, c) for c in chunk(configs("vector", ks, [("S", "S"), ("F", "S")], foreign_opts=NF, prepop=False), nproc)]
        ctx.bound["strict_hash"] = "True: everything; False: single (5 scripts) + vectorised (plans SS, FS, SW), 1..2 runs, with pre-populated destinations"
        ctx.bound["key_sets"] = {k: v for k, v in KEYSETS.items()}
        ctx.bound["declarations"] = {"return_files=('res.txt',)": "all scripts", "return_files=None": "scripts S,F,FS,W; single + vectorised", "return_files=()": "scripts S,F; single"}
        ctx.bound.update({"items": 2, "runs": "1..2", "vector_plans": [list(p) for p in VEC5], "corrupt_kinds": T})
    else:
        CK = ["truncate", "empty", "garbage", "scalar"]
        # 1..3 runs, 2 items
        parts += [(3, T, False, x) for x in chunk(configs("single", k2, single), nproc * 2)]
        parts += [(3, T, False, x) for x in chunk(configs("vector", k2, vec5), nproc * 4)]
        # 1..2 runs: every per-conformer plan pair on k0; 3 items; all corruption kinds
        parts += [(2, CK[:2], False, x) for x in chunk(configs("vector", k2, {"k0": vec25, "k1": vec5}), nproc * 4)]
        parts += [(2, T, False, x) for x in chunk(configs("single", k3, single), nproc * 4)]
        parts += [(2, T, False, x) for x in chunk(configs("vector", k3, vec5), nproc * 4)]
        # jobs declared without return files (None: result on stdout; ())
        parts += [(3, T, False, x) for x in chunk(configs("single", k2, single, "none"), nproc * 2)]
        parts += [(2, CK, False, x) for x in chunk(configs("vector", k2, vec5, "none"), nproc * 4)]
        parts += [(2, T, False, x) for x in chunk(configs("single", k2, single, "empty"), nproc * 2)]
        parts += [(2, T, False, x) for x in chunk(configs("vector", k2, [("S", "S"), ("F", "S"), ("S", "W")], "empty"), nproc * 2)]
        parts += [(2, T, True, x) for x in chunk(configs("single", k2, [("S",), ("F",)], "none"), 18)]
        ctx.bound["declarations"] = "return_files=None: single 1..3 runs (5 scripts), vectorised 1..2 runs (5 plans, 4 corruption kinds); return_files=(): single (5 scripts) and vectorised (3 plans) 1..2 runs; real runner: single None-declared S/F 1..2 runs"
        NF = (False,)
        # outcomes that change from execution to execution, 1..3 runs
        seqs = [("SF",), ("SO",), ("SW",), ("SFS",), ("SSF",), ("FSF",)]
        parts += [(3, T, False, x) for x in chunk(configs("single", k2, {"k0": seqs, "k1": [("S",), ("SF",)]}, foreign_opts=NF), nproc * 3)]
        parts += [(2, CK, False, x) for x in chunk(configs("single", k2, seqs, foreign_opts=NF), nproc * 2)]
        parts += [(2, T, False, x) for x in chunk(configs("vector", k2, [("SF", "S"), ("S", "SO"), ("SW", "SF"), ("FS", "SF")], foreign_opts=NF), nproc * 3)]
        parts += [(2, T, False, x) for x in chunk(configs("single", k2, [("SF",), ("SW",), ("SO",)], "none", foreign_opts=NF), nproc)]
        parts += [(2, T, False, x) for x in chunk(configs("single", k2, [("SF",), ("SW",)], strict=False, foreign_opts=NF), nproc)]
        parts += [(2, T, True, x) for x in chunk(configs("single", k2, [("SF",)], foreign_opts=NF, prepop=False), 4)]
        ctx.bound["scripts"] = "per-attempt outcome strings over {S,F,O,W}: S F FS O W everywhere; SF SO SW SFS SSF FSF single 1..3 runs; vectorised SF/SO/SW/FS mixes 1..2 runs; real runner SF"
        # result sizes 0 / 1 byte
        parts += [(3, T, False, x) for x in chunk(configs("single", k2, [("E",), ("Y",), ("FE",), ("ES",)], foreign_opts=NF), nproc * 2)]
        parts += [(2, CK[:2], False, x) for x in chunk(configs("vector", k2, [("E", "S"), ("S", "Y"), ("E", "E"), ("E", "F")], foreign_opts=NF), nproc * 2)]
        parts += [(2, T, False, x) for x in chunk(configs("single", k2, [("E",), ("Y",)], strict=False, foreign_opts=NF, prepop=False), nproc)]
        parts += [(2, T, True, x) for x in chunk(configs("single", k2, [("E",)], foreign_opts=NF, prepop=False), 4)]
        # commands terminated by a signal
        sig = [("K",), ("G",), ("Z",), ("SK",), ("KS",)]
        parts += [(3, T, False, x) for x in chunk(configs("single", k2, {"k0": sig, "k1": [("S",), ("K",)]}, foreign_opts=NF), nproc * 2)]
        parts += [(2, T, False, x) for x in chunk(configs("vector", k2, [("K", "S"), ("S", "G"), ("Z", "S"), ("K", "F"), ("SK", "S")], foreign_opts=NF), nproc * 2)]
        parts += [(2, T, False, x) for x in chunk(configs("single", k2, [("K",), ("G",), ("Z",)], "none", foreign_opts=NF), nproc)]
        parts += [(2, T, False, x) for x in chunk(configs("single", k2, [("K",), ("Z",)], strict=False, foreign_opts=NF), nproc)]
        parts += [(2, T, True, x) for x in chunk(configs("single", k2, [("K",)], foreign_opts=NF, prepop=False), 4)]
        # the input differs in exactly one field of JobInput
        for v in VARY:
            parts += [(3 if v in ("jid", "envars-value", "timeout") else 2, T, False, x) for x in chunk(configs("single", k2, [("S",), ("F",), ("FS",)], foreign_opts=NF, vary=v), 8)]
            parts += [(2, T, False, x) for x in chunk(configs("vector", k2, [("S", "S"), ("F", "S")], foreign_opts=NF, prepop=False, vary=v), 4)]
            if v != "return_files":
                parts += [(2, T, False, x) for x in chunk(configs("single", k2, [("S",), ("F",)], "none", foreign_opts=NF, prepop=False, vary=v), 4)]
        parts += [(2, T, True, x) for x in chunk(configs("single", k2, [("S",)], foreign_opts=NF, prepop=False, vary="envars-value"), 1)]
        parts += [(2, T, True, x) for x in chunk(configs("single", k2, [("S",)], foreign_opts=NF, prepop=False, vary="timeout"), 1)]
        # strict_hash=False
        parts += [(3, T, False, x) for x in chunk(configs("single", k2, single, strict=False, foreign_opts=NF), nproc * 2)]
        parts += [(2, CK, False, x) for x in chunk(configs("vector", k2, vec5, strict=False, foreign_opts=NF), nproc * 3)]
        parts += [(2, T, False, x) for x in chunk(configs("single", k3, single, strict=False, foreign_opts=NF), nproc * 3)]
        parts += [(2, T, False, x) for x in chunk(configs("single", k2, [("S",), ("F",), ("FS",)], "none", strict=False, foreign_opts=NF), nproc)]
        # key alphabets: all scripts, pre-populated destinations
        for name, ks in KEYSETS.items():
            parts += [(2, T, False, x) for x in chunk(configs("single", ks, single, foreign_opts=NF), nproc * 3)]
            if name in ("lig", "ab", "ext"):
                parts += [(2, T, False, x) for x in chunk(configs("vector", ks, vec5, foreign_opts=NF), nproc * 3)]
            parts += [(2, T, False, x) for x in chunk(configs("single", ks, [("S",), ("F",)], strict=False, foreign_opts=NF, prepop=False), nproc)]
        parts += [(2, T, True, x) for x in chunk(configs("single", k2, [("S",), ("F",)], strict=False, foreign_opts=NF), 9)]
        parts += [(1, T, True, x) for x in chunk(configs("single", KEYSETS["lig"], [("S",), ("F",)], foreign_opts=NF, prepop=False), 8)]
        ctx.bound["strict_hash"] = "False: single 1..3 runs (2 items), 1..2 runs (3 items), vectorised 1..2 runs with 4 corruption kinds, None-declared single; real runner single S/F"
        ctx.bound["key_sets"] = {k: v for k, v in KEYSETS.items()}
        # conformance: the same histories through the unmodified subprocess runner (_molli_run)
        parts += [(2, T, True, x) for x in chunk(configs("single", k2, single), 72)]
        parts += [(1, T, True, x) for x in chunk(configs("vector", k2, vec5), 36)]
        ctx.bound.update(
            {
                "runs_1..3": "2 items: single (5 scripts), vectorised (5 plans)",
                "runs_1..2": "2 items vectorised with all 25 per-conformer plans on k0, 2 corruption kinds; 3 items single (4 corruption kinds) and vectorised",
                "real_subprocess_runner": "2 items: single 1..2 runs (all), vectorised 1 run (all)",
            }
        )
    # slow parts first
    parts.sort(key=lambda p: (0 if p[2] else 1, -p[0]))
    ctx.pmap(_run_part, parts, nproc=nproc)


def replay(ctx, case):
    cfg = case["cfg"]
    root = Path(ctx.scratch) / "c18"
    root.mkdir(parents=True, exist_ok=True)
    world = World(ctx, cfg, root, real_runner=bool(case.get("real_runner")))
    world.setup()
    hist = [(tuple(a[0]), a[1], a[2]) for a in case["history"]]
    c = dict(case)
    if not world.run(c):
        return
    for act in hist:
        world.apply(act)
        if not world.run(c):
            return
