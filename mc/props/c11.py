"""
C11 - geometric operations are rigid motions with the documented effect.

Bounded-exhaustive enumeration over finite LATTICES (engine enumx, DESIGN 3.4 / "### C11"), executed on
the real molli code, judged by float64 numpy written in mc/props/c11_num.py:

  rv   rotation_matrix_from_vectors : all ordered pairs of the 78-vector lattice (26 directions x 3
       magnitudes), un-rotated (axis aligned) and turned by the seed-chosen global rotation; the
       antiparallel neighbourhood v2 = -v1 + d|v1|u for d in D_MENU, u from an orthogonal pair; whenever
       the call consumes numpy.random.rand, EVERY answer of the RNG menu is enumerated (12 fixed answers +
       answers exactly / nearly parallel to v2 when those lie in [0,1)^3)
  ra   rotation_matrix_from_axis    : lattice axes x angle menu
  mol  translate / transform / Substructure translate, transform, coords= on test molecules
  dih  rotate_dihedral              : every acyclic bond with neighbours on both sides, both directions,
       every (a, d) choice, x target menu
  ens  ConformerEnsemble translate (1-D, 2-D), rotate (matrix, stack), center_at_atom, center_at_core,
       Conformer translate/transform/rotate_dihedral (one conformer of the stack)
  aln  align_to_ref_coords (ensemble and Molecule) from 6 initial poses, Kabsch func of the harness
  hist a Substructure that is created and KEPT while its parent is edited (none / del_atom of an unselected
       atom with a lower or a higher index / add_atom / parent.translate / parent.transform), then used for
       translate, transform, coords=, read: atoms matched by identity; the same for a kept Conformer (and a
       Substructure of it) across ensemble translate / rotate / center_at_core / an edit of another conformer
  arg  every function above with each argument kind (float64, strided view, read-only, float32, int64, list,
       tuple): the arguments are bit-identical afterwards, the effect is the documented one
  own  arguments that are VIEWS of the object's own coordinates (get_atom_coord, coords[i], vector, ensemble rows /
       columns / conformers, a row of the reference): computing a matrix must not move an atom; the whole
       "orient the molecule" history is a rigid motion that puts the chosen atom on the target axis

Only ctx.seed-dependent thing: the global rotation G(seed) of the lattices and of the molecules.
"""
from __future__ import annotations

import math

import numpy as np

import molli as ml
from molli.chem import Atom
from molli.math.rotation import rotation_matrix_from_vectors, rotation_matrix_from_axis

from mc.props import c11_num as N
from mc.props.c11_num import TOL, EPS

LEVEL = "model_checking"

PI = math.pi
D_MENU = (1e-3, 2e-4, 1e-4, 1e-5, 1e-7, 1e-8, 1e-9, 1e-12, 0.0)
ANGLES = (0.0, 1e-9, -1e-9, PI / 6, -PI / 6, PI / 2, -PI / 2, 2.0, -2.0, PI, -PI, 2 * PI, 7.0)
TARGETS = (0.0, 1e-9, PI / 6, -PI / 6, PI / 2, -PI / 2, 2.0, -2.0, PI, 3.0, 2 * PI, 7.0)
DOC_SWITCH = 1e-8  # the documented `tol` of rotation_matrix_from_vectors (default value)

REPRO = {
    "dih": (
        "import molli as ml\n"
        "m = ml.Molecule(ml.ConformerEnsemble.load_mol2(ml.files.pentane_confs_mol2)[0])\n"
        "q, t = (0, 1, 5, 8), 1.0            # C-C-C-C of pentane, target 1.0 rad\n"
        "d0 = m.dihedral(*q); m.rotate_dihedral(q, t); d1 = m.dihedral(*q)\n"
        "print('before', d0, 'target', t, 'after', d1)   # after == 2*before - target (mod 2pi), not target\n"
    ),
    "rv_nan": (
        "import numpy as np\n"
        "from molli.math.rotation import rotation_matrix_from_vectors\n"
        "np.random.rand = lambda *a: np.array([0.5, 0.0, 0.0])   # a possible answer of rand(3)\n"
        "print(rotation_matrix_from_vectors([-1.0, 0, 0], [1.0, 0, 0]))   # all NaN, no retry\n"
    ),
}


# =====================================================================================================
# test molecules (built once per process; coordinates are reset before every case)
# =====================================================================================================
def _build(name, elems, coords, bonds):
    m = ml.Molecule(name=name)
    for i, (e, c) in enumerate(zip(elems, coords)):
        m.add_atom(Atom(e, label=f"{e}{i}"), [float(x) for x in c], charge=0.0)
    for i, j in bonds:
        m.connect(i, j)
    return m


def _chiral5():
    return _build(
        "chiral5",
        ["C", "F", "Cl", "Br", "H"],
        [(0.0, 0.0, 0.0), (0.78, 0.78, 0.78), (-1.02, -1.02, 1.02), (-1.12, 1.12, -1.12), (0.63, -0.63, -0.63)],
        [(0, 1), (0, 2), (0, 3), (0, 4)],
    )


def _twofrag():
    # methanol-like fragment + a separate water-like fragment in ONE molecule
    return _build(
        "twofrag",
        ["C", "O", "H", "H", "H", "H", "O", "H", "H"],
        [
            (0.0, 0.0, 0.0),
            (1.41, 0.05, -0.1),
            (-0.38, 1.02, 0.07),
            (-0.36, -0.55, 0.88),
            (-0.35, -0.48, -0.92),
            (1.73, 0.52, 0.68),
            (4.0, 1.0, -2.0),
            (4.6, 1.7, -2.2),
            (3.2, 1.4, -1.7),
        ],
        [(0, 1), (0, 2), (0, 3), (0, 4), (1, 5), (6, 7), (6, 8)],
    )


_CACHE: dict = {}


def _raw_mol(name):
    if name in _CACHE:
        return _CACHE[name]
    if name == "chiral5":
        m = _chiral5()
    elif name == "twofrag":
        m = _twofrag()
    elif name == "mono1":
        m = _build("mono1", ["C"], [(0.7, -0.4, 1.1)], [])
    elif name == "tri3":
        m = _build("tri3", ["O", "C", "N"], [(0.0, 0.0, 0.0), (1.21, 0.1, -0.2), (1.9, 1.2, 0.3)], [(0, 1), (1, 2)])
    elif name.startswith("pentane"):
        k = int(name[len("pentane") :])
        m = ml.Molecule(ml.ConformerEnsemble.load_mol2(ml.files.pentane_confs_mol2)[k])
    else:
        m = ml.Molecule.load_mol2(getattr(ml.files, name))
    _CACHE[name] = m
    return m


def _raw_ens(name):
    key = "ens:" + name
    if key in _CACHE:
        return _CACHE[key]
    if name == "pentane_confs":
        e = ml.ConformerEnsemble.load_mol2(ml.files.pentane_confs_mol2)
    elif name == "chiral5x3":
        base = _chiral5()
        confs = []
        for k in range(3):
            m = ml.Molecule(base)
            c = np.array(base.coords, dtype=float)
            c[1:] += 0.07 * k * np.array([[1, 0, 0], [0, 1, 0], [0, 0, 1], [-1, 1, 0]], dtype=float)
            m.coords = c
            confs.append(m)
        e = ml.ConformerEnsemble(confs)
    elif name == "pentane17":
        # n_conformers == n_atoms for the pentane-like test molecule: 17 conformers of the 17-atom pentane
        src = ml.ConformerEnsemble.load_mol2(ml.files.pentane_confs_mol2)
        confs = []
        for k in range(17):
            m = ml.Molecule(src[k % src.n_conformers])
            c = np.array(m.coords, dtype=float)
            Mk, tk = N.pose_matrix(k % len(N.POSES))
            c = c @ Mk + tk * 0.3
            c[2:5] += 0.01 * (k // 7) * np.array([[1.0, 0, 0], [0, 1.0, 0], [0, 0, 1.0]])
            m.coords = c
            confs.append(m)
        e = ml.ConformerEnsemble(confs)
    elif name.startswith("syn"):
        # synthetic chain ensembles for shape coincidences: syn<n_conformers>x<n_atoms>
        nc, na = (int(x) for x in name[3:].split("x"))
        base = _build(
            name,
            [("C", "N", "O", "S", "F")[i % 5] for i in range(na)],
            [(1.31 * i, 0.93 * math.sin(1.1 * i + 0.4), 0.81 * math.cos(0.7 * i) + 0.13 * i) for i in range(na)],
            [(i, i + 1) for i in range(na - 1)],
        )
        confs = []
        for k in range(nc):
            m = ml.Molecule(base)
            c = np.array(base.coords, dtype=float)
            for i in range(na):
                c[i] += 0.09 * np.array([math.sin(k + 2.0 * i), math.cos(1.3 * k + i), math.sin(0.7 * k - i)]) * (k > 0)
            Mk, tk = N.pose_matrix(k % len(N.POSES))
            m.coords = c @ Mk + 0.2 * tk + np.array([0.4, -0.3, 0.7])
            confs.append(m)
        e = ml.ConformerEnsemble(confs)
    else:
        raise KeyError(name)
    _CACHE[key] = e
    return e


# (n_conformers, n_atoms) coincidences: wherever the meaning of an argument is dispatched on its shape
SHAPE_ENS = ["syn1x1", "syn1x3", "syn3x1", "syn3x3", "syn2x3", "syn3x2", "syn4x4", "syn5x5", "pentane17"]


MOLS_QUICK = ["chiral5", "twofrag", "pentane0", "dendrobine_mol2", "mono1", "tri3"]
MOLS_THOROUGH = MOLS_QUICK + [
    "pentane3",
    "benzene_mol2",
    "dmf_mol2",
    "fxyl_mol2",
    "isornitrate_mol2",
    "box_backbone_mol2",
    "bpa_backbone_mol2",
    "cinchonidine_query",
    "hadd_test_mol2",
]
ENS_ALL = ["pentane_confs", "chiral5x3"]


class Topo:
    """Connectivity read from the molecule's bond table once; graph work is done here, not by molli."""

    def __init__(self, m):
        self.n = m.n_atoms
        idx = {id(a): i for i, a in enumerate(m.atoms)}
        self.adj = [[] for _ in range(self.n)]
        self.bonds = []
        for b in m.bonds:
            i, j = idx[id(b.a1)], idx[id(b.a2)]
            self.adj[i].append(j)
            self.adj[j].append(i)
            self.bonds.append((i, j))
        self.elements = [a.element.symbol for a in m.atoms]

    def side(self, b, c):
        """atoms reachable from c without passing through b (c included)"""
        seen = {b, c}
        stack = [c]
        out = [c]
        while stack:
            x = stack.pop()
            for y in self.adj[x]:
                if y not in seen:
                    seen.add(y)
                    out.append(y)
                    stack.append(y)
        return sorted(out)

    def acyclic(self, i, j):
        # is j reachable from i without using the bond i-j ?
        seen = {i}
        stack = [i]
        while stack:
            x = stack.pop()
            for y in self.adj[x]:
                if x == i and y == j:
                    continue
                if y == j:
                    return False
                if y not in seen:
                    seen.add(y)
                    stack.append(y)
        return True

    def rotatable(self):
        out = []
        for i, j in self.bonds:
            if len(self.adj[i]) > 1 and len(self.adj[j]) > 1 and self.acyclic(i, j):
                out.append((i, j))
        return out

    def stereo_quads(self):
        import itertools

        qs = []
        for c in range(self.n):
            if len(self.adj[c]) >= 3:
                for t in itertools.combinations(sorted(self.adj[c]), 3):
                    qs.append((c,) + t)
        return qs

    def heavy(self):
        return [i for i, e in enumerate(self.elements) if e != "H"]


def _topo(kind, name):
    key = ("topo", kind, name)
    if key not in _CACHE:
        _CACHE[key] = Topo(_raw_mol(name) if kind == "mol" else _raw_ens(name))
    return _CACHE[key]


def _G(ctx, k=0):
    return N.seed_rotation(ctx.seed + 1000 * k)


def _posed_mol(ctx, name):
    """fresh coordinates (global pose G(seed)) on the cached molecule object"""
    m = _raw_mol(name)
    key = ("base", name, ctx.seed)
    if key not in _CACHE:
        bk = ("raw", name)
        if bk not in _CACHE:
            _CACHE[bk] = np.array(m.coords, dtype=float, copy=True)
        _CACHE[key] = _CACHE[bk] @ _G(ctx)
    base = _CACHE[key]
    m._coords = base.copy()
    return m, base


def _posed_ens(ctx, name):
    e = _raw_ens(name)
    key = ("ebase", name, ctx.seed)
    if key not in _CACHE:
        bk = ("eraw", name)
        if bk not in _CACHE:
            _CACHE[bk] = np.array(e.coords, dtype=float, copy=True)
        _CACHE[key] = _CACHE[bk] @ _G(ctx)
    base = _CACHE[key]
    e._coords = base.copy()
    return e, base


def _exc(e):
    return type(e).__name__


def _tkw(case):
    """keyword arguments of transform(): every documented flag is part of the alphabet"""
    return {} if case.get("validate") is None else {"validate": bool(case["validate"])}


def _ttag(case):
    return "" if not case.get("validate") else "[validate=True]"


_MAXR: dict = {}  # family -> largest observed error/tolerance ratio among judged quantities (printed with C11_DEBUG=1)


def _ratio(key, err, tol):
    if tol > 0 and err == err and err != math.inf:
        r = err / tol
        if r > _MAXR.get(key, 0.0):
            _MAXR[key] = r


# =====================================================================================================
# rv : rotation_matrix_from_vectors
# =====================================================================================================
def _one_plus_c(v1, v2):
    n1, n2 = N.unit(v1), N.unit(v2)
    # 1 + cos = |n1 + n2|^2 / 2 (no cancellation against 1)
    s = n1 + n2
    return float(np.dot(s, s) / 2.0)


def rv_tol(onepc):
    """1e-9, widened by the conditioning eps/(1+c) of the documented Rodrigues form, which the function
    documents to use down to 1+c = tol = 1e-8 (below that it switches to the two-step construction)."""
    return max(TOL, 256 * EPS / max(onepc, DOC_SWITCH))


def exec_rv(ctx, case):
    v1 = np.array(case["v1"], dtype=float)
    v2 = np.array(case["v2"], dtype=float)
    cls = case["cls"]
    onepc = case["onepc"]
    answers = case["answers"]
    rngcls = case.get("rngcls", "generic")
    tolarg = case.get("tol")  # the documented keyword `tol` of the function, when given
    tol = rv_tol(onepc) if tolarg is None else max(TOL, 256 * EPS / max(onepc, float(tolarg)))
    R = None
    err = None
    old = np.seterr(all="ignore")
    try:
        with N.RandSeam(answers, reseed=case.get("reseed", 0)) as seam:
            try:
                R = rotation_matrix_from_vectors(v1.copy(), v2.copy(), **({} if tolarg is None else {"tol": float(tolarg)}))
            except N.SeamExhausted:
                err = "rng-retries-exhausted"
            except RecursionError:
                err = "rng-retries-exhausted"
            except Exception as e:
                err = "raised-" + _exc(e)
            calls = seam.calls
    finally:
        np.seterr(**old)
    ctx.count(evaluations=1, states=1, transitions=1, traces=1)
    rngpart = f":rng={rngcls}" if calls else ""
    pre = f"rotation_matrix_from_vectors{'' if tolarg is None else '[tol=given]'}:{cls}{rngpart}"
    sym = []
    if err:
        sym.append((err, f"call failed ({err})"))
    else:
        R = np.asarray(R)
        if R.shape != (3, 3) or not np.all(np.isfinite(R)):
            sym.append(("non-finite", f"result is not a finite 3x3 matrix: {R.tolist()}"))
        else:
            R = R.astype(float)
            eo = float(np.max(np.abs(R @ R.T - np.eye(3))))
            ed = abs(float(np.linalg.det(R)) - 1.0)
            em = float(np.max(np.abs(N.unit(v1) @ R - N.unit(v2))))
            _ratio("rv:" + cls, max(eo, ed, em), tol)
            if max(eo, ed, em) > TOL and max(eo, ed, em) <= tol:
                ctx.add_note("rv_results_off_by_more_than_1e-9_but_within_the_conditioned_tolerance(near_antiparallel_Rodrigues_branch)")
            if ed > max(tol, 0.5) and abs(float(np.linalg.det(R)) + 1.0) < 0.5:
                sym.append(("improper-det-minus-one", f"det R = {np.linalg.det(R):.6g}"))
            elif eo > tol or ed > tol:
                sym.append(("not-orthonormal", f"|R R^T - I| = {eo:.3g}, |det-1| = {ed:.3g} > {tol:.3g}"))
            if em > tol:
                em_col = float(np.max(np.abs(R @ N.unit(v1) - N.unit(v2))))
                if em_col <= tol:
                    sym.append(("maps-v1-to-v2-only-in-column-convention", f"|v1n @ R - v2n| = {em:.3g} but R @ v1n = v2n"))
                else:
                    sym.append(("v1-not-mapped-onto-v2", f"|v1n @ R - v2n| = {em:.3g} > {tol:.3g}"))
            ctx.outcome(("rv", cls, calls, not sym, round(float(np.trace(R)), 3)))
    for s, what in sym:
        ctx.violation(
            f"{pre}:{s}",
            f"rotation_matrix_from_vectors(v1, v2) [{cls}, 1+cos={onepc:.3g}, rand answers consumed={calls}]: {what}",
            case,
            repro=REPRO["rv_nan"] if s == "non-finite" and calls else None,
        )
    if not sym and cls != "parallel":
        ctx.nontrivial(("rv", tuple(case["v1"]), tuple(case["v2"]), tuple(answers[0]) if calls else None))
    return calls


def _rng_class(answer, v2):
    """how the first RNG answer lies relative to v2 (a geometric class, the same for every seed)"""
    sn = float(np.linalg.norm(np.cross(N.unit(answer), N.unit(v2))))
    if sn < 1e-12:
        return "parallel-to-v2"
    if sn < 1e-6:
        return "near-parallel-to-v2"
    return "generic"


def rv_cases_for(ctx, v1, v2, cls, onepc, tol=None):
    """the probe case, and - when the call consumed the RNG - one case per answer of the menu"""
    base = {"family": "rv", "v1": N.lst(v1), "v2": N.lst(v2), "cls": cls, "onepc": onepc}
    if tol is not None:
        base["tol"] = tol
    probe = dict(base, answers=[list(a) for a in N.answer_sequence(N.RNG_MENU[0])], rngcls=_rng_class(N.RNG_MENU[0], v2))
    calls = exec_rv(ctx, probe)
    if calls:
        ctx.add_note("rv_cases_consuming_rng")
        for k, a in enumerate(N.RNG_MENU[1:], start=1):
            # the same input once more under a different environment answer (and different global seeds)
            exec_rv(ctx, dict(base, answers=[list(x) for x in N.answer_sequence(a, k)], rngcls=_rng_class(a, v2), reseed=k))
        for rc, a in N.parallel_answers(v2):
            exec_rv(ctx, dict(base, answers=[list(x) for x in N.answer_sequence(a)], rngcls=_rng_class(a, v2), reseed=99))
    return probe


def part_rv_pairs(ctx, spec):
    k, lo, hi = spec
    vecs = N.lattice_vectors(None if k < 0 else _G(ctx, k))
    for i in range(lo, hi):
        for j in range(len(vecs)):
            v1, v2 = vecs[i], vecs[j]
            opc = _one_plus_c(v1, v2)
            c = opc - 1.0
            cls = "parallel" if c > 1 - 1e-12 else ("antiparallel-neighbourhood" if opc < 1e-6 else "general")
            p = rv_cases_for(ctx, v1, v2, cls, opc)
            if i == 1 and j == 5:
                ctx.sample(p)


def part_rv_anti(ctx, spec):
    k, lo, hi = spec
    vecs = N.lattice_vectors(None if k < 0 else _G(ctx, k))
    for i in range(lo, hi):
        v1 = vecs[i]
        u1, u2 = N.any_orthogonal(v1)
        for d in D_MENU:
            for u in (u1, u2) if d else (u1,):
                for s in (1.0, 250.0) if ctx.thorough else (1.0,):
                    v2 = s * (-v1 + d * np.linalg.norm(v1) * u)
                    # exact: v2 = -v1 + d|v1|u, u orthogonal -> cos = -1/sqrt(1+d^2)
                    r = math.sqrt(1.0 + d * d)
                    opc = (d * d) / (r * (r + 1.0))
                    p = rv_cases_for(ctx, v1, v2, "antiparallel-neighbourhood", opc)
                    if i % 6 == 0 and s == 1.0:
                        for tolarg in (1e-4, 1e-6, 1e-10):
                            rv_cases_for(ctx, v1, v2, "antiparallel-neighbourhood", opc, tol=tolarg)
                    if i == 0 and d == 1e-7 and u is u1 and s == 1.0:
                        ctx.sample(p)


# =====================================================================================================
# ra : rotation_matrix_from_axis
# =====================================================================================================
def _ra_sense():
    """which convention the function uses, read off one reference call (z axis, +90 degrees)"""
    R0 = np.asarray(rotation_matrix_from_axis([0.0, 0.0, 1.0], PI / 2), dtype=float)
    ex, ey = np.array([1.0, 0, 0]), np.array([0, 1.0, 0])
    if np.max(np.abs(R0 @ ex - ey)) < 1e-9:
        return "column"
    if np.max(np.abs(ex @ R0 - ey)) < 1e-9:
        return "row"
    return None


def exec_ra(ctx, case):
    axis = np.array(case["axis"], dtype=float)
    ang = float(case["angle"])
    acls = case["angcls"]
    pre = f"rotation_matrix_from_axis:{acls}"
    ctx.count(evaluations=1, states=1, transitions=2, traces=1)
    try:
        sense = _ra_sense()
        R = np.asarray(rotation_matrix_from_axis(axis.copy(), ang), dtype=float)
    except Exception as e:
        ctx.violation(f"{pre}:raised-{_exc(e)}", f"rotation_matrix_from_axis raised {_exc(e)}: {e}", case)
        return
    if R.shape != (3, 3) or not np.all(np.isfinite(R)):
        ctx.violation(f"{pre}:non-finite", "result is not a finite 3x3 matrix", case)
        return
    a = N.unit(axis)
    eo = float(np.max(np.abs(R @ R.T - np.eye(3))))
    ed = abs(float(np.linalg.det(R)) - 1.0)
    _ratio("ra", max(eo, ed), TOL)
    bad = False
    if eo > TOL or ed > TOL:
        ctx.violation(f"{pre}:not-a-proper-rotation", f"|R R^T - I| = {eo:.3g}, |det - 1| = {ed:.3g}", case)
        bad = True
    ea = max(float(np.max(np.abs(R @ a - a))), float(np.max(np.abs(a @ R - a))))
    if ea > TOL:
        ctx.violation(f"{pre}:axis-not-fixed", f"|R a - a| = {ea:.3g}", case)
        bad = True
    p, _ = N.any_orthogonal(a)
    want = math.cos(ang) * p + math.sin(ang) * np.cross(a, p)
    e_col = float(np.max(np.abs(R @ p - want)))
    e_row = float(np.max(np.abs(p @ R - want)))
    if sense is None:
        ctx.violation("rotation_matrix_from_axis:reference:not-a-quarter-turn-about-z", "f([0,0,1], pi/2) maps x to y in neither convention", case)
        return
    e_own = e_col if sense == "column" else e_row
    if e_own > TOL and not bad:
        if min(e_col, e_row) <= TOL:
            ctx.violation(
                f"{pre}:sense-differs-from-reference-call",
                f"turns a perpendicular vector by the angle only in the other convention than f([0,0,1], pi/2) ({sense})",
                case,
            )
        else:
            ctx.violation(f"{pre}:wrong-angle", f"perpendicular vector is not turned by the angle: err {min(e_col, e_row):.3g}", case)
        bad = True
    ctx.outcome(("ra", acls, sense, not bad, round(float(np.trace(R)), 6)))
    if not bad and abs(math.sin(ang / 2)) > 1e-6:
        ctx.nontrivial(("ra", tuple(case["axis"]), ang))
    ctx.add_note("ra_sense_" + str(sense))


def angle_class(a):
    w = N.wrap_angle(a)
    if abs(w) < 1e-12:
        return "angle=0-mod-2pi"
    if abs(abs(w) - PI) < 1e-12:
        return "angle=pi"
    if abs(w) < 1e-6:
        return "angle=tiny"
    return "angle=generic"


def part_ra(ctx, spec):
    k, lo, hi = spec
    vecs = N.lattice_vectors(None if k < 0 else _G(ctx, k))
    for i in range(lo, hi):
        for ang in ANGLES:
            case = {"family": "ra", "axis": N.lst(vecs[i]), "angle": ang, "angcls": angle_class(ang)}
            exec_ra(ctx, case)
            if i == 3 and ang == 2.0:
                ctx.sample(case)


# =====================================================================================================
# common judge for coordinate edits
# =====================================================================================================
def judge_edit(ctx, pre, case, before, after, moved, expected=None, extra_quads=(), what="", rigid_with=()):
    """before/after: (n,3); moved: indices that may move (others must be bit-identical); expected: the
    documented new coordinates of the moved atoms (or None); rigid_with: further atom indices that
    must stay rigid together with the moved part (e.g. the pivot atom of a dihedral rotation)."""
    ok = True
    before = np.asarray(before)
    after = np.asarray(after)
    if after.shape != before.shape or after.dtype != before.dtype:
        ctx.violation(f"{pre}:coords-shape-or-dtype-changed", f"{what}: coords {before.shape}/{before.dtype} -> {after.shape}/{after.dtype}", case)
        return False
    n = len(before)
    mv = sorted(set(int(i) for i in moved))
    others = [i for i in range(n) if i not in set(mv)]
    if others and before[others].tobytes() != after[others].tobytes():
        nchg = int(np.sum(np.any(before[others] != after[others], axis=1)))
        ctx.violation(f"{pre}:atoms-outside-selection-changed", f"{what}: {nchg} atom(s) outside the selection are not bit-identical", case)
        ok = False
    if not np.all(np.isfinite(after)):
        ctx.violation(f"{pre}:non-finite-coordinates", f"{what}: NaN/inf coordinates", case)
        return False
    M = N.mag(before, after)
    part = sorted(set(mv) | set(int(i) for i in rigid_with))
    pos = {a: k for k, a in enumerate(part)}
    quads = N.quads_for(len(part), [tuple(pos[i] for i in q) for q in extra_quads if all(i in pos for i in q)])
    de, ve, _ = N.rigid_errors(before[part], after[part], quads)
    L = N.extent(before[part])
    dtol, vtol = TOL * M, TOL * M * L * L
    _ratio("edit-dist:" + pre, de, dtol)
    _ratio("edit-vol:" + pre, ve, vtol)
    if de > dtol:
        ctx.violation(f"{pre}:distances-changed", f"{what}: an interatomic distance inside the moved part changed by {de:.3g} (tol {dtol:.3g})", case)
        ok = False
    elif ve > vtol:
        sym = "mirrored" if N.mirrored(before[part], after[part], quads, vtol) else "signed-volume-changed"
        ctx.violation(f"{pre}:{sym}", f"{what}: signed volume of an atom quadruple changed by {ve:.3g} (tol {vtol:.3g})", case)
        ok = False
    if expected is not None and ok:
        ee = float(np.max(np.abs(after[mv] - np.asarray(expected)))) if mv else 0.0
        _ratio("edit-doc:" + pre, ee, TOL * M)
        if ee > TOL * M:
            ctx.violation(f"{pre}:not-the-documented-effect", f"{what}: moved atoms differ from the documented result by {ee:.3g} (tol {TOL*M:.3g})", case)
            ok = False
    return ok


# =====================================================================================================
# mol : translate / transform / Substructure edits
# =====================================================================================================
def exec_mol(ctx, case):
    name = case["mol"]
    op = case["op"]
    m, base = _posed_mol(ctx, name)
    topo = _topo("mol", name)
    n = m.n_atoms
    sel = case.get("sel")
    pre = f"{op}{_ttag(case)}"
    ctx.count(evaluations=1, states=1, transitions=1, traces=1)
    vec = np.array(case["vec"], dtype=float) if "vec" in case else None
    R = None
    if "rot" in case:
        ax, ang = case["rot"]
        R = N.rot_axis_angle(ax, ang)
    try:
        if op == "Molecule.translate":
            arg = [int(x) for x in case["vec"]] if case.get("as_int") else (case["vec"] if case.get("as_list") else vec.copy())
            m.translate(arg)
            moved, expected = list(range(n)), base + vec
        elif op == "Molecule.transform":
            m.transform(R.copy(), **_tkw(case))
            moved, expected = list(range(n)), base @ R
        elif op == "Substructure.translate":
            m.substructure(list(sel)).translate(vec.copy())
            moved, expected = sel, base[sorted(set(sel))] + vec
        elif op == "Substructure.transform":
            m.substructure(list(sel)).transform(R.copy(), **_tkw(case))
            moved, expected = sel, base[sorted(set(sel))] @ R
        elif op == "Substructure.coords=":
            new = base[list(sel)] @ R + vec
            m.substructure(list(sel)).coords = new.copy()
            order = np.argsort(np.array(sel), kind="stable")
            moved, expected = sel, new[order]
        elif op == "Substructure.coords-read":
            got = np.array(m.substructure(list(sel)).coords)
            moved, expected = [], None
            if got.shape != (len(sel), 3) or got.tobytes() != base[list(sel)].tobytes():
                ctx.violation(f"{pre}:wrong-rows", "Substructure.coords does not return the selected atoms' rows in selection order", case)
        else:
            raise KeyError(op)
    except Exception as e:
        ctx.violation(f"{pre}:raised-{_exc(e)}", f"{op} on {name} raised {_exc(e)}: {e}", case)
        return
    after = np.asarray(m.coords)
    ok = judge_edit(ctx, pre, case, base, after, moved, expected, topo.stereo_quads(), what=f"{op} on {name}")
    disp = float(np.max(np.abs(after - base))) if after.shape == base.shape and np.all(np.isfinite(after)) else -1
    ctx.outcome(("mol", op, ok, disp > 1e-6, len(moved) == n))
    if ok and disp > 1e-6:
        ctx.nontrivial(("mol", name, op, repr(case.get("vec")), repr(case.get("rot")), repr(sel)))


def selections(topo):
    n = topo.n
    sels = []
    hv = topo.heavy()
    if 0 < len(hv) < n:
        sels.append(hv)
    sels.append([n - 1])
    rot = topo.rotatable()
    if rot:
        b, c = rot[0]
        sels.append(topo.side(b, c))
        b, c = rot[-1]
        sels.append(topo.side(c, b))
    if n >= 5:
        sels.append([n - 2, 1, n // 2])  # unsorted, non-contiguous
    sels.append(list(range(n)))
    sels.append(list(range(n - 1, -1, -1)))  # everything, reversed order
    out = []
    for s in sels:
        if s not in out:
            out.append(s)
    return out


def part_mol(ctx, spec):
    name, G_k = spec
    topo = _topo("mol", name)
    Gs = [None, _G(ctx, G_k)]
    vecs = [v for G in Gs for v in N.lattice_vectors(G)]
    first = True
    for v in vecs:
        case = {"family": "mol", "mol": name, "op": "Molecule.translate", "vec": N.lst(v)}
        exec_mol(ctx, case)
        if first and name == "chiral5":
            ctx.sample(case)
            first = False
    exec_mol(ctx, {"family": "mol", "mol": name, "op": "Molecule.translate", "vec": [1.0, 1.0, 1.0], "as_int": True})
    exec_mol(ctx, {"family": "mol", "mol": name, "op": "Molecule.translate", "vec": [0.5, -1.0, 2.0], "as_list": True})
    exec_mol(ctx, {"family": "mol", "mol": name, "op": "Molecule.translate", "vec": [0.0, 0.0, 0.0]})
    axes = [v for G in Gs for v in N.lattice_vectors(G)[:26]]
    for ax in axes:
        for ang in ANGLES:
            exec_mol(ctx, {"family": "mol", "mol": name, "op": "Molecule.transform", "rot": [N.lst(ax), ang]})
            exec_mol(ctx, {"family": "mol", "mol": name, "op": "Molecule.transform", "rot": [N.lst(ax), ang], "validate": True})
    for ax in axes[::5]:
        for ang in ANGLES[3:8]:
            exec_mol(ctx, {"family": "mol", "mol": name, "op": "Molecule.transform", "rot": [N.lst(ax), ang], "validate": False})
    sub_vecs = [vecs[0], vecs[7], vecs[26 + 13], vecs[52 + 25], vecs[78 + 3], vecs[78 + 52 + 20]]
    sub_rots = [(axes[0], PI / 2), (axes[9], 2.0), (axes[25], PI), (axes[26 + 4], -PI / 6), (axes[26 + 17], 7.0), (axes[26 + 22], 0.0)]
    for sel in selections(topo):
        exec_mol(ctx, {"family": "mol", "mol": name, "op": "Substructure.coords-read", "sel": sel})
        for v in sub_vecs:
            exec_mol(ctx, {"family": "mol", "mol": name, "op": "Substructure.translate", "sel": sel, "vec": N.lst(v)})
        for ax, ang in sub_rots:
            case = {"family": "mol", "mol": name, "op": "Substructure.transform", "sel": sel, "rot": [N.lst(ax), ang]}
            exec_mol(ctx, case)
            exec_mol(ctx, dict(case, validate=True))
            exec_mol(ctx, dict(case, validate=False))
        for (ax, ang), v in zip(sub_rots[:3], sub_vecs[:3]):
            case = {"family": "mol", "mol": name, "op": "Substructure.coords=", "sel": sel, "rot": [N.lst(ax), ang], "vec": N.lst(v)}
            exec_mol(ctx, case)
        if name == "twofrag" and len(sel) == 3:
            ctx.sample(case)


# =====================================================================================================
# dih : rotate_dihedral
# =====================================================================================================
def _judge_dihedral(ctx, pre, case, obj, q, d0, target, what):
    """after the call: dihedral() == target (mod 2pi); classified when it is the mirror image 2*d0 - t"""
    try:
        d1 = float(obj.dihedral(*q))
    except Exception as e:
        ctx.violation(f"{pre}:dihedral()-raised-{_exc(e)}", f"{what}: dihedral() raised {_exc(e)}", case)
        return False
    c = np.asarray(obj.coords, dtype=float)
    mine = N.dihedral(c[q[0]], c[q[1]], c[q[2]], c[q[3]])
    if abs(N.wrap_angle(d1 - mine)) > TOL:
        ctx.violation("dihedral():differs-from-independent-computation", f"{what}: dihedral() = {d1:.12g}, independent IUPAC value {mine:.12g}", case)
        return False
    err = abs(N.wrap_angle(d1 - target))
    _ratio("dihedral-own-vs-molli", abs(N.wrap_angle(d1 - mine)), TOL)
    if err > TOL:
        mirror = abs(N.wrap_angle(d1 - (2 * d0 - target)))
        if mirror <= TOL:
            ctx.violation(
                f"{pre}:dihedral-ends-at-mirror-image-2d-minus-t(turned-the-wrong-way)",
                f"{what}: dihedral was {d0:.9g}, target {target:.9g}, is {d1:.9g} = 2*{d0:.6g} - {target:.6g} (mod 2pi)",
                case,
                repro=REPRO["dih"],
            )
        else:
            ctx.violation(f"{pre}:dihedral-not-at-target", f"{what}: dihedral was {d0:.9g}, target {target:.9g}, is {d1:.9g} (off by {err:.3g})", case)
        return False
    return True


def exec_dih(ctx, case):
    name = case["mol"]
    q = [int(x) for x in case["quad"]]
    target = float(case["target"])
    m, base = _posed_mol(ctx, name)
    topo = _topo("mol", name)
    pre = "rotate_dihedral"
    ctx.count(evaluations=1, states=1, transitions=1, traces=1)
    d0 = N.dihedral(base[q[0]], base[q[1]], base[q[2]], base[q[3]])
    what = f"rotate_dihedral({tuple(q)}, {target:.9g}) on {name}"
    try:
        m.rotate_dihedral(tuple(q), target)
    except Exception as e:
        ctx.violation(f"{pre}:raised-{_exc(e)}", f"{what} raised {_exc(e)}: {e}", case)
        return
    after = np.asarray(m.coords)
    moved = topo.side(q[1], q[2])
    ok = judge_edit(ctx, pre, case, base, after, moved, None, topo.stereo_quads(), what=what, rigid_with=(q[1],))
    if ok:
        ok = _judge_dihedral(ctx, pre, case, m, q, d0, target, what)
    turn = abs(N.wrap_angle(target - d0))
    ctx.outcome(("dih", ok, round(turn, 1)))
    if turn > 1e-6:
        ctx.nontrivial(("dih", name, tuple(q), target))


def dihedral_quads(topo, all_choices=True):
    out = []
    for i, j in topo.rotatable():
        for b, c in ((i, j), (j, i)):
            As = [x for x in topo.adj[b] if x != c]
            Ds = [x for x in topo.adj[c] if x != b]
            pairs = [(a, d) for a in As for d in Ds]
            if not all_choices:
                pairs = [pairs[0], pairs[-1]] if len(pairs) > 1 else pairs
            for a, d in pairs:
                out.append((a, b, c, d))
    return out


def part_dih(ctx, spec):
    name, lo, hi, all_choices = spec
    topo = _topo("mol", name)
    qs = dihedral_quads(topo, all_choices)[lo:hi]
    for n_, q in enumerate(qs):
        for t in TARGETS:
            case = {"family": "dih", "mol": name, "quad": list(q), "target": t}
            exec_dih(ctx, case)
            if n_ == 0 and t == 2.0 and lo == 0:
                ctx.sample(case)


# =====================================================================================================
# ens : ConformerEnsemble edits
# =====================================================================================================
def exec_ens(ctx, case):
    name = case["ens"]
    op = case["op"]
    e, base = _posed_ens(ctx, name)
    topo = _topo("ens", name)
    nc, na = base.shape[0], base.shape[1]
    pre = f"{op}{_ttag(case)}"
    ctx.count(evaluations=1, states=1, transitions=1, traces=1)
    expected = None
    only_conf = None
    moved_atoms = list(range(na))
    try:
        if op == "ConformerEnsemble.translate[1d]":
            v = np.array(case["vec"], dtype=float)
            e.translate(v.copy())
            expected = base + v
        elif op == "ConformerEnsemble.translate[2d]":
            V = np.array(case["vecs"], dtype=float)
            e.translate(V.copy())
            expected = base + V[:, None, :]
        elif op == "ConformerEnsemble.rotate[matrix]":
            R = N.rot_axis_angle(*case["rot"])
            e.rotate(R.copy())
            expected = base @ R
        elif op == "ConformerEnsemble.rotate[stack]":
            Rs = np.array([N.rot_axis_angle(ax, ang) for ax, ang in case["rots"]])
            e.rotate(Rs.copy())
            expected = np.einsum("kij,kjl->kil", base, Rs)
        elif op == "ConformerEnsemble.center_at_atom":
            i = int(case["atom"])
            e.center_at_atom(e.atoms[i])
            expected = base - base[:, i : i + 1, :]
        elif op == "ConformerEnsemble.center_at_core":
            idx = [int(x) for x in case["core"]]
            e.center_at_core(list(idx))
            expected = base - np.mean(base[:, idx, :], axis=1, keepdims=True)
        elif op == "Conformer.translate":
            only_conf = int(case["conf"])
            v = np.array(case["vec"], dtype=float)
            e[only_conf].translate(v.copy())
            expected = base.copy()
            expected[only_conf] += v
        elif op == "Conformer.transform":
            only_conf = int(case["conf"])
            R = N.rot_axis_angle(*case["rot"])
            e[only_conf].transform(R.copy(), **_tkw(case))
            expected = base.copy()
            expected[only_conf] = base[only_conf] @ R
        elif op == "Conformer.rotate_dihedral":
            only_conf = int(case["conf"])
            q = [int(x) for x in case["quad"]]
            e[only_conf].rotate_dihedral(tuple(q), float(case["target"]))
            moved_atoms = topo.side(q[1], q[2])
        else:
            raise KeyError(op)
    except Exception as ex:
        ctx.violation(f"{pre}:raised-{_exc(ex)}", f"{op} on {name} raised {_exc(ex)}: {ex}", case)
        return
    after = np.asarray(e.coords)
    if after.shape != base.shape or after.dtype != base.dtype:
        ctx.violation(f"{pre}:coords-shape-or-dtype-changed", f"{op}: coords {base.shape} -> {after.shape}/{after.dtype}", case)
        return
    ok = True
    for k in range(nc):
        if only_conf is not None and k != only_conf:
            if after[k].tobytes() != base[k].tobytes():
                ctx.violation(f"{pre}:other-conformer-changed", f"{op} on conformer {only_conf} changed conformer {k}", case)
                ok = False
            continue
        exp_k = None if expected is None else expected[k][sorted(set(moved_atoms))]
        rw = (int(case["quad"][1]),) if op == "Conformer.rotate_dihedral" else ()
        ok = judge_edit(ctx, pre, case, base[k], after[k], moved_atoms, exp_k, topo.stereo_quads(), what=f"{op} on {name}, conformer {k}", rigid_with=rw) and ok
        if not ok:
            break
    if ok and op == "Conformer.rotate_dihedral":
        q = [int(x) for x in case["quad"]]
        bk = base[only_conf]
        d0 = N.dihedral(bk[q[0]], bk[q[1]], bk[q[2]], bk[q[3]])
        ok = _judge_dihedral(ctx, "rotate_dihedral", case, e[only_conf], q, d0, float(case["target"]), f"{op} on {name}[{only_conf}]")
    disp = float(np.max(np.abs(after - base))) if np.all(np.isfinite(after)) else -1
    ctx.outcome(("ens", op, ok, disp > 1e-6))
    if ok and disp > 1e-6:
        ctx.nontrivial(("ens", name, op, repr({k: v for k, v in case.items() if k not in ("family", "ens", "op")})))


def part_ens(ctx, spec):
    name, G_k = spec
    e = _raw_ens(name)
    topo = _topo("ens", name)
    nc, na = e.coords.shape[0], e.coords.shape[1]
    Gs = [None, _G(ctx, G_k)]
    vecs = [v for G in Gs for v in N.lattice_vectors(G)]
    axes = [v for G in Gs for v in N.lattice_vectors(G)[:26]]
    nv = len(vecs)
    for v in vecs:
        exec_ens(ctx, {"family": "ens", "ens": name, "op": "ConformerEnsemble.translate[1d]", "vec": N.lst(v)})
    for s in range(0, nv, 3):
        case = {"family": "ens", "ens": name, "op": "ConformerEnsemble.translate[2d]", "vecs": [N.lst(vecs[(s + 5 * k) % nv]) for k in range(nc)]}
        exec_ens(ctx, case)
    ctx.sample(case)
    for ax in axes:
        for ang in ANGLES:
            exec_ens(ctx, {"family": "ens", "ens": name, "op": "ConformerEnsemble.rotate[matrix]", "rot": [N.lst(ax), ang]})
    for s in range(len(axes)):
        case = {
            "family": "ens",
            "ens": name,
            "op": "ConformerEnsemble.rotate[stack]",
            "rots": [[N.lst(axes[(s + 3 * k) % len(axes)]), ANGLES[(s + k) % len(ANGLES)]] for k in range(nc)],
        }
        exec_ens(ctx, case)
    for i in range(na):
        exec_ens(ctx, {"family": "ens", "ens": name, "op": "ConformerEnsemble.center_at_atom", "atom": i})
    cores = [[0], [0, 1, 2], [2, 0, 1], topo.heavy(), list(range(na)), [na - 1, 0]]
    for c in cores:
        exec_ens(ctx, {"family": "ens", "ens": name, "op": "ConformerEnsemble.center_at_core", "core": c})
    quads = dihedral_quads(topo, all_choices=False)
    for k in range(nc):
        for v in (vecs[2], vecs[26 + 11], vecs[78 + 52 + 7]):
            exec_ens(ctx, {"family": "ens", "ens": name, "op": "Conformer.translate", "conf": k, "vec": N.lst(v)})
        for ax, ang in ((axes[1], 2.0), (axes[30], PI), (axes[40], -PI / 6)):
            exec_ens(ctx, {"family": "ens", "ens": name, "op": "Conformer.transform", "conf": k, "rot": [N.lst(ax), ang]})
            exec_ens(ctx, {"family": "ens", "ens": name, "op": "Conformer.transform", "conf": k, "rot": [N.lst(ax), ang], "validate": True})
        for q in quads:
            for t in (0.0, PI / 2, -2.0, PI):
                exec_ens(ctx, {"family": "ens", "ens": name, "op": "Conformer.rotate_dihedral", "conf": k, "quad": list(q), "target": t})


def part_ens_shapes(ctx, spec):
    """every ensemble-level operation on ensembles whose (n_conformers, n_atoms) collide with each other and with 3"""
    name = spec
    e = _raw_ens(name)
    nc, na = e.coords.shape[0], e.coords.shape[1]
    lat = N.lattice_vectors(_G(ctx)) + N.lattice_vectors(None)
    nv = len(lat)
    for t in range(6):
        v = lat[(13 * t + 5) % nv]
        exec_ens(ctx, {"family": "ens", "ens": name, "op": "ConformerEnsemble.translate[1d]", "vec": N.lst(v)})
        case = {"family": "ens", "ens": name, "op": "ConformerEnsemble.translate[2d]", "vecs": [N.lst(lat[(7 * t + 5 * k + 1) % nv]) for k in range(nc)]}
        exec_ens(ctx, case)
        if t == 1 and name == "syn3x3":
            ctx.sample(case)
        ax, ang = lat[(3 * t + 2) % 26], ANGLES[3 + t % 8]
        exec_ens(ctx, {"family": "ens", "ens": name, "op": "ConformerEnsemble.rotate[matrix]", "rot": [N.lst(ax), ang]})
        exec_ens(ctx, {"family": "ens", "ens": name, "op": "ConformerEnsemble.rotate[stack]", "rots": [[N.lst(lat[(3 * t + 5 * k + 1) % 26]), ANGLES[3 + (t + k) % 8]] for k in range(nc)]})
    for i in range(na):
        exec_ens(ctx, {"family": "ens", "ens": name, "op": "ConformerEnsemble.center_at_atom", "atom": i})
    cores = [[0], list(range(na)), list(range(na - 1, -1, -1))]
    if na > 1:
        cores.append([na - 1, 0])
    if na > 3:
        cores.append([0, 1, 2])
    done = []
    for c in cores:
        if c not in done:
            done.append(c)
            exec_ens(ctx, {"family": "ens", "ens": name, "op": "ConformerEnsemble.center_at_core", "core": c})
    for k in range(nc):
        exec_ens(ctx, {"family": "ens", "ens": name, "op": "Conformer.translate", "conf": k, "vec": N.lst(lat[(11 * k + 3) % nv])})
        exec_ens(ctx, {"family": "ens", "ens": name, "op": "Conformer.transform", "conf": k, "rot": [N.lst(lat[(5 * k + 4) % 26]), 2.0]})
        exec_ens(ctx, {"family": "ens", "ens": name, "op": "Conformer.transform", "conf": k, "rot": [N.lst(lat[(5 * k + 4) % 26]), 2.0], "validate": True})
    allc = list(range(na))
    for maps in ([allc], [allc, allc[::-1]] if na > 1 else [allc]):
        for ref_conf, ref_pose in ((0, 3), (nc - 1, 1)):
            for use_vec in (False, True):
                exec_aln(
                    ctx,
                    {
                        "family": "aln",
                        "kind": "ens",
                        "obj": name,
                        "maps": maps,
                        "ref_core": allc,
                        "ref_conf": ref_conf,
                        "ref_pose": ref_pose,
                        "use_vec": use_vec,
                        "per_conf_pose": True,
                        "degenerate_core": na < 4,
                    },
                )
    if na >= 3:
        sub = [0, 1, 2] if na > 3 else [0, 2, 1]
        exec_aln(ctx, {"family": "aln", "kind": "ens", "obj": name, "maps": [sub], "ref_core": sub, "ref_conf": 0, "ref_pose": 2, "use_vec": True, "degenerate_core": True})


# =====================================================================================================
# aln : align_to_ref_coords
# =====================================================================================================
NEAR_DELTAS = (1e-2, 2e-3, 5e-4, 2e-4, 5e-5, 1e-6)


def _harness_kabsch(calls):
    def func(P, Q):
        calls.append(1)
        return N.kabsch(np.array(P, dtype=float), np.array(Q, dtype=float))

    return func


def exec_aln(ctx, case):
    """One case = one (object, reference, mappings, vec) configuration aligned from each of the 6 initial
    poses; pose independence is judged across them."""
    kind = case["kind"]
    name = case["obj"]
    maps = [[int(x) for x in mm] for mm in case["maps"]]
    ref_core = [int(x) for x in case["ref_core"]]
    use_vec = bool(case["use_vec"])
    per_conf_pose = bool(case.get("per_conf_pose", False))
    pre = f"align_to_ref_coords[{'ConformerEnsemble' if kind == 'ens' else 'Molecule'}]"
    if kind == "ens":
        obj, base = _posed_ens(ctx, name)
        topo = _topo("ens", name)
    else:
        obj, base0 = _posed_mol(ctx, name)
        base = base0[None, :, :]
        topo = _topo("mol", name)
    nc = base.shape[0]
    # reference: a separate molecule carrying conformer `ref_conf` in pose `ref_pose`, centred like scripts/align.py
    Mr, tr = N.pose_matrix(int(case["ref_pose"]))
    refc = base[int(case["ref_conf"])] @ Mr + tr
    if kind == "ens":
        refmol = ml.Molecule(obj[int(case["ref_conf"])])
    else:
        refmol = ml.Molecule(obj)
    refmol._coords = refc.copy()
    refsub = refmol.substructure(list(ref_core))
    vec = np.mean(refc[ref_core], axis=0)
    refsub.translate(-vec)
    Q = np.array(refsub.coords, dtype=float, copy=True)  # harness set-up: the centred reference, as scripts/align.py prepares it
    finals = []
    rets = []
    ok = True
    degenerate = bool(case.get("degenerate_core"))  # fewer than 3 non-collinear core atoms: the optimum is not unique
    for p in range(2 if degenerate else len(N.POSES)):
        Mp, tp = N.pose_matrix(p)
        start = np.empty_like(base)
        for k in range(nc):
            if per_conf_pose:
                Mk, tk = N.pose_matrix((p + k) % len(N.POSES))
            else:
                Mk, tk = Mp, tp
            start[k] = base[k] @ Mk + tk
        if kind == "ens":
            obj._coords = start.copy()
        else:
            obj._coords = start[0].copy()
        calls = []
        ctx.count(evaluations=1, states=1, transitions=1, traces=1)
        what = f"{pre} on {name} from pose {p}"
        try:
            ret = obj.align_to_ref_coords(_harness_kabsch(calls), [list(mm) for mm in maps], refsub, vec.copy() if use_vec else None)
        except Exception as ex:
            ctx.violation(f"{pre}:raised-{_exc(ex)}", f"{what} raised {_exc(ex)}: {ex}", case)
            return
        after = np.asarray(obj.coords, dtype=float)
        after = after if kind == "ens" else after[None, :, :]
        retl = [float(x) for x in (ret if kind == "ens" else [ret])]
        if len(retl) != nc or after.shape != start.shape:
            ctx.violation(f"{pre}:wrong-shape-returned", f"{what}: {len(retl)} rmsd values / coords {after.shape} for {nc} conformer(s)", case)
            return
        if np.asarray(refsub.coords).tobytes() != Q.tobytes():
            ctx.violation(f"{pre}:reference-modified", f"{what}: the reference coordinates were changed", case)
            ok = False
        for k in range(nc):
            ok = judge_edit(ctx, pre, case, start[k], after[k], list(range(start.shape[1])), None, topo.stereo_quads(), what=f"{what}, conformer {k}") and ok
            if not ok:
                break
            shift = vec if use_vec else 0.0
            achieved = min(N.rmsd(after[k][mm] - shift, Q) for mm in maps)
            L = N.extent(Q)
            _ratio("aln-rmsd", abs(achieved - retl[k]), TOL * max(1.0, L))
            if abs(achieved - retl[k]) > TOL * max(1.0, L):
                ctx.violation(
                    f"{pre}:returned-rmsd-differs-from-achieved",
                    f"{what}, conformer {k}: returned RMSD {retl[k]:.12g}, RMSD recomputed from the final coordinates {achieved:.12g}",
                    case,
                )
                ok = False
                break
        if not ok:
            break
        finals.append(after)
        rets.append(retl)
    if ok and not degenerate:
        # ties between mappings make the chosen rotation a coin toss of rounding: excluded, counted
        X0 = base - np.mean(base[:, maps[0], :], axis=1, keepdims=True)
        for k in range(nc):
            rs = sorted(N.kabsch(X0[k][mm], Q)[1] for mm in maps)
            if len(rs) > 1 and rs[1] - rs[0] < 1e-6:
                ctx.add_note("aln_conformers_skipped_for_pose_independence(tie_between_mappings)")
                continue
            ref_final = finals[0][k]
            M = N.mag(ref_final)
            for p in range(1, len(finals)):
                dev = float(np.max(np.abs(finals[p][k] - ref_final)))
                _ratio("aln-pose", dev, TOL * M)
                if dev > TOL * M:
                    ctx.violation(
                        f"{pre}:result-depends-on-initial-pose",
                        f"{pre} on {name}, conformer {k}: final coordinates from pose {p} differ from those from pose 0 by {dev:.3g}",
                        case,
                    )
                    ok = False
                    break
                if abs(rets[p][k] - rets[0][k]) > TOL * max(1.0, N.extent(Q)):
                    ctx.violation(f"{pre}:rmsd-depends-on-initial-pose", f"{pre} on {name}, conformer {k}: RMSD {rets[p][k]:.12g} vs {rets[0][k]:.12g}", case)
                    ok = False
                    break
            if not ok:
                break
    if ok and not degenerate and finals:
        # near-optimum start poses: the optimum itself turned by a small angle about an axis through the core's
        # centroid (and shifted by 1e-4): the result must be the optimum again, not "close enough"
        X0 = base - np.mean(base[:, maps[0], :], axis=1, keepdims=True)
        tied = set()
        for k in range(nc):
            rs = sorted(N.kabsch(X0[k][mm], Q)[1] for mm in maps)
            if len(rs) > 1 and rs[1] - rs[0] < 1e-6:
                tied.add(k)
        F = finals[0]
        cen = np.mean(F[:, maps[0], :], axis=1, keepdims=True)
        for delta in NEAR_DELTAS:
            for ax in ((0.0, 0.0, 1.0), (0.6, -0.3, 0.74)):
                for shift in (0.0, 1e-4):
                    Rn = N.rot_axis_angle(ax, delta).T
                    start = (F - cen) @ Rn + cen + shift * np.array([1.0, -0.5, 0.25])
                    if kind == "ens":
                        obj._coords = start.copy()
                    else:
                        obj._coords = start[0].copy()
                    ctx.count(evaluations=1, states=1, transitions=1, traces=1)
                    try:
                        ret = obj.align_to_ref_coords(_harness_kabsch([]), [list(mm) for mm in maps], refsub, vec.copy() if use_vec else None)
                    except Exception as ex:
                        ctx.violation(f"{pre}:raised-{_exc(ex)}[near-optimum-start]", f"{pre} on {name} from the optimum turned by {delta:g} rad raised {_exc(ex)}: {ex}", case)
                        ok = False
                        break
                    after = np.asarray(obj.coords, dtype=float)
                    after = after if kind == "ens" else after[None, :, :]
                    retl = [float(x) for x in (ret if kind == "ens" else [ret])]
                    for k in range(nc):
                        if k in tied:
                            continue
                        dev = float(np.max(np.abs(after[k] - F[k])))
                        _ratio("aln-near-pose", dev, 1e-8 * N.mag(F[k]))
                        if dev > 1e-8 * N.mag(F[k]):
                            ctx.violation(
                                f"{pre}:result-depends-on-initial-pose[near-optimum-start]",
                                f"{pre} on {name}, conformer {k}: started {delta:g} rad (shift {shift:g}) away from the aligned pose, the result differs from the aligned pose by {dev:.3g}",
                                case,
                            )
                            ok = False
                            break
                        if abs(retl[k] - rets[0][k]) > TOL * max(1.0, N.extent(Q)):
                            ctx.violation(
                                f"{pre}:rmsd-depends-on-initial-pose[near-optimum-start]",
                                f"{pre} on {name}, conformer {k}: RMSD {retl[k]:.12g} from a start {delta:g} rad off the optimum, {rets[0][k]:.12g} from a far pose",
                                case,
                            )
                            ok = False
                            break
                    if not ok:
                        break
                if not ok:
                    break
            if not ok:
                break
    ctx.outcome(("aln", kind, ok, tuple(round(r, 3) for r in (rets[0] if rets else []))))
    if ok:
        ctx.nontrivial(("aln", name, repr(maps), case["ref_conf"], case["ref_pose"], use_vec, per_conf_pose))


def aln_cases(ctx):
    cases = []
    # pentane: carbons are 0,1,5,8,11 (C1..C5 along the chain: 0-1-5-8-11)
    chain = [0, 1, 5, 8, 11]
    ens_maps = [
        ([chain], chain),
        ([chain, chain[::-1]], chain),
        ([chain[:3], chain[::-1][:3]], chain[:3]),
        ([[0, 1, 5, 2]], [0, 1, 5, 2]),
    ]
    for maps, ref_core in ens_maps:
        for ref_conf, ref_pose in ((0, 0), (3, 3), (6, 4)):
            for use_vec in (False, True):
                for pcp in (False, True):
                    cases.append(
                        {"family": "aln", "kind": "ens", "obj": "pentane_confs", "maps": maps, "ref_core": ref_core, "ref_conf": ref_conf, "ref_pose": ref_pose, "use_vec": use_vec, "per_conf_pose": pcp}
                    )
    for ref_conf, ref_pose in ((0, 1), (2, 5)):
        for use_vec in (False, True):
            cases.append({"family": "aln", "kind": "ens", "obj": "chiral5x3", "maps": [[0, 1, 2, 3]], "ref_core": [0, 1, 2, 3], "ref_conf": ref_conf, "ref_pose": ref_pose, "use_vec": use_vec, "per_conf_pose": True})
            cases.append({"family": "aln", "kind": "ens", "obj": "chiral5x3", "maps": [[0, 1, 2, 3], [0, 2, 3, 1]], "ref_core": [0, 1, 2, 3], "ref_conf": ref_conf, "ref_pose": ref_pose, "use_vec": use_vec, "per_conf_pose": False})
    mol_cfg = [
        ("chiral5", [[0, 1, 2, 3]], [0, 1, 2, 3]),
        ("chiral5", [[0, 1, 2, 3, 4], [0, 2, 3, 1, 4]], [0, 1, 2, 3, 4]),
        ("twofrag", [[0, 1, 5]], [0, 1, 5]),
        ("dendrobine_mol2", [[0, 1, 2, 3, 4, 5]], [0, 1, 2, 3, 4, 5]),
        ("dendrobine_mol2", [[0, 1, 2, 3], [3, 2, 1, 0], [5, 6, 7, 8]], [0, 1, 2, 3]),
        ("pentane0", [chain, chain[::-1]], chain),
    ]
    for name, maps, ref_core in mol_cfg:
        for ref_pose in (0, 2, 4):
            for use_vec in (False, True):
                cases.append({"family": "aln", "kind": "mol", "obj": name, "maps": maps, "ref_core": ref_core, "ref_conf": 0, "ref_pose": ref_pose, "use_vec": use_vec})
    return cases


def part_aln(ctx, spec):
    lo, hi = spec
    cs = aln_cases(ctx)[lo:hi]
    for i, c in enumerate(cs):
        exec_aln(ctx, c)
        if lo == 0 and i == 1:
            ctx.sample(c)


# =====================================================================================================
# hist : a view that is KEPT while its parent is edited, then used
#   Substructure created -> parent edit (none / del_atom of an unselected atom below or above the
#   selection / add_atom / parent.translate / parent.transform) -> translate, transform, coords=, read
#   through the kept Substructure.  Atoms are matched by identity, never by index.
#   Conformer (and a Substructure of it) created -> ensemble edit -> edit through the kept view.
# =====================================================================================================
HIST_EDITS = ("none", "del_atom-lower-index", "del_atom-higher-index", "add_atom", "parent-translate", "parent-transform", "del_atom-lower-index+add_atom")
HIST_OPS = ("translate", "transform", "coords=", "translate+transform", "coords-read")


def _fresh_mol(ctx, name):
    """an independent copy of the test molecule in the global pose (its atom table will be edited)"""
    raw, base = _posed_mol(ctx, name)
    m = ml.Molecule(raw)
    m._coords = base.copy()
    m.atomic_charges = np.zeros(m.n_atoms)
    return m, base


def exec_hist(ctx, case):
    name = case["mol"]
    sel = [int(x) for x in case["sel"]]
    edit = case["edit"]
    op = case["op"]
    m, base = _fresh_mol(ctx, name)
    atoms0 = list(m.atoms)
    sel_atoms = [atoms0[i] for i in sel]
    kind = "read" if op == "coords-read" else "write"
    pre = f"kept-Substructure[parent-edit={edit}]:{kind}{_ttag(case)}"
    what = f"Substructure({sel}) of {name}{' (read once)' if case.get('touch') else ''} kept across parent edit '{edit}', then {op}"
    v = np.array(case.get("vec", [0.0, 0.0, 0.0]), dtype=float)
    R = N.rot_axis_angle(*case["rot"]) if "rot" in case else np.eye(3)
    ctx.count(evaluations=1, states=1, traces=1)
    # ---- the history: create the view, edit the parent (harness set-up through the public API) ---------
    try:
        sub = m.substructure(list(sel))
        ctx.count(transitions=1)
        if case.get("touch"):
            # the view is read (and its centroid taken) once before the parent changes
            first = np.array(sub.coords)
            sub.centroid()
            if first.tobytes() != base[sel].tobytes():
                ctx.violation("kept-Substructure[fresh]:read:rows-of-other-atoms-returned", f"{what}: a fresh view does not show the selected rows", case)
                return
        for step in edit.split("+"):
            if step in ("del_atom-lower-index", "del_atom-higher-index"):
                vi = int(case["victim"])
                m.del_atom(atoms0[vi])
            elif step == "add_atom":
                m.add_atom(Atom("H", label="Hnew"), [float(x) for x in (np.mean(base, axis=0) + np.array([0.31, -0.27, 0.19]))], charge=0.0)
            elif step == "parent-translate":
                m.translate(np.array(case["pvec"], dtype=float))
            elif step == "parent-transform":
                m.transform(N.rot_axis_angle(*case["prot"]))
            elif step != "none":
                raise KeyError(step)
            ctx.count(transitions=1)
    except Exception as e:
        ctx.violation(f"kept-Substructure[parent-edit={edit}]:set-up-raised-{_exc(e)}", f"{what}: creating the view / editing the parent raised {_exc(e)}: {e}", case)
        return
    cur = list(m.atoms)
    mid = np.array(m.coords, dtype=float, copy=True)
    pos = {id(a): i for i, a in enumerate(cur)}
    if mid.shape != (len(cur), 3) or any(id(a) not in pos for a in sel_atoms):
        # the parent edit itself misbehaved (C05's subject): nothing to decide about the view here
        ctx.add_note("hist_cases_skipped_parent_edit_inconsistent")
        return
    cur_sel = [pos[id(a)] for a in sel_atoms]
    srt = sorted(cur_sel)
    expected = None
    moved = cur_sel
    try:
        if op == "translate":
            sub.translate(v.copy())
            expected = mid[srt] + v
        elif op == "transform":
            sub.transform(R.copy(), **_tkw(case))
            expected = mid[srt] @ R
        elif op == "coords=":
            new = mid[cur_sel] @ R + v
            sub.coords = new.copy()
            expected = new[np.argsort(np.array(cur_sel), kind="stable")]
        elif op == "translate+transform":
            sub.translate(v.copy())
            sub.transform(R.copy(), **_tkw(case))
            expected = (mid[srt] + v) @ R
            ctx.count(transitions=1)
        elif op == "coords-read":
            got = np.array(sub.coords)
            moved = []
            if got.shape != (len(sel), 3) or got.tobytes() != mid[cur_sel].tobytes():
                ctx.violation(f"{pre}:rows-of-other-atoms-returned", f"{what}: coords of the kept view are not the selected atoms' current rows", case)
                ctx.outcome(("hist", edit, op, False))
                return
        else:
            raise KeyError(op)
        ctx.count(transitions=1)
    except Exception as e:
        ctx.violation(f"{pre}:raised-{_exc(e)}", f"{what} raised {_exc(e)}: {e}", case)
        ctx.outcome(("hist", edit, op, "raised"))
        return
    if [id(a) for a in m.atoms] != [id(a) for a in cur]:
        ctx.violation(f"{pre}:atom-table-changed", f"{what}: using the view changed the parent's atom table", case)
        return
    final = np.asarray(m.coords)
    ok = judge_edit(ctx, pre, case, mid, final, moved, expected, Topo(m).stereo_quads(), what=what)
    disp = float(np.max(np.abs(final - mid))) if final.shape == mid.shape and np.all(np.isfinite(final)) else -1
    ctx.outcome(("hist", edit, op, ok, disp > 1e-6))
    if ok and (disp > 1e-6 or op == "coords-read") and edit != "none":
        ctx.nontrivial(("hist", name, tuple(sel), edit, case.get("victim"), op, bool(case.get("touch"))))


def hist_cases(ctx, name):
    topo = _topo("mol", name)
    n = topo.n
    G = _G(ctx)
    lat = N.lattice_vectors(G)
    out = []
    for si, sel in enumerate(selections(topo)):
        if len(set(sel)) == n:
            continue  # nothing unselected to delete; kept views of everything are covered by add_atom below
        unsel = [i for i in range(n) if i not in set(sel)]
        lower = [i for i in unsel if i < max(sel)]
        higher = [i for i in unsel if i > max(sel)]
        for ei, edit in enumerate(HIST_EDITS):
            victims = [None]
            if edit.startswith("del_atom-lower-index"):
                victims = sorted({lower[0], lower[-1]}) if lower else []
            elif edit == "del_atom-higher-index":
                victims = [higher[0]] if higher else []
            for vi in victims:
                for oi, op in enumerate(HIST_OPS):
                    k = si + ei + oi
                    case = {
                        "family": "hist",
                        "mol": name,
                        "sel": list(sel),
                        "edit": edit,
                        "op": op,
                        "vec": N.lst(lat[(7 * k + 3) % 78]),
                        "rot": [N.lst(lat[(5 * k + 1) % 26]), ANGLES[3 + k % 8]],
                        "pvec": N.lst(lat[(11 * k + 30) % 78]),
                        "prot": [N.lst(lat[(3 * k + 2) % 26]), ANGLES[3 + (k + 4) % 8]],
                    }
                    if vi is not None:
                        case["victim"] = vi
                    if "transform" in op and k % 2:
                        case["validate"] = True
                    out.append(case)
                    out.append(dict(case, touch=True))
    # a view of ALL atoms kept across add_atom: the new atom is not selected and must not move
    allsel = list(range(n))
    for oi, op in enumerate(HIST_OPS):
        for touch in (False, True):
            out.append({"family": "hist", "mol": name, "sel": allsel, "edit": "add_atom", "op": op, "touch": touch, "vec": N.lst(lat[(oi + 40) % 78]), "rot": [N.lst(lat[oi + 4]), ANGLES[4 + oi]]})
    return out


def part_hist(ctx, spec):
    name = spec
    for i, case in enumerate(hist_cases(ctx, name)):
        exec_hist(ctx, case)
        if name == "twofrag" and case["edit"] == "del_atom-lower-index" and case["op"] == "translate" and len(case["sel"]) == 3:
            ctx.sample(case)


HISTENS_EDITS = ("none", "ens-translate[1d]", "ens-translate[2d]", "ens-rotate[matrix]", "ens-rotate[stack]", "ens-center_at_core", "other-conformer-translate")
HISTENS_OPS = ("Conformer.translate", "Conformer.transform", "Substructure-of-Conformer.translate", "Substructure-of-Conformer.transform")


def exec_histens(ctx, case):
    name = case["ens"]
    k = int(case["conf"])
    edit = case["edit"]
    op = case["op"]
    sel = [int(x) for x in case["sel"]]
    e, base = _posed_ens(ctx, name)
    topo = _topo("ens", name)
    nc, na = base.shape[0], base.shape[1]
    pre = f"kept-Conformer[ensemble-edit={edit}]:{'substructure-' if op.startswith('Substructure') else ''}write{_ttag(case)}"
    what = f"conformer {k} of {name} (and Substructure {sel}) kept across '{edit}', then {op}"
    v = np.array(case["vec"], dtype=float)
    R = N.rot_axis_angle(*case["rot"])
    ctx.count(evaluations=1, states=1, traces=1)
    try:
        cf = e[k]
        sub = cf.substructure(list(sel))
        if case.get("touch"):
            np.array(cf.coords)
            np.array(sub.coords)
            cf.centroid()
        if edit == "ens-translate[1d]":
            e.translate(np.array(case["pvec"], dtype=float))
        elif edit == "ens-translate[2d]":
            e.translate(np.array([np.array(case["pvec"], dtype=float) * (1 + j) for j in range(nc)]))
        elif edit == "ens-rotate[matrix]":
            e.rotate(N.rot_axis_angle(*case["prot"]))
        elif edit == "ens-rotate[stack]":
            e.rotate(np.array([N.rot_axis_angle(case["prot"][0], case["prot"][1] + 0.3 * j) for j in range(nc)]))
        elif edit == "ens-center_at_core":
            e.center_at_core([int(x) for x in case.get("core", [0, 1, 2])])
        elif edit == "other-conformer-translate":
            e[(k + 1) % nc].translate(np.array(case["pvec"], dtype=float))
        elif edit != "none":
            raise KeyError(edit)
        ctx.count(transitions=2)
    except Exception as ex:
        ctx.violation(f"kept-Conformer[ensemble-edit={edit}]:set-up-raised-{_exc(ex)}", f"{what}: set-up raised {_exc(ex)}: {ex}", case)
        return
    mid = np.array(e.coords, dtype=float, copy=True)
    try:
        if op == "Conformer.translate":
            cf.translate(v.copy())
            moved, expected = list(range(na)), mid[k] + v
        elif op == "Conformer.transform":
            cf.transform(R.copy(), **_tkw(case))
            moved, expected = list(range(na)), mid[k] @ R
        elif op == "Substructure-of-Conformer.translate":
            sub.translate(v.copy())
            moved, expected = sel, mid[k][sorted(set(sel))] + v
        elif op == "Substructure-of-Conformer.transform":
            sub.transform(R.copy(), **_tkw(case))
            moved, expected = sel, mid[k][sorted(set(sel))] @ R
        else:
            raise KeyError(op)
        ctx.count(transitions=1)
    except Exception as ex:
        ctx.violation(f"{pre}:raised-{_exc(ex)}", f"{what} raised {_exc(ex)}: {ex}", case)
        return
    final = np.asarray(e.coords)
    if final.shape != mid.shape:
        ctx.violation(f"{pre}:coords-shape-or-dtype-changed", f"{what}: ensemble coords {mid.shape} -> {final.shape}", case)
        return
    ok = True
    for j in range(nc):
        if j != k and final[j].tobytes() != mid[j].tobytes():
            ctx.violation(f"{pre}:other-conformer-changed", f"{what}: conformer {j} changed", case)
            ok = False
            break
    if ok:
        ok = judge_edit(ctx, pre, case, mid[k], final[k], moved, expected, topo.stereo_quads(), what=what)
    ctx.outcome(("histens", edit, op, ok))
    if ok and edit != "none":
        ctx.nontrivial(("histens", name, k, edit, op, bool(case.get("touch"))))


def part_histens(ctx, spec):
    name = spec
    e = _raw_ens(name)
    topo = _topo("ens", name)
    nc, na = e.coords.shape[0], e.coords.shape[1]
    lat = N.lattice_vectors(_G(ctx))
    sels = [topo.heavy(), sorted({na - 1, 0, na // 2}, reverse=True)]
    for k in range(nc):
        for ei, edit in enumerate(HISTENS_EDITS):
            for oi, op in enumerate(HISTENS_OPS):
                t = k + ei + oi
                case = {
                    "family": "histens",
                    "ens": name,
                    "conf": k,
                    "edit": edit,
                    "op": op,
                    "sel": sels[t % 2],
                    "vec": N.lst(lat[(7 * t + 5) % 78]),
                    "rot": [N.lst(lat[(5 * t + 2) % 26]), ANGLES[3 + t % 8]],
                    "pvec": N.lst(lat[(11 * t + 17) % 78]),
                    "prot": [N.lst(lat[(3 * t + 9) % 26]), ANGLES[3 + (t + 3) % 8]],
                    "core": [0, 1, 2] if na >= 3 else list(range(na)),
                }
                if "transform" in op and t % 2:
                    case["validate"] = True
                exec_histens(ctx, case)
                exec_histens(ctx, dict(case, touch=True))
                if k == 1 and ei == 3 and oi == 2 and name == "pentane_confs":
                    ctx.sample(case)


# =====================================================================================================
# arg : a function must leave its ARGUMENTS alone, whatever kind of array-like they are
# own : ... in particular when an argument is a VIEW into the coordinates of the very object worked on
# =====================================================================================================
ARG_KINDS = ("float64", "float64-strided-view", "float64-readonly", "float32", "int64", "list", "tuple")


def _as_tuple(x):
    return tuple(_as_tuple(y) for y in x) if isinstance(x, list) else x


class Arg:
    """one argument in one representation, with a snapshot to compare against after the call"""

    def __init__(self, values, kind):
        a = np.array(values, dtype=float)
        self.kind = kind
        self.holder = None
        if kind == "float64":
            self.obj = a.copy()
        elif kind == "float64-strided-view":
            big = np.full(a.shape[:-1] + (2 * a.shape[-1],), 7.25)
            big[..., ::2] = a
            self.holder = big
            self.obj = big[..., ::2]
        elif kind == "float64-readonly":
            self.obj = a.copy()
            self.obj.flags.writeable = False
        elif kind == "float32":
            self.obj = a.astype(np.float32)
        elif kind == "int64":
            self.obj = a.astype(np.int64)
        elif kind == "list":
            self.obj = a.tolist()
        elif kind == "tuple":
            self.obj = _as_tuple(a.tolist())
        else:
            raise KeyError(kind)
        self.value = np.array(self.obj, dtype=float)  # what the callee is entitled to see
        self.snap = self._snapshot()

    def _snapshot(self):
        o = self.obj
        if isinstance(o, np.ndarray):
            h = None if self.holder is None else self.holder.tobytes()
            return ("nd", o.dtype.str, o.shape, o.strides, np.ascontiguousarray(o).tobytes(), h)
        return ("py", type(o).__name__, repr(o))

    def intact(self):
        return self._snapshot() == self.snap


def _kinds_for(values):
    a = np.array(values, dtype=float)
    ks = [k for k in ARG_KINDS if k != "int64" or np.all(a == np.round(a))]
    return ks


def _check_args(ctx, fn, case, args):
    bad = [nm for nm, a in args if not a.intact()]
    if bad:
        ctx.violation(f"{fn}:argument-array-modified", f"{fn} changed its argument(s) {bad} (passed as {[a.kind for _, a in args]})", case)
        return False
    return True


def exec_arg(ctx, case):
    fn = case["fn"]
    kind = case["kind"]
    loose = kind == "float32"
    tol = 1e-5 if loose else TOL
    ctx.count(evaluations=1, states=1, transitions=1, traces=1)
    ok = True
    try:
        if fn == "rotation_matrix_from_vectors":
            a1 = Arg(case["v1"], kind if case.get("which", "both") in ("both", "v1") else "list")
            a2 = Arg(case["v2"], kind if case.get("which", "both") in ("both", "v2") else "list")
            with N.RandSeam(N.answer_sequence(N.RNG_MENU[0])):
                R = np.asarray(rotation_matrix_from_vectors(a1.obj, a2.obj), dtype=float)
            ok = _check_args(ctx, fn, case, [("v1", a1), ("v2", a2)])
            opc = _one_plus_c(a1.value, a2.value)
            t = max(tol, rv_tol(opc))
            if loose and opc < 1e-3:
                # single-precision input next to the antiparallel switch (tol=1e-8 is below float32 resolution):
                # outside what the property states; only the argument's integrity is judged
                ctx.add_note("arg_float32_near_antiparallel_result_not_judged")
            elif ok and (not np.all(np.isfinite(R)) or np.max(np.abs(R @ R.T - np.eye(3))) > t or np.max(np.abs(N.unit(a1.value) @ R - N.unit(a2.value))) > t):
                ctx.violation(f"{fn}:argument-kind-dependent-result", f"{fn} with {kind} arguments is not the proper rotation v1 -> v2", case)
                ok = False
        elif fn == "rotation_matrix_from_axis":
            a1 = Arg(case["axis"], kind)
            R = np.asarray(rotation_matrix_from_axis(a1.obj, float(case["angle"])), dtype=float)
            ok = _check_args(ctx, fn, case, [("axis", a1)])
            if ok and (not np.all(np.isfinite(R)) or np.max(np.abs(R @ R.T - np.eye(3))) > tol or np.max(np.abs(R @ N.unit(a1.value) - N.unit(a1.value))) > tol):
                ctx.violation(f"{fn}:argument-kind-dependent-result", f"{fn} with a {kind} axis is not a proper rotation about that axis", case)
                ok = False
        elif fn.startswith(("Molecule.", "Substructure.")):
            m, base = _posed_mol(ctx, case["mol"])
            n = m.n_atoms
            sel = [int(x) for x in case.get("sel", range(n))]
            tgt = m if fn.startswith("Molecule.") else m.substructure(list(sel))
            rows = list(range(n)) if fn.startswith("Molecule.") else sel
            srt = sorted(set(rows))
            if fn.endswith(".translate"):
                a1 = Arg(case["vec"], kind)
                tgt.translate(a1.obj)
                expected = base[srt] + a1.value
            elif fn.endswith(".transform"):
                a1 = Arg(N.rot_axis_angle(*case["rot"]), kind)
                tgt.transform(a1.obj)
                expected = base[srt] @ a1.value
            elif fn.endswith(".coords="):
                a1 = Arg(base[rows] @ N.rot_axis_angle(*case["rot"]) + np.array(case["vec"], dtype=float), kind)
                tgt.coords = a1.obj
                expected = a1.value[np.argsort(np.array(rows), kind="stable")]
            else:
                raise KeyError(fn)
            ok = _check_args(ctx, fn, case, [("arg", a1)])
            after = np.asarray(m.coords)
            others = [i for i in range(n) if i not in set(rows)]
            if ok and (after.shape != base.shape or after.dtype != base.dtype):
                ctx.violation(f"{fn}:coords-shape-or-dtype-changed", f"{fn} with a {kind} argument: coords {base.dtype}{base.shape} -> {after.dtype}{after.shape}", case)
                ok = False
            if ok and others and after[others].tobytes() != base[others].tobytes():
                ctx.violation(f"{fn}:atoms-outside-selection-changed", f"{fn} with a {kind} argument changed unselected atoms", case)
                ok = False
            if ok and float(np.max(np.abs(after[srt] - expected))) > (1e-6 if loose else TOL) * N.mag(base, expected):
                ctx.violation(f"{fn}:argument-kind-dependent-result", f"{fn} with a {kind} argument: not the documented effect", case)
                ok = False
        elif fn.startswith("ConformerEnsemble."):
            e, base = _posed_ens(ctx, case["ens"])
            nc, na = base.shape[:2]
            args = []
            if fn.endswith("translate[1d]"):
                a1 = Arg(case["vec"], kind)
                e.translate(a1.obj)
                expected = base + a1.value
            elif fn.endswith("translate[2d]"):
                a1 = Arg([np.array(case["vec"], dtype=float) * (j + 1) for j in range(nc)], kind)
                e.translate(a1.obj)
                expected = base + a1.value[:, None, :]
            elif fn.endswith("rotate[matrix]"):
                a1 = Arg(N.rot_axis_angle(*case["rot"]), kind)
                e.rotate(a1.obj if isinstance(a1.obj, np.ndarray) else np.array(a1.obj))
                expected = base @ a1.value
            elif fn.endswith("rotate[stack]"):
                a1 = Arg([N.rot_axis_angle(case["rot"][0], case["rot"][1] + 0.4 * j) for j in range(nc)], kind)
                e.rotate(a1.obj if isinstance(a1.obj, np.ndarray) else np.array(a1.obj))
                expected = np.einsum("kij,kjl->kil", base, a1.value)
            elif fn.endswith("coords="):
                a1 = Arg(base @ N.rot_axis_angle(*case["rot"]) + np.array(case["vec"], dtype=float), kind)
                e.coords = a1.obj
                expected = a1.value
            elif fn.endswith("center_at_core"):
                core = [int(x) for x in case["core"]]
                a1 = Arg(core, kind)
                a1.obj = list(core) if kind == "list" else tuple(core)  # python ints, as documented
                a1.snap = a1._snapshot()
                e.center_at_core(a1.obj)
                expected = base - np.mean(base[:, core, :], axis=1, keepdims=True)
            elif fn.endswith("align_to_ref_coords"):
                maps = [[int(x) for x in mm] for mm in case["maps"]]
                refmol = ml.Molecule(e[0])
                refc = base[0] @ N.pose_matrix(3)[0] + N.pose_matrix(3)[1]
                refmol._coords = refc.copy()
                refsub = refmol.substructure(list(maps[0]))
                cen = np.mean(refc[maps[0]], axis=0)
                refsub.translate(-cen)
                refbytes = np.asarray(refmol.coords).tobytes()
                a1 = Arg(cen, kind)
                amaps = [list(mm) for mm in maps]
                ret = e.align_to_ref_coords(_harness_kabsch([]), amaps, refsub, a1.obj)
                if amaps != maps:
                    ctx.violation(f"{fn}:argument-array-modified", f"{fn} changed its list of index mappings", case)
                    ok = False
                if np.asarray(refmol.coords).tobytes() != refbytes:
                    ctx.violation(f"{fn}:argument-array-modified", f"{fn} changed the reference coordinates", case)
                    ok = False
                Q = np.array(refsub.coords, dtype=float)
                fin = np.asarray(e.coords, dtype=float)
                expected = None
                for k in range(nc):
                    ach = min(N.rmsd(fin[k][mm] - a1.value, Q) for mm in maps)
                    if ok and abs(ach - float(ret[k])) > (1e-5 if loose else TOL) * max(1.0, N.extent(Q)):
                        ctx.violation(f"{fn}:argument-kind-dependent-result", f"{fn} with a {kind} vec: returned RMSD {float(ret[k]):.9g}, achieved {ach:.9g}", case)
                        ok = False
            else:
                raise KeyError(fn)
            ok = _check_args(ctx, fn, case, [("arg", a1)]) and ok
            after = np.asarray(e.coords)
            if ok and (after.shape != base.shape or after.dtype != base.dtype):
                ctx.violation(f"{fn}:coords-shape-or-dtype-changed", f"{fn} with a {kind} argument: coords {base.dtype}{base.shape} -> {after.dtype}{after.shape}", case)
                ok = False
            if ok and expected is not None and float(np.max(np.abs(after - expected))) > (1e-6 if loose else TOL) * N.mag(base, expected):
                ctx.violation(f"{fn}:argument-kind-dependent-result", f"{fn} with a {kind} argument: not the documented effect", case)
                ok = False
        else:
            raise KeyError(fn)
    except Exception as ex:
        ctx.violation(f"{fn}:raised-{_exc(ex)}[{'read-only' if kind == 'float64-readonly' else 'array-like'}-argument]", f"{fn} with a {kind} argument raised {_exc(ex)}: {ex}", case)
        ok = False
    ctx.outcome(("arg", fn, kind, ok))
    if ok:
        ctx.nontrivial(("arg", fn, kind, repr({k: v for k, v in case.items() if k not in ("family", "fn", "kind")})))


def arg_cases(ctx):
    G = _G(ctx)
    lat0 = N.lattice_vectors(None)
    lat1 = N.lattice_vectors(G)
    out = []
    pairs = [(lat0[3], lat0[9]), (lat0[6], -2.0 * lat0[6]), (lat0[60], lat0[30]), (lat0[25], lat0[25] * 3.0), (lat1[7], lat1[40]), (lat1[55], -lat1[55]), (lat1[30], lat0[70])]
    for v1, v2 in pairs:
        for kind in _kinds_for(np.concatenate([v1, v2])):
            for which in ("both", "v1", "v2"):
                out.append({"family": "arg", "fn": "rotation_matrix_from_vectors", "kind": kind, "which": which, "v1": N.lst(v1), "v2": N.lst(v2)})
    for ax in (lat0[3], lat0[20], lat0[52 + 11], lat0[26 + 5], lat1[9], lat1[60], lat1[33]):
        for ang in (2.0, -PI / 6, PI):
            for kind in _kinds_for(ax):
                out.append({"family": "arg", "fn": "rotation_matrix_from_axis", "kind": kind, "axis": N.lst(ax), "angle": ang})
    vecs = [lat0[8], lat0[52 + 2], lat1[17], lat1[26 + 4]]
    rots = [[N.lst(lat0[5]), PI / 2], [N.lst(lat1[12]), 2.0]]
    for name in MOLS_QUICK:
        topo = _topo("mol", name)
        sels = [s_ for s_ in selections(topo) if len(s_) < topo.n][:3]
        for v in vecs:
            for kind in _kinds_for(v):
                out.append({"family": "arg", "fn": "Molecule.translate", "kind": kind, "mol": name, "vec": N.lst(v)})
                for sel in sels:
                    out.append({"family": "arg", "fn": "Substructure.translate", "kind": kind, "mol": name, "sel": sel, "vec": N.lst(v)})
        for r in rots:
            for kind in ARG_KINDS:
                if kind == "int64":
                    continue
                out.append({"family": "arg", "fn": "Molecule.transform", "kind": kind, "mol": name, "rot": r})
                out.append({"family": "arg", "fn": "Molecule.coords=", "kind": kind, "mol": name, "rot": r, "vec": N.lst(vecs[2])})
                for sel in sels:
                    out.append({"family": "arg", "fn": "Substructure.transform", "kind": kind, "mol": name, "sel": sel, "rot": r})
                    out.append({"family": "arg", "fn": "Substructure.coords=", "kind": kind, "mol": name, "sel": sel, "rot": r, "vec": N.lst(vecs[0])})
    chain = [0, 1, 5, 8, 11]
    for ename in ENS_ALL:
        for v in vecs:
            for kind in _kinds_for(v):
                out.append({"family": "arg", "fn": "ConformerEnsemble.translate[1d]", "kind": kind, "ens": ename, "vec": N.lst(v)})
                out.append({"family": "arg", "fn": "ConformerEnsemble.translate[2d]", "kind": kind, "ens": ename, "vec": N.lst(v)})
        for r in rots:
            for kind in ARG_KINDS:
                if kind == "int64":
                    continue
                out.append({"family": "arg", "fn": "ConformerEnsemble.rotate[matrix]", "kind": kind, "ens": ename, "rot": r})
                out.append({"family": "arg", "fn": "ConformerEnsemble.rotate[stack]", "kind": kind, "ens": ename, "rot": r})
                out.append({"family": "arg", "fn": "ConformerEnsemble.coords=", "kind": kind, "ens": ename, "rot": r, "vec": N.lst(vecs[1])})
        for core in ([0, 1, 2], [3, 0]):
            for kind in ("list", "tuple"):  # documented as list[int]: python ints only
                out.append({"family": "arg", "fn": "ConformerEnsemble.center_at_core", "kind": kind, "ens": ename, "core": core})
    for maps in ([chain], [chain, chain[::-1]]):
        for kind in ARG_KINDS:
            if kind == "int64":
                continue
            out.append({"family": "arg", "fn": "ConformerEnsemble.align_to_ref_coords", "kind": kind, "ens": "pentane_confs", "maps": maps})
    return out


def part_arg(ctx, spec):
    lo, hi = spec
    for i, c in enumerate(arg_cases(ctx)[lo:hi]):
        exec_arg(ctx, c)
        if lo == 0 and i == 1:
            ctx.sample(c)


# ---- own : the argument is a view of the object's own coordinates ------------------------------------
def _own_view(obj, how, i, j=None):
    if how == "get_atom_coord":
        return obj.get_atom_coord(i)
    if how == "coords[i]":
        return obj.coords[i]
    if how == "vector(i,j)":
        return obj.vector(j, i)  # coords[i] - coords[j]: a fresh array computed from two views
    raise KeyError(how)


def exec_own(ctx, case):
    hist = case["hist"]
    how = case.get("how", "get_atom_coord")
    ctx.count(evaluations=1, states=1, traces=1)
    pre = f"own-coordinates-as-argument[{hist}]"
    ok = True
    try:
        if hist in ("orient", "axis-through-own-atom", "vectors-between-own-atoms"):
            m, base = _posed_mol(ctx, case["mol"])
            topo = _topo("mol", case["mol"])
            A, C = int(case["A"]), int(case["C"])
            what = f"{hist} on {case['mol']} (A={A}, C={C}, argument via {how})"
            # step 1: put A at the origin (fresh array: the negated view)
            m.translate(-_own_view(m, "get_atom_coord", A))
            ctx.count(transitions=1)
            s1 = np.array(m.coords, dtype=float, copy=True)
            if float(np.max(np.abs(s1 - (base - base[A])))) > TOL * N.mag(base):
                ctx.violation(f"{pre}:translate(-own-row)-not-the-documented-effect", f"{what}: translate(-get_atom_coord(A)) did not put A at the origin rigidly", case)
                return
            # step 2: only COMPUTE the matrix from a view into the molecule
            if hist == "orient":
                tgt = Arg(case["target"], case.get("tkind", "list"))
                view = _own_view(m, how, C, A)
                with N.RandSeam(N.answer_sequence(N.RNG_MENU[0])):
                    R = np.asarray(rotation_matrix_from_vectors(view, tgt.obj), dtype=float)
                fn = "rotation_matrix_from_vectors"
                if not tgt.intact():
                    ctx.violation(f"{fn}:argument-array-modified", f"{what}: the target vector ({tgt.kind}) was changed", case)
                    return
            elif hist == "vectors-between-own-atoms":
                B = int(case["B"])
                with N.RandSeam(N.answer_sequence(N.RNG_MENU[0])):
                    R = np.asarray(rotation_matrix_from_vectors(_own_view(m, how, C, A), _own_view(m, how, B, A)), dtype=float)
                fn = "rotation_matrix_from_vectors"
            else:
                R = np.asarray(rotation_matrix_from_axis(_own_view(m, how, C, A), float(case["angle"])), dtype=float)
                fn = "rotation_matrix_from_axis"
            ctx.count(transitions=1)
            s2 = np.asarray(m.coords)
            if s2.shape != s1.shape or s2.tobytes() != s1.tobytes():
                nchg = int(np.sum(np.any(s2 != s1, axis=1))) if s2.shape == s1.shape else -1
                ctx.violation(
                    f"{fn}:molecule-changed-by-computing-the-matrix(argument-is-a-view-of-its-coordinates)",
                    f"{what}: merely computing the matrix moved {nchg} atom(s) of the molecule whose {how} was passed in",
                    case,
                )
                ctx.outcome(("own", hist, how, "mutated"))
                return
            # step 3: apply it; the whole history is a rigid motion with the documented effect
            m.transform(R)
            ctx.count(transitions=1)
            fin = np.asarray(m.coords)
            ok = judge_edit(ctx, pre, case, base, fin, list(range(m.n_atoms)), None, topo.stereo_quads(), what=what)
            M = N.mag(base)
            rC = s1[C] if how != "vector(i,j)" else s1[C] - s1[A]
            if ok and float(np.max(np.abs(fin[A]))) > TOL * M:
                ctx.violation(f"{pre}:pivot-atom-left-the-origin", f"{what}: atom A is at {fin[A].tolist()}", case)
                ok = False
            if ok and hist == "orient":
                want = float(np.linalg.norm(rC)) * N.unit(tgt.value)
                t = max(TOL, rv_tol(_one_plus_c(rC, tgt.value))) * M
                if float(np.max(np.abs(fin[C] - want))) > t:
                    ctx.violation(f"{pre}:atom-not-on-the-target-axis-at-its-distance", f"{what}: C is at {fin[C].tolist()}, expected {want.tolist()}", case)
                    ok = False
            if ok and hist == "vectors-between-own-atoms":
                B = int(case["B"])
                rB = s1[B] if how != "vector(i,j)" else s1[B] - s1[A]
                want = float(np.linalg.norm(rC)) * N.unit(rB)
                t = max(TOL, rv_tol(_one_plus_c(rC, rB))) * M
                if float(np.max(np.abs(fin[C] - want))) > t:
                    ctx.violation(f"{pre}:atom-not-on-the-target-axis-at-its-distance", f"{what}: C is at {fin[C].tolist()}, expected {want.tolist()}", case)
                    ok = False
            if ok and hist == "axis-through-own-atom":
                if float(np.max(np.abs(fin[C] - s1[C]))) > TOL * M:
                    ctx.violation(f"{pre}:atom-on-the-axis-moved", f"{what}: the atom defining the axis moved by {float(np.max(np.abs(fin[C] - s1[C]))):.3g}", case)
                    ok = False
        elif hist in ("translate(own-row-view)", "Substructure.coords=(own-slice-view)"):
            m, base = _posed_mol(ctx, case["mol"])
            topo = _topo("mol", case["mol"])
            A = int(case["A"])
            what = f"{hist} on {case['mol']} (A={A}, {how})"
            if hist.startswith("translate"):
                m.translate(_own_view(m, how, A))
                moved, expected = list(range(m.n_atoms)), base + base[A]
            else:
                sel = [int(x) for x in case["sel"]]
                lo = int(case["lo"])
                m.substructure(list(sel)).coords = m.coords[lo : lo + len(sel)]
                moved = sel
                expected = base[lo : lo + len(sel)][np.argsort(np.array(sel), kind="stable")]
            ctx.count(transitions=1)
            fin = np.asarray(m.coords)
            ok = judge_edit(ctx, pre, case, base, fin, moved, expected, topo.stereo_quads() if hist.startswith("translate") else (), what=what) if hist.startswith("translate") else True
            if not hist.startswith("translate"):
                others = [i for i in range(m.n_atoms) if i not in set(sel)]
                if fin[others].tobytes() != base[others].tobytes():
                    ctx.violation(f"{pre}:atoms-outside-selection-changed", f"{what}: unselected atoms changed", case)
                    ok = False
                elif float(np.max(np.abs(fin[sorted(sel)] - expected))) > 0.0:
                    ctx.violation(f"{pre}:not-the-documented-effect", f"{what}: the selected rows are not the assigned values (as they were before the call)", case)
                    ok = False
        elif hist in ("ens.translate(own-column-view)", "ens.translate(own-row-view)", "Conformer.coords=(other-conformer-view)", "Conformer.translate(other-conformer-row-view)", "align(vec=view-of-reference-coords)"):
            e, base = _posed_ens(ctx, case["ens"])
            topo = _topo("ens", case["ens"])
            nc, na = base.shape[:2]
            i, k, j = int(case.get("atom", 0)), int(case.get("conf", 0)), int(case.get("other", 0))
            what = f"{hist} on {case['ens']} (atom {i}, conformer {k}, other {j})"
            if hist == "ens.translate(own-column-view)":
                e.translate(e.coords[:, i])
                expected = base + base[:, i : i + 1, :]
            elif hist == "ens.translate(own-row-view)":
                e.translate(e.coords[k, i])
                expected = base + base[k, i]
            elif hist == "Conformer.coords=(other-conformer-view)":
                e[k].coords = e.coords[j]
                expected = base.copy()
                expected[k] = base[j]
            elif hist == "Conformer.translate(other-conformer-row-view)":
                e[k].translate(e.coords[j, i])
                expected = base.copy()
                expected[k] = base[k] + base[j, i]
            else:
                maps = [[int(x) for x in mm] for mm in case["maps"]]
                refmol = ml.Molecule(e[j])
                refc = base[j] @ N.pose_matrix(2)[0] + N.pose_matrix(2)[1]
                refmol._coords = refc.copy()
                refsub = refmol.substructure(list(maps[0]))
                refsub.translate(-np.mean(refc[maps[0]], axis=0))
                far = [a for a in range(na) if a not in maps[0]][0]
                before_ref = np.array(refmol.coords, copy=True)
                vecview = refmol.coords[far]  # a view into the reference molecule's coordinate array
                ret = e.align_to_ref_coords(_harness_kabsch([]), [list(mm) for mm in maps], refsub, vecview)
                if np.asarray(refmol.coords).tobytes() != before_ref.tobytes():
                    ctx.violation("ConformerEnsemble.align_to_ref_coords:argument-array-modified", f"{what}: the reference coordinates (vec is a view of them) were changed", case)
                    return
                Q = np.array(refsub.coords, dtype=float)
                fin = np.asarray(e.coords, dtype=float)
                expected = None
                for kk in range(nc):
                    ach = min(N.rmsd(fin[kk][mm] - before_ref[far], Q) for mm in maps)
                    if abs(ach - float(ret[kk])) > TOL * max(1.0, N.extent(Q)):
                        ctx.violation(f"{pre}:returned-rmsd-differs-from-achieved", f"{what}: conformer {kk}: returned {float(ret[kk]):.9g}, achieved {ach:.9g}", case)
                        ok = False
                        break
            ctx.count(transitions=1)
            fin = np.asarray(e.coords)
            if expected is not None:
                if fin.shape != base.shape or float(np.max(np.abs(fin - expected))) > TOL * N.mag(base, expected):
                    ctx.violation(f"{pre}:not-the-documented-effect", f"{what}: result differs from the documented effect computed with the argument's value at call time", case)
                    ok = False
            else:
                for kk in range(nc):
                    ok = judge_edit(ctx, pre, case, base[kk], fin[kk], list(range(na)), None, topo.stereo_quads(), what=what) and ok
                    if not ok:
                        break
        else:
            raise KeyError(hist)
    except Exception as ex:
        ctx.violation(f"{pre}:raised-{_exc(ex)}", f"{hist} raised {_exc(ex)}: {ex}", case)
        ok = False
    ctx.outcome(("own", hist, how, ok))
    if ok:
        ctx.nontrivial(("own", repr(sorted((k, repr(v)) for k, v in case.items()))))


def own_cases(ctx, name):
    topo = _topo("mol", name)
    G = _G(ctx)
    lat1 = N.lattice_vectors(G)
    out = []
    targets = [([0.0, 0.0, 1.0], "list"), ([0.0, 0.0, 1.0], "float64"), ([1.0, 0.0, 0.0], "tuple"), (N.lst(lat1[13] * 2.5), "float64"), ([0.0, -3.0, 0.0], "int64")]
    pairs = [(i, j) for i, j in topo.bonds] + [(j, i) for i, j in topo.bonds]
    for n_, (A, C) in enumerate(pairs):
        for hi, how in enumerate(("get_atom_coord", "coords[i]", "vector(i,j)")):
            tv, tk = targets[(n_ + hi) % len(targets)]
            out.append({"family": "own", "hist": "orient", "mol": name, "A": A, "C": C, "how": how, "target": tv, "tkind": tk})
            tv, tk = targets[(n_ + hi + 2) % len(targets)]
            out.append({"family": "own", "hist": "orient", "mol": name, "A": A, "C": C, "how": how, "target": tv, "tkind": tk})
            out.append({"family": "own", "hist": "axis-through-own-atom", "mol": name, "A": A, "C": C, "how": how, "angle": ANGLES[3 + (n_ + hi) % 8]})
            others = [b for b in topo.adj[A] if b != C]
            if others:
                out.append({"family": "own", "hist": "vectors-between-own-atoms", "mol": name, "A": A, "C": C, "B": others[n_ % len(others)], "how": how})
        for how in ("get_atom_coord", "coords[i]"):
            out.append({"family": "own", "hist": "translate(own-row-view)", "mol": name, "A": A, "how": how})
    n = topo.n
    for sel in selections(topo):
        if len(sel) < n:
            for lo in sorted({0, max(0, min(sel)), n - len(sel)}):
                if lo + len(sel) <= n:
                    out.append({"family": "own", "hist": "Substructure.coords=(own-slice-view)", "mol": name, "A": 0, "sel": sel, "lo": lo})
    return out


def own_ens_cases(ctx):
    out = []
    chain = [0, 1, 5, 8, 11]
    for ename in ENS_ALL:
        e = _raw_ens(ename)
        nc, na = e.coords.shape[:2]
        for i in range(na):
            out.append({"family": "own", "hist": "ens.translate(own-column-view)", "ens": ename, "atom": i})
            out.append({"family": "own", "hist": "ens.translate(own-row-view)", "ens": ename, "atom": i, "conf": i % nc})
        for k in range(nc):
            for j in range(nc):
                if j != k:
                    out.append({"family": "own", "hist": "Conformer.coords=(other-conformer-view)", "ens": ename, "conf": k, "other": j})
                    out.append({"family": "own", "hist": "Conformer.translate(other-conformer-row-view)", "ens": ename, "conf": k, "other": j, "atom": (k + j) % na})
    for j in (0, 4):
        for maps in ([chain], [chain, chain[::-1]], [chain[:3], chain[::-1][:3]]):
            out.append({"family": "own", "hist": "align(vec=view-of-reference-coords)", "ens": "pentane_confs", "other": j, "maps": maps})
    return out


def part_own(ctx, spec):
    kind, name, lo, hi = spec
    cs = (own_cases(ctx, name) if kind == "mol" else own_ens_cases(ctx))[lo:hi]
    for i, c in enumerate(cs):
        exec_own(ctx, c)
        if lo == 0 and i == 0 and name in ("twofrag", None):
            ctx.sample(c)


# =====================================================================================================
# mag : the MAGNITUDE of a direction argument must not matter (10^-150 .. 10^150)
# =====================================================================================================
MAG_EXP = (-14, -12, -10, -8, -6, -3, 0, 3, 6, 8, -150, 150)
MAG_ANGLES = (PI / 6, 2.0, PI, -PI / 2, 1e-3)
MTOL = 1e-12  # HEAD divides by the exact norm: a proper rotation to ~1e-15 whatever the length of the axis


def exec_mag(ctx, case):
    what_k = case["kind"]
    ctx.count(evaluations=1, states=1, transitions=1, traces=1)
    old = np.seterr(all="ignore")
    ok = True
    try:
        if what_k == "axis":
            axis = np.array(case["axis"], dtype=float)
            ang = float(case["angle"])
            cls = case["magcls"]
            pre = f"rotation_matrix_from_axis[|axis|={cls}]"
            R = np.asarray(rotation_matrix_from_axis(axis.copy(), ang), dtype=float)
            a = N.unit(axis / np.max(np.abs(axis)))  # the direction, computed without squaring tiny numbers
            if R.shape != (3, 3) or not np.all(np.isfinite(R)):
                ctx.violation(f"{pre}:non-finite", f"axis {axis.tolist()}: result is not a finite 3x3 matrix", case)
                ok = False
            else:
                eo = float(np.max(np.abs(R @ R.T - np.eye(3))))
                ed = abs(float(np.linalg.det(R)) - 1.0)
                ea = max(float(np.max(np.abs(R @ a - a))), float(np.max(np.abs(a @ R - a))))
                et = abs(float(np.trace(R)) - (1.0 + 2.0 * math.cos(ang)))
                _ratio("mag-axis", max(eo, ed, ea, et), MTOL)
                if eo > MTOL or ed > MTOL:
                    ctx.violation(f"{pre}:not-a-proper-rotation", f"axis of length {np.linalg.norm(axis):.3g}, angle {ang:.6g}: |R R^T - I| = {eo:.3g}, |det - 1| = {ed:.3g}", case)
                    ok = False
                elif ea > MTOL:
                    ctx.violation(f"{pre}:axis-not-fixed", f"axis of length {np.linalg.norm(axis):.3g}: |R a - a| = {ea:.3g}", case)
                    ok = False
                elif et > MTOL:
                    ctx.violation(f"{pre}:trace-not-1+2cos", f"axis of length {np.linalg.norm(axis):.3g}, angle {ang:.6g}: trace off by {et:.3g}", case)
                    ok = False
            ctx.outcome(("mag", "axis", cls, ok))
        elif what_k == "vectors":
            v1 = np.array(case["v1"], dtype=float)
            v2 = np.array(case["v2"], dtype=float)
            cls = case["magcls"]
            pre = f"rotation_matrix_from_vectors[|v|={cls}]"
            n1 = N.unit(v1 / np.max(np.abs(v1)))
            n2 = N.unit(v2 / np.max(np.abs(v2)))
            opc = float(np.dot(n1 + n2, n1 + n2) / 2.0)
            tol = max(MTOL, 256 * EPS / max(opc, DOC_SWITCH))
            with N.RandSeam(N.answer_sequence(N.RNG_MENU[0])):
                R = np.asarray(rotation_matrix_from_vectors(v1.copy(), v2.copy()), dtype=float)
            if R.shape != (3, 3) or not np.all(np.isfinite(R)):
                ctx.violation(f"{pre}:non-finite", f"|v1| = {np.linalg.norm(v1):.3g}, |v2| = {np.linalg.norm(v2):.3g}: not a finite 3x3 matrix", case)
                ok = False
            else:
                eo = float(np.max(np.abs(R @ R.T - np.eye(3))))
                ed = abs(float(np.linalg.det(R)) - 1.0)
                em = float(np.max(np.abs(n1 @ R - n2)))
                _ratio("mag-vectors", max(eo, ed, em), tol)
                if eo > tol or ed > tol:
                    ctx.violation(f"{pre}:not-a-proper-rotation", f"|v1| = {np.linalg.norm(v1):.3g}, |v2| = {np.linalg.norm(v2):.3g}: |R R^T - I| = {eo:.3g}, |det - 1| = {ed:.3g}", case)
                    ok = False
                elif em > tol:
                    ctx.violation(f"{pre}:v1-not-mapped-onto-v2", f"|v1| = {np.linalg.norm(v1):.3g}, |v2| = {np.linalg.norm(v2):.3g}: |v1n @ R - v2n| = {em:.3g}", case)
                    ok = False
            ctx.outcome(("mag", "vectors", cls, ok))
        elif what_k == "transform-with-short-axis":
            # the axis is the cross product of two nearly parallel directions taken from the molecule
            m, base = _posed_mol(ctx, case["mol"])
            topo = _topo("mol", case["mol"])
            a, b = int(case["a"]), int(case["b"])
            d = m.vector(a, b)
            u1, _ = N.any_orthogonal(d)
            d2 = d + 10.0 ** int(case["eps_exp"]) * np.linalg.norm(d) * u1
            axis = np.cross(d, d2)
            pre = "transform(rotation_matrix_from_axis(cross-product-of-nearly-parallel-directions))"
            R = rotation_matrix_from_axis(axis, float(case["angle"]))
            m.transform(R)
            ctx.count(transitions=1)
            ok = judge_edit(ctx, pre, case, base, np.asarray(m.coords), list(range(m.n_atoms)), None, topo.stereo_quads(), what=f"{pre} on {case['mol']}, |axis| = {np.linalg.norm(axis):.3g}")
            ctx.outcome(("mag", "transform", int(case["eps_exp"]), ok))
        elif what_k == "rotate_dihedral-scaled":
            m, base = _posed_mol(ctx, case["mol"])
            topo = _topo("mol", case["mol"])
            sc = 10.0 ** int(case["exp"])
            q = [int(x) for x in case["quad"]]
            target = float(case["target"])
            start = base * sc
            m._coords = start.copy()
            pre = "rotate_dihedral[scaled-molecule]"
            what = f"rotate_dihedral({tuple(q)}, {target:.6g}) on {case['mol']} scaled by 1e{int(case['exp'])}"
            d0 = N.dihedral(*(base[i] for i in q))
            m.rotate_dihedral(tuple(q), target)
            after = np.asarray(m.coords)
            # judged in units of the scale: relative tolerances
            ok = judge_edit(ctx, pre, case, start / sc, after / sc, topo.side(q[1], q[2]), None, topo.stereo_quads(), what=what, rigid_with=(q[1],))
            if ok:
                ok = _judge_dihedral(ctx, pre, case, m, q, d0, target, what)
            ctx.outcome(("mag", "dihedral", int(case["exp"]), ok))
        elif what_k == "align-scaled":
            sc = 10.0 ** int(case["exp"])
            kind = case["obj_kind"]
            if kind == "ens":
                obj, base = _posed_ens(ctx, case["obj"])
                topo = _topo("ens", case["obj"])
            else:
                obj, b0 = _posed_mol(ctx, case["obj"])
                base = b0[None]
                topo = _topo("mol", case["obj"])
            maps = [[int(x) for x in mm] for mm in case["maps"]]
            nc = base.shape[0]
            Mr, tr = N.pose_matrix(int(case["ref_pose"]))
            refc = (base[0] @ Mr + tr) * sc
            refmol = ml.Molecule(obj[0]) if kind == "ens" else ml.Molecule(obj)
            refmol._coords = refc.copy()
            refsub = refmol.substructure(list(maps[0]))
            vec = np.mean(refc[maps[0]], axis=0)
            refsub.translate(-vec)
            Q = np.array(refsub.coords, dtype=float, copy=True)
            Mp, tp = N.pose_matrix(int(case["pose"]))
            start = (base @ Mp + tp) * sc
            obj._coords = start.copy() if kind == "ens" else start[0].copy()
            pre = f"align_to_ref_coords[{'ConformerEnsemble' if kind == 'ens' else 'Molecule'},scaled]"
            what = f"{pre} on {case['obj']} scaled by 1e{int(case['exp'])}"
            ret = obj.align_to_ref_coords(_harness_kabsch([]), [list(mm) for mm in maps], refsub, vec.copy())
            after = np.asarray(obj.coords, dtype=float)
            after = after if kind == "ens" else after[None]
            retl = [float(x) for x in (ret if kind == "ens" else [ret])]
            for k in range(nc):
                ok = judge_edit(ctx, pre, case, start[k] / sc, after[k] / sc, list(range(start.shape[1])), None, topo.stereo_quads(), what=f"{what}, conformer {k}") and ok
                if not ok:
                    break
                ach = min(N.rmsd(after[k][mm] - vec, Q) for mm in maps)
                if abs(ach - retl[k]) > TOL * sc * max(1.0, N.extent(Q / sc)):
                    ctx.violation(f"{pre}:returned-rmsd-differs-from-achieved", f"{what}, conformer {k}: returned {retl[k]:.9g}, achieved {ach:.9g}", case)
                    ok = False
                    break
            ctx.outcome(("mag", "align", int(case["exp"]), ok))
        else:
            raise KeyError(what_k)
    except Exception as ex:
        ctx.violation(f"magnitude[{what_k}]:raised-{_exc(ex)}", f"{what_k} raised {_exc(ex)}: {ex}", case)
        ok = False
    finally:
        np.seterr(**old)
    if ok:
        ctx.nontrivial(("mag", repr(sorted((k, repr(v)) for k, v in case.items()))))


def _magcls(e):
    return "1e-150..1e-100" if e < -100 else ("1e-14..1e-6" if e <= -6 else ("1e-3..1e3" if e <= 3 else ("1e6..1e8" if e <= 8 else "1e100..1e150")))


def mag_cases(ctx, k):
    G = None if k < 0 else _G(ctx, k)
    dirs = [np.array(d, dtype=float) if G is None else np.array(d, dtype=float) @ G for d in N.LATTICE_DIRS]
    out = []
    for di, d in enumerate(dirs):
        for e in MAG_EXP:
            for ai, ang in enumerate(MAG_ANGLES):
                if (di + ai) % 5 < 3 or e in (-14, -12, -8):
                    out.append({"family": "mag", "kind": "axis", "axis": N.lst(d * 10.0**e), "angle": ang, "magcls": _magcls(e)})
    # vector pairs: general, antiparallel and a near-antiparallel neighbour, every pair of magnitudes
    pairs = []
    for i in range(0, 26, 2):
        pairs.append((dirs[i], dirs[(i + 7) % 26]))
    pairs.append((dirs[3], -dirs[3]))
    pairs.append((dirs[10], -dirs[10]))
    u1, _ = N.any_orthogonal(dirs[5])
    pairs.append((dirs[5], -dirs[5] + 1e-3 * np.linalg.norm(dirs[5]) * u1))
    pairs.append((dirs[8], dirs[8]))
    for pi_, (a, b) in enumerate(pairs):
        for e1 in MAG_EXP:
            for e2 in MAG_EXP:
                if e1 == e2 == 0:
                    continue
                worst = e1 if abs(e1) >= abs(e2) else e2
                out.append({"family": "mag", "kind": "vectors", "v1": N.lst(a * 10.0**e1), "v2": N.lst(b * 10.0**e2), "magcls": _magcls(worst)})
    if k <= 0:
        for name in ("chiral5", "twofrag", "pentane0", "dendrobine_mol2"):
            topo = _topo("mol", name)
            bonds = topo.bonds[:: max(1, len(topo.bonds) // 6)]
            for bi, (a, b) in enumerate(bonds):
                for ee in (-3, -6, -8, -10, -12, -14):
                    out.append({"family": "mag", "kind": "transform-with-short-axis", "mol": name, "a": a, "b": b, "eps_exp": ee, "angle": MAG_ANGLES[(bi + ee) % 5]})
            qs = dihedral_quads(topo, all_choices=False)
            for qi, q in enumerate(qs[:: max(1, len(qs) // 6)]):
                for e in (-14, -10, -6, -3, 3, 6, 8):
                    out.append({"family": "mag", "kind": "rotate_dihedral-scaled", "mol": name, "quad": list(q), "target": TARGETS[2 + (qi + e) % 8], "exp": e})
        chain = [0, 1, 5, 8, 11]
        for e in (-10, -6, -3):
            for pose in (1, 4):
                out.append({"family": "mag", "kind": "align-scaled", "obj_kind": "mol", "obj": "chiral5", "maps": [[0, 1, 2, 3]], "exp": e, "pose": pose, "ref_pose": 3})
                out.append({"family": "mag", "kind": "align-scaled", "obj_kind": "ens", "obj": "pentane_confs", "maps": [chain, chain[::-1]], "exp": e, "pose": pose, "ref_pose": 2})
                out.append({"family": "mag", "kind": "align-scaled", "obj_kind": "ens", "obj": "syn3x3", "maps": [[0, 1, 2]], "exp": e, "pose": pose, "ref_pose": 5})
    return out


def part_mag(ctx, spec):
    k, lo, hi = spec
    for i, c in enumerate(mag_cases(ctx, k)[lo:hi]):
        exec_mag(ctx, c)
        if lo == 0 and i == 4 and k == -1:
            ctx.sample(c)


# =====================================================================================================
# partner : an operation on one object must not move any object it was copied from / that was copied from it
# =====================================================================================================
PARTNER_ROUTES = (
    "Molecule(molecule)",
    "Structure(molecule)",
    "Molecule(conformer)",
    "ConformerEnsemble(ensemble)",
    "ConformerEnsemble([molecules])",
    "pickle[Molecule]",
    "pickle[ConformerEnsemble]",
    "deepcopy[Molecule]",
    "deepcopy[ConformerEnsemble]",
)


def _snap(o):
    return np.array(o.coords, dtype=float, copy=True)  # a plain numpy copy, never a library copy route


def exec_partner(ctx, case):
    import copy
    import pickle

    route = case["route"]
    name = case["src"]
    G = _G(ctx)
    ctx.count(evaluations=1, states=1, traces=1)
    try:
        # ---- the source (built from raw data, itself not a copy of a cached object's arrays) -----------------
        if route in ("Molecule(molecule)", "Structure(molecule)", "pickle[Molecule]", "deepcopy[Molecule]", "ConformerEnsemble([molecules])"):
            raw = _raw_mol(name)
            key = ("raw", name)
            if key not in _CACHE:
                _posed_mol(ctx, name)
            src = ml.Molecule(raw)
            src._coords = (_CACHE[key] @ G).copy()
        else:
            raw = _raw_ens(name)
            key = ("eraw", name)
            if key not in _CACHE:
                _posed_ens(ctx, name)
            src = ml.ConformerEnsemble(raw)
            src._coords = (_CACHE[key] @ G).copy()

        def make(j):
            if route == "Molecule(molecule)":
                return ml.Molecule(src)
            if route == "Structure(molecule)":
                return ml.Structure(src)
            if route == "Molecule(conformer)":
                return ml.Molecule(src[(j + int(case.get("conf", 0))) % src.n_conformers])
            if route == "ConformerEnsemble(ensemble)":
                return ml.ConformerEnsemble(src)
            if route.startswith("pickle"):
                return pickle.loads(pickle.dumps(src))
            if route.startswith("deepcopy"):
                return copy.deepcopy(src)
            raise KeyError(route)

        if route == "ConformerEnsemble([molecules])":
            m2 = ml.Molecule(src)
            m2._coords = (np.asarray(src.coords) @ N.pose_matrix(2)[0] + 0.3).copy()
            objs = {"source-molecule-0": src, "source-molecule-1": m2}
            objs["ensemble-a"] = ml.ConformerEnsemble([src, m2])
            objs["ensemble-b"] = ml.ConformerEnsemble([src, m2])
        else:
            objs = {"source": src, "copy-a": make(0), "copy-b": make(1)}
        ctx.count(transitions=len(objs))
    except Exception as ex:
        ctx.violation(f"copy-route[{route}]:raised-{_exc(ex)}", f"building partners by {route} from {name} raised {_exc(ex)}: {ex}", case)
        return
    snaps = {k: _snap(o) for k, o in objs.items()}
    lat = N.lattice_vectors(G)
    ok = True
    order = list(objs)
    rot = int(case.get("start", 0))
    order = order[rot % len(order) :] + order[: rot % len(order)]
    for step, who in enumerate(order):
        o = objs[who]
        t = step + rot + int(case.get("k", 0))
        op = case["ops"][step % len(case["ops"])]
        before = snaps[who]
        v = lat[(7 * t + 3) % 78]
        R = N.rot_axis_angle(lat[(5 * t + 1) % 26], ANGLES[3 + t % 8])
        is_ens = before.ndim == 3
        try:
            if op == "translate":
                o.translate(v.copy())
                expected = before + v
            elif op == "rotate":
                (o.rotate if is_ens else o.transform)(R.copy())
                expected = before @ R
            elif op == "center":
                if is_ens:
                    o.center_at_atom(o.atoms[0])
                    expected = before - before[:, 0:1, :]
                else:
                    o.translate(-o.get_atom_coord(0))
                    expected = before - before[0]
            elif op == "substructure":
                if is_ens:
                    o[0].substructure([0]).translate(v.copy())
                    expected = before.copy()
                    expected[0, 0] += v
                else:
                    o.substructure([0]).translate(v.copy())
                    expected = before.copy()
                    expected[0] += v
            elif op == "inplace":
                o.coords[..., 0] += 0.5
                expected = before.copy()
                expected[..., 0] += 0.5
            else:
                raise KeyError(op)
            ctx.count(transitions=1)
        except Exception as ex:
            ctx.violation(f"partner[{route}]:{op}-raised-{_exc(ex)}", f"{op} on {who} ({route} of {name}) raised {_exc(ex)}: {ex}", case)
            return
        now = _snap(o)
        if now.shape != expected.shape or float(np.max(np.abs(now - expected))) > TOL * N.mag(before, expected):
            ctx.violation(f"partner[{route}]:not-the-documented-effect", f"{op} on {who} ({route} of {name}), step {step}: the object itself does not show the documented effect relative to its state before", case)
            ok = False
            break
        snaps[who] = now
        for other, oo in objs.items():
            if other == who:
                continue
            cur = _snap(oo)
            if cur.shape != snaps[other].shape or cur.tobytes() != snaps[other].tobytes():
                ctx.violation(
                    f"operation-on-one-object-moved-another[{route}]",
                    f"{op} on {who} changed the coordinates of {other} (objects related by {route} of {name}; max change {float(np.max(np.abs(cur - snaps[other]))) if cur.shape == snaps[other].shape else float('nan'):.3g})",
                    case,
                )
                ok = False
                break
        if not ok:
            break
    ctx.outcome(("partner", route, tuple(case["ops"]), ok))
    if ok:
        ctx.nontrivial(("partner", route, name, tuple(case["ops"]), case.get("start", 0), case.get("k", 0)))


def partner_cases(ctx):
    out = []
    opsets = [["translate", "rotate", "center"], ["rotate", "substructure", "translate"], ["inplace", "rotate", "translate"], ["center", "translate", "rotate"]]
    for route in PARTNER_ROUTES:
        ens_src = route in ("Molecule(conformer)", "ConformerEnsemble(ensemble)", "pickle[ConformerEnsemble]", "deepcopy[ConformerEnsemble]")
        srcs = ["pentane_confs", "chiral5x3", "syn3x3", "syn1x1", "syn4x4"] if ens_src else ["chiral5", "twofrag", "pentane0", "tri3", "mono1"]
        for si, name in enumerate(srcs):
            for oi, ops in enumerate(opsets):
                for start in range(4 if route == "ConformerEnsemble([molecules])" else 3):
                    out.append({"family": "partner", "route": route, "src": name, "ops": ops, "start": start, "k": si + oi, "conf": oi})
    return out


def part_partner(ctx, spec):
    lo, hi = spec
    for i, c in enumerate(partner_cases(ctx)[lo:hi]):
        exec_partner(ctx, c)
        if lo == 0 and i == 1:
            ctx.sample(c)


# =====================================================================================================
# ctor : the object's OWN coordinate block, whatever array-like it was constructed from
# =====================================================================================================
CTOR_KINDS = ("python-int", "int64", "int32", "float32", "float16", "float64-fortran", "float64-strided", "float64-readonly")
CTOR_KIND_CLASS = {
    "python-int": "integer",
    "int64": "integer",
    "int32": "integer",
    "float32": "low-precision-float",
    "float16": "low-precision-float",
    "float64-fortran": "float64-layout",
    "float64-strided": "float64-layout",
    "float64-readonly": "float64-layout",
}
CTOR_ROUTES = (
    "CartesianGeometry(elements, coords=)",
    "Structure(elements, coords=)",
    "Molecule(elements, coords=)",
    "Molecule(molecule, coords=)",
    "ConformerEnsemble(ensemble, coords=)",
    "ConformerEnsemble(molecule, n_conformers=, coords=)",
    "ConformerEnsemble([molecules built with such coords])",
)
CT_INT = [[0, 0, 0], [1, 1, 0], [2, 0, 1], [3, 1, 2], [2, 2, 3]]
CT_ELEMS = ["C", "N", "O", "S", "C"]
CT_BONDS = [(0, 1), (1, 2), (2, 3), (3, 4)]


def _ctor_array(values, kind):
    """(object handed to the constructor, its float64 value, an integrity check)"""
    a = np.array(values, dtype=float)
    if CTOR_KIND_CLASS[kind] != "integer":
        a = a * 0.75 + 0.125  # dyadic: exact in float16 as well
    holder = None
    if kind == "python-int":
        obj = a.astype(int).tolist()
    elif kind in ("int64", "int32"):
        obj = a.astype(kind)
    elif kind in ("float32", "float16"):
        obj = a.astype(kind)
    elif kind == "float64-fortran":
        obj = np.asfortranarray(a.copy())
    elif kind == "float64-strided":
        holder = np.full(a.shape[:-1] + (6,), -3.5)
        holder[..., ::2] = a
        obj = holder[..., ::2]
    elif kind == "float64-readonly":
        obj = a.copy()
        obj.flags.writeable = False
    else:
        raise KeyError(kind)
    snap = repr(obj) if isinstance(obj, list) else (obj.dtype.str, obj.shape, obj.strides, np.ascontiguousarray(obj).tobytes(), None if holder is None else holder.tobytes())

    def intact():
        now = repr(obj) if isinstance(obj, list) else (obj.dtype.str, obj.shape, obj.strides, np.ascontiguousarray(obj).tobytes(), None if holder is None else holder.tobytes())
        return now == snap

    return obj, np.array(obj, dtype=float), intact


def _ctor_values(nc=None):
    base = np.array(CT_INT, dtype=float)
    if nc is None:
        return base
    out = []
    for k in range(nc):
        c = base.copy()
        c[4] += np.array([k, 0, -k])
        c[0] += np.array([0, k, 0])
        out.append(c + np.array([k, 2 * k, 3 * k]))
    return np.array(out)


def _connect_chain(o):
    for i, j in CT_BONDS:
        o.connect(i, j)
    return o


def exec_ctor(ctx, case):
    from molli.chem import CartesianGeometry, Structure

    route = case["route"]
    kind = case["kind"]
    op = case["op"]
    clsname = route.split("(")[0]
    pre = f"constructed[{clsname},coords={CTOR_KIND_CLASS[kind]}]"
    what = f"{route} with {kind} coordinates, then {op}"
    is_ens = clsname == "ConformerEnsemble"
    nc = 3
    ctx.count(evaluations=1, states=1, traces=1)
    old = np.seterr(all="ignore")
    try:
        # ---- construction ------------------------------------------------------------------------------------
        try:
            if not is_ens:
                obj_in, val, intact = _ctor_array(_ctor_values(), kind)
                if route.startswith("CartesianGeometry"):
                    o = CartesianGeometry(list(CT_ELEMS), coords=obj_in)
                elif route.startswith("Structure"):
                    o = _connect_chain(Structure(list(CT_ELEMS), coords=obj_in))
                elif route == "Molecule(elements, coords=)":
                    o = _connect_chain(ml.Molecule(list(CT_ELEMS), coords=obj_in))
                else:
                    tmpl = _connect_chain(ml.Molecule(list(CT_ELEMS), coords=np.array(CT_INT, dtype=float) + 9.0))
                    o = ml.Molecule(tmpl, coords=obj_in)
            else:
                obj_in, val, intact = _ctor_array(_ctor_values(nc), kind)
                tmpl = _connect_chain(ml.Molecule(list(CT_ELEMS), coords=np.array(CT_INT, dtype=float) + 9.0))
                if route.startswith("ConformerEnsemble(ensemble"):
                    e0 = ml.ConformerEnsemble([ml.Molecule(tmpl) for _ in range(nc)])
                    o = ml.ConformerEnsemble(e0, coords=obj_in)
                elif route.startswith("ConformerEnsemble(molecule"):
                    o = ml.ConformerEnsemble(tmpl, n_conformers=nc, coords=obj_in)
                else:
                    parts_ = []
                    intacts = []
                    vals = []
                    for k in range(nc):
                        oi, vi, ii = _ctor_array(_ctor_values(nc)[k], kind)
                        parts_.append(_connect_chain(ml.Molecule(list(CT_ELEMS), coords=oi)))
                        intacts.append(ii)
                        vals.append(vi)
                    o = ml.ConformerEnsemble(parts_)
                    val = np.array(vals)
                    intact = lambda: all(f() for f in intacts)  # noqa: E731
            ctx.count(transitions=1)
        except Exception as ex:
            ctx.violation(f"{pre}:construction-raised-{_exc(ex)}", f"{what}: construction raised {_exc(ex)}: {ex}", case)
            return
        c0 = np.asarray(o.coords)
        if c0.dtype != np.float64:
            ctx.violation(f"{pre}:coords-dtype-not-float64", f"{what}: the object's coordinate block has dtype {c0.dtype} (float64 whatever the input, as measured on the reference tree)", case)
            ctx.outcome(("ctor", clsname, kind, "dtype"))
            return
        if c0.shape != val.shape or c0.tobytes() != val.tobytes():
            ctx.violation(f"{pre}:initial-coordinates-differ-from-the-values-given", f"{what}: coords after construction differ from the given values", case)
            return
        if not intact():
            ctx.violation(f"{pre}:argument-array-modified", f"{what}: the array handed to the constructor was changed", case)
            return
        if np.shares_memory(c0, obj_in) if isinstance(obj_in, np.ndarray) else False:
            ctx.violation(f"{pre}:shares-memory-with-the-argument", f"{what}: the object's coordinates alias the caller's array", case)
            return
        # ---- one operation, judged as everywhere else ---------------------------------------------------------
        before = val.copy()
        v = np.array([0.37, -1.21, 2.5])
        R = N.rot_axis_angle([0.3, -0.5, 0.8], 1.9)
        topo = Topo(o) if hasattr(o, "bonds") else None
        quads = topo.stereo_quads() if topo is not None else ()
        expected = None
        moved = list(range(before.shape[-2]))
        try:
            if op == "translate":
                o.translate(v.copy())
                expected = before + v
            elif op == "translate[2d]":
                V = np.array([v * (k + 1) for k in range(nc)])
                o.translate(V)
                expected = before + V[:, None, :]
            elif op == "transform":
                (o.rotate if is_ens else o.transform)(R.copy())
                expected = before @ R
            elif op == "transform[validate=True]":
                (o[1] if is_ens else o).transform(R.copy(), validate=True)
                expected = before.copy()
                if is_ens:
                    expected[1] = before[1] @ R
                else:
                    expected = before @ R
            elif op == "rotate_dihedral":
                q = (0, 1, 2, 3)
                tgt = o[1] if is_ens else o
                bk = before[1] if is_ens else before
                d0 = N.dihedral(*(bk[i] for i in q))
                tgt.rotate_dihedral(q, d0 + 1.3)
                d1 = N.dihedral(*(np.asarray(tgt.coords, dtype=float)[i] for i in q))
                if abs(N.wrap_angle(d1 - d0 - 1.3)) > TOL:
                    ctx.violation(f"{pre}:rotate_dihedral:dihedral-not-at-target", f"{what}: dihedral {d0:.6g} -> {d1:.6g}, target {d0 + 1.3:.6g}", case)
                    return
                moved = [3, 4]
                rigid_with = (1, 2)
            elif op == "substructure-translate":
                (o[0] if is_ens else o).substructure([4, 1]).translate(v.copy())
                expected = before.copy()
                if is_ens:
                    expected[0, [1, 4]] += v
                else:
                    expected[[1, 4]] += v
            elif op == "coords=integer-array":
                new = (np.array(_ctor_values(nc) if is_ens else _ctor_values()) + 2).astype(np.int64)
                o.coords = new
                expected = new.astype(float)
            elif op == "center_at_atom":
                o.center_at_atom(o.atoms[2])
                expected = before - before[:, 2:3, :]
            elif op == "center_at_core":
                o.center_at_core([0, 1, 2])
                expected = before - np.mean(before[:, [0, 1, 2], :], axis=1, keepdims=True)
            elif op == "align":
                refc = (before[0] if is_ens else before) @ N.pose_matrix(3)[0] + N.pose_matrix(3)[1]
                refmol = _connect_chain(ml.Molecule(list(CT_ELEMS), coords=refc))
                core = [0, 1, 2, 3]
                refsub = refmol.substructure(core)
                vec = np.mean(refc[core], axis=0)
                refsub.translate(-vec)
                Q = np.array(refsub.coords, dtype=float)
                ret = o.align_to_ref_coords(_harness_kabsch([]), [list(core)], refsub, vec.copy())
                fin = np.asarray(o.coords, dtype=float)
                fin_l = fin if is_ens else fin[None]
                for k, r_ in enumerate(ret if is_ens else [ret]):
                    ach = N.rmsd(fin_l[k][core] - vec, Q)
                    if abs(ach - float(r_)) > TOL * max(1.0, N.extent(Q)):
                        ctx.violation(f"{pre}:align:returned-rmsd-differs-from-achieved", f"{what}: returned {float(r_):.9g}, achieved {ach:.9g}", case)
                        return
            else:
                raise KeyError(op)
            ctx.count(transitions=1)
        except Exception as ex:
            ctx.violation(f"{pre}:{op}-raised-{_exc(ex)}", f"{what} raised {_exc(ex)}: {ex}", case)
            ctx.outcome(("ctor", clsname, kind, op, "raised"))
            return
        after = np.asarray(o.coords)
        if after.dtype != np.float64 or after.shape != before.shape:
            ctx.violation(f"{pre}:coords-dtype-not-float64", f"{what}: after the operation the coordinate block is {after.dtype}{after.shape}", case)
            return
        ok = True
        bl = before if is_ens else before[None]
        al = after if is_ens else after[None]
        el = None if expected is None else (expected if is_ens else expected[None])
        for k in range(bl.shape[0] if op != "coords=integer-array" else 0):
            mv = moved
            ex_k = None if el is None else el[k][sorted(set(mv))]
            if op in ("rotate_dihedral", "substructure-translate") and is_ens and k != (1 if op == "rotate_dihedral" else 0):
                mv, ex_k = [], None
            if op == "substructure-translate":
                mv = [1, 4] if (not is_ens or k == 0) else []
                ex_k = None if el is None or not mv else el[k][[1, 4]]
            ok = judge_edit(ctx, f"{pre}:{op}", case, bl[k], al[k], mv, ex_k, quads if op not in ("substructure-translate", "coords=integer-array") else (), what=what, rigid_with=(1, 2) if op == "rotate_dihedral" and mv else ()) and ok
            if not ok:
                break
        if op == "coords=integer-array":
            ok = True if float(np.max(np.abs(after - expected))) == 0.0 else False
            if not ok:
                ctx.violation(f"{pre}:coords=:not-the-assigned-values", f"{what}: coords differ from the assigned integer values", case)
        ctx.outcome(("ctor", clsname, kind, op, ok))
        if ok:
            ctx.nontrivial(("ctor", route, kind, op))
    finally:
        np.seterr(**old)


def ctor_cases(ctx):
    out = []
    for route in CTOR_ROUTES:
        cls = route.split("(")[0]
        if cls == "CartesianGeometry":
            ops = ["translate", "transform", "transform[validate=True]", "coords=integer-array"]
        elif cls == "Structure":
            ops = ["translate", "transform", "transform[validate=True]", "rotate_dihedral", "substructure-translate", "coords=integer-array"]
        elif cls == "Molecule":
            ops = ["translate", "transform", "rotate_dihedral", "substructure-translate", "coords=integer-array", "align"]
        else:
            ops = ["translate", "translate[2d]", "transform", "rotate_dihedral", "substructure-translate", "coords=integer-array", "center_at_atom", "center_at_core", "align"]
        for kind in CTOR_KINDS:
            for op in ops:
                out.append({"family": "ctor", "route": route, "kind": kind, "op": op})
    return out


def part_ctor(ctx, spec):
    lo, hi = spec
    for i, c in enumerate(ctor_cases(ctx)[lo:hi]):
        exec_ctor(ctx, c)
        if lo == 0 and i == 1:
            ctx.sample(c)


# =====================================================================================================
# post : start states in which ONE conformer already satisfies the postcondition and the others do not,
#        and chains of operations (center -> center, translate one view -> center, ... -> align)
# =====================================================================================================
POST_PREPS = ("translate-through-the-conformer-view", "ensemble([molecules])", "ensemble([seed]).extend(rest)", "coordinates-assigned")
POST_OPS = ("center_at_core", "center_at_core-twice", "center_at_atom", "center_at_atom-then-center_at_core", "align_to_ref_coords")


def exec_post(ctx, case):
    name = case["ens"]
    j = int(case["j"])
    core = [int(x) for x in case["core"]]
    prep = case["prep"]
    op = case["op"]
    e0, base = _posed_ens(ctx, name)
    topo = _topo("ens", name)
    nc, na = base.shape[:2]
    which = "first" if j == 0 else ("last" if j == nc - 1 else "middle")
    pre = f"{op}[{which}-conformer-already-centred]"
    what = f"{op} on {name} after conformer {j} alone was put with its core {core} (resp. atom {core[0]}) at the origin by {prep}"
    ctx.count(evaluations=1, states=1, traces=1)
    atom_mode = op.startswith("center_at_atom")
    shift = base[j][core[0]] if atom_mode else np.mean(base[j][core], axis=0)
    # ---- set-up: conformer j satisfies the postcondition exactly, the others are where they were ----------
    try:
        if prep == "translate-through-the-conformer-view":
            e = e0
            e[j].translate(-shift)
        elif prep == "coordinates-assigned":
            e = e0
            c = base.copy()
            c[j] = base[j] - shift
            e._coords = c
        else:
            mols = []
            for k in range(nc):
                m = ml.Molecule(e0[k])
                m._coords = (base[k] - shift if k == j else base[k]).copy()
                mols.append(m)
            if prep == "ensemble([molecules])":
                e = ml.ConformerEnsemble(mols)
            else:
                # the already-centred conformer is the seed the ensemble is grown from (it ends up first)
                e = ml.ConformerEnsemble([mols[j]])
                e.extend(ml.ConformerEnsemble([mols[k] for k in range(nc) if k != j]) if nc > 1 else [])
        ctx.count(transitions=1)
    except Exception as ex:
        ctx.violation(f"{pre}:set-up-raised-{_exc(ex)}", f"{what}: set-up raised {_exc(ex)}: {ex}", case)
        return
    mid = np.array(e.coords, dtype=float, copy=True)
    if mid.shape != base.shape:
        ctx.violation(f"{pre}:set-up-wrong-shape", f"{what}: the ensemble has coords {mid.shape}, expected {base.shape}", case)
        return
    ok = True
    try:
        if op in ("center_at_core", "center_at_core-twice"):
            e.center_at_core(list(core))
            if op.endswith("twice"):
                e.center_at_core(list(core))
            expected = mid - np.mean(mid[:, core, :], axis=1, keepdims=True)
        elif op == "center_at_atom":
            e.center_at_atom(e.atoms[core[0]])
            expected = mid - mid[:, core[0] : core[0] + 1, :]
        elif op == "center_at_atom-then-center_at_core":
            e.center_at_atom(e.atoms[core[0]])
            e.center_at_core(list(core))
            expected = mid - np.mean(mid[:, core, :], axis=1, keepdims=True)
        elif op == "align_to_ref_coords":
            expected = None
            refc = base[int(case.get("ref_conf", 0)) % nc] @ N.pose_matrix(3)[0] + N.pose_matrix(3)[1]
            refmol = ml.Molecule(e0[0])
            refmol._coords = refc.copy()
            refsub = refmol.substructure(list(core))
            vec = np.mean(refc[core], axis=0)
            refsub.translate(-vec)
            Q = np.array(refsub.coords, dtype=float, copy=True)
            ret = [float(x) for x in e.align_to_ref_coords(_harness_kabsch([]), [list(core)], refsub, vec.copy())]
            fin = np.asarray(e.coords, dtype=float)
            # the same alignment from the general pose (no conformer pre-centred): a plain numpy start state
            e0._coords = base.copy()
            ret0 = [float(x) for x in e0.align_to_ref_coords(_harness_kabsch([]), [list(core)], refsub, vec.copy())]
            fin0 = np.asarray(e0.coords, dtype=float)
            order = list(range(nc)) if prep != "ensemble([seed]).extend(rest)" else [j] + [k for k in range(nc) if k != j]
            for pos_, k in enumerate(order):
                ok = judge_edit(ctx, pre, case, mid[pos_], fin[pos_], list(range(na)), None, topo.stereo_quads(), what=f"{what}, conformer {k}") and ok
                if not ok:
                    break
                ach = N.rmsd(fin[pos_][core] - vec, Q)
                if abs(ach - ret[pos_]) > TOL * max(1.0, N.extent(Q)):
                    ctx.violation(f"{pre}:returned-rmsd-differs-from-achieved", f"{what}, conformer {k}: returned {ret[pos_]:.9g}, achieved {ach:.9g}", case)
                    ok = False
                    break
                if abs(ret[pos_] - ret0[k]) > TOL * max(1.0, N.extent(Q)) or float(np.max(np.abs(fin[pos_] - fin0[k]))) > 1e-8 * N.mag(fin0[k]):
                    ctx.violation(
                        f"{pre}:result-depends-on-initial-pose",
                        f"{what}, conformer {k}: RMSD {ret[pos_]:.9g} / final coordinates differ from the alignment of the same conformers from the general pose (RMSD {ret0[k]:.9g}, max deviation {float(np.max(np.abs(fin[pos_] - fin0[k]))):.3g})",
                        case,
                    )
                    ok = False
                    break
        else:
            raise KeyError(op)
        ctx.count(transitions=2)
    except Exception as ex:
        ctx.violation(f"{pre}:raised-{_exc(ex)}", f"{what} raised {_exc(ex)}: {ex}", case)
        return
    if expected is not None:
        fin = np.asarray(e.coords)
        for k in range(nc):
            ok = judge_edit(ctx, pre, case, mid[k], fin[k], list(range(na)), expected[k], topo.stereo_quads(), what=f"{what}, conformer position {k}") and ok
            if not ok:
                break
    ctx.outcome(("post", op, which, prep, ok))
    if ok:
        ctx.nontrivial(("post", name, j, tuple(core), prep, op))


def post_cases(ctx):
    out = []
    chain = [0, 1, 5, 8, 11]
    cfg = [("pentane_confs", [chain, [0, 1, 5], [11]]), ("chiral5x3", [[0, 1, 2, 3], [2, 0]]), ("syn3x3", [[0, 1, 2], [1]]), ("syn4x4", [[0, 1, 2, 3], [3, 1]]), ("syn2x3", [[0, 1, 2]])]
    for name, cores in cfg:
        nc = _raw_ens(name).coords.shape[0]
        for j in sorted({0, nc // 2, nc - 1}):
            for ci, core in enumerate(cores):
                for pi_, prep in enumerate(POST_PREPS):
                    for oi, op in enumerate(POST_OPS):
                        if op == "align_to_ref_coords" and len(core) < 3:
                            continue
                        out.append({"family": "post", "ens": name, "j": j, "core": core, "prep": prep, "op": op, "ref_conf": j + ci + pi_})
    return out


def part_post(ctx, spec):
    lo, hi = spec
    for i, c in enumerate(post_cases(ctx)[lo:hi]):
        exec_post(ctx, c)
        if lo == 0 and i == 3:
            ctx.sample(c)


# =====================================================================================================
EXEC = {"rv": exec_rv, "ra": exec_ra, "mol": exec_mol, "dih": exec_dih, "ens": exec_ens, "aln": exec_aln, "hist": exec_hist, "histens": exec_histens, "arg": exec_arg, "own": exec_own, "mag": exec_mag, "partner": exec_partner, "ctor": exec_ctor, "post": exec_post}
PARTS = {"rv_pairs": part_rv_pairs, "rv_anti": part_rv_anti, "ra": part_ra, "mol": part_mol, "dih": part_dih, "ens": part_ens, "aln": part_aln, "hist": part_hist, "histens": part_histens, "arg": part_arg, "own": part_own, "ens_shapes": part_ens_shapes, "mag": part_mag, "partner": part_partner, "ctor": part_ctor, "post": part_post}


def _run_part(ctx, part):
    import os

    import time

    kind, spec = part
    t0 = time.time()
    PARTS[kind](ctx, spec)
    if os.environ.get("C11_DEBUG"):
        print("C11_DEBUG", kind, spec, f"{time.time()-t0:.1f}s", {k: float(f"{v:.3g}") for k, v in sorted(_MAXR.items())}, flush=True)


def _chunks(n, k):
    step = max(1, (n + k - 1) // k)
    return [(lo, min(n, lo + step)) for lo in range(0, n, step)]


def run(ctx):
    thorough = ctx.thorough
    ctx.rule = (
        "exhaustive over finite lattices, nothing sampled: vectors/axes = 26 lattice directions x magnitudes {1,1e-3,1e3}, "
        "un-rotated (axis aligned) and turned by the seed-chosen global rotation; antiparallel neighbourhood v2 = -v1 + d|v1|u, "
        f"d in {list(D_MENU)}; every answer of a 12-entry menu (+ answers parallel / nearly parallel to v2 when they lie in [0,1)^3) "
        "for each call that consumes numpy.random.rand; angle menu; every acyclic bond with neighbours on both sides, both directions, x "
        + ("every (a,d) neighbour choice" if thorough else "every (a,d) neighbour choice (molecules up to 20 atoms; the first and the last choice for dendrobine - quick tier)")
        + " x target menu; stated molecules/ensembles in the global pose; for every test molecule and selection a Substructure KEPT across "
        "each parent edit of {none, del_atom of an unselected atom with a lower / a higher index, add_atom, parent.translate, "
        "parent.transform, del+add} and then used (translate, transform, coords=, both, read), with and without one read of the view before the parent edit, atoms matched by identity; every conformer "
        "view (and a Substructure of it) kept across 7 ensemble edits x 4 edits through the view; every ensemble-level operation (translate 1-D/2-D, "
        "rotate matrix/stack, center_at_atom for every atom, center_at_core, Conformer translate/transform, align_to_ref_coords) on ensembles whose "
        "(n_conformers, n_atoms) is (1,1),(1,3),(3,1),(3,3),(2,3),(3,2),(4,4),(5,5) and (17,17) pentane - the coincidences on which a "
        "shape-dispatched argument could be misread - plus 1-atom and 3-atom molecules in the molecule families; every transform call additionally with the documented keyword validate in "
        "{True, False} (Molecule, Substructure, Conformer, CartesianGeometry, Structure; kept views too) and rotation_matrix_from_vectors with "
        "tol in {1e-4, 1e-6, 1e-10}; start states in which exactly one conformer (first / middle / last) already has its core (or atom) at the "
        "origin - made so through the conformer view, by plain assignment, by building the ensemble from molecules, or by growing it from that seed "
        "with extend() - followed by center_at_core (once, twice), center_at_atom, center_at_atom then center_at_core, and align_to_ref_coords "
        "(compared with the alignment of the same conformers from the general pose); every alignment case additionally started from the aligned pose turned "
        f"by {list(NEAR_DELTAS)} rad about two axes through the core's centroid, with and without a 1e-4 shift (result equal to the aligned pose to "
        "1e-8, RMSD to 1e-9); objects constructed with coords= given as python ints, int64, int32, float32, float16, Fortran-ordered, strided and "
        "read-only float64 (CartesianGeometry, Structure, Molecule from elements and from a molecule, ConformerEnsemble from an ensemble / a molecule "
        "/ molecules built that way): float64 block holding exactly the given values, then every operation of the surface; a magnitude dimension: every lattice direction scaled by 10^k, "
        f"k in {list(MAG_EXP)}, as the axis of rotation_matrix_from_axis (proper rotation, axis fixed, trace = 1+2cos to 1e-12) and in every "
        "pair of magnitudes as v1, v2 of rotation_matrix_from_vectors; transform with the matrix about the cross product of two directions "
        "1e-3..1e-14 apart taken from the molecule; rotate_dihedral and alignment on molecules scaled by 1e-14..1e8 (judged in units of the "
        "scale); partner liveness: objects related by 9 copy routes (copy constructors, Molecule(conformer), ensemble from molecules, pickle, "
        "deepcopy) - after every operation on one of them every other one is compared bit for bit with a plain numpy snapshot; "
        "every function of the property that takes "
        "array arguments (both rotation constructors, translate, transform, coords=, ensemble translate/rotate/coords=/center_at_core/"
        "align_to_ref_coords) called with each argument kind of {float64, strided float64 view, read-only float64, float32, int64, list, "
        "tuple}: arguments bit-identical afterwards and the documented effect; the same functions fed with VIEWS of the object's own "
        "coordinates (get_atom_coord(i), coords[i], vector(i,j), a row/column/conformer of the ensemble, a row of the reference) - the object "
        "must be unchanged by merely computing a matrix - and the full 'orient' history over every bond in both directions (A to the origin, "
        "rotate A->C onto a target axis / about the axis through C / onto A->B). The result is 'holds at every lattice point' and says "
        "nothing about values outside the lattice. A case is non-trivial when it passes its oracle AND actually moves something "
        "(rotation angle != 0 mod 2pi, displacement > 1e-6, vectors not parallel)"
    )
    ctx.assumptions += [
        "tolerance 1e-9 relative to the largest coordinate / matrix entry involved (float64 path; molli keeps float64 coordinates in Molecule, Substructure, Conformer and ConformerEnsemble - measured)",
        "rotation_matrix_from_vectors near antiparallel input: tolerance max(1e-9, 256 eps / max(1+cos, 1e-8)), i.e. the conditioning of the documented Rodrigues form down to the documented switch tol=1e-8; the largest loss of orthogonality observed there is recorded in notes, not judged",
        "rotation_matrix_from_vectors is judged in the documented row-vector convention (v1 @ R / |v1| == v2 / |v2|)",
        "rotation_matrix_from_axis: the text does not fix the sense; either convention (R @ v or v @ R turns v by +angle, right-handed) is accepted as long as it is the same for every axis and angle (read off f([0,0,1], pi/2))",
        "documented effect of transform / ConformerEnsemble.rotate is coords @ M (their docstring examples)",
        "RNG answers are restricted to [0,1)^3, the range of numpy.random.rand; after the first enumerated answer the seam continues with different answers, as a real generator would",
        "alignment: func is a plain (un-centred) Kabsch in the P @ R ~ Q convention of scripts/align.py returning the true RMSD; conformers for which two index mappings fit equally well (gap < 1e-6) are excluded from the pose-independence comparison only",
        "kept-view histories: the parent edit between creating and using a view is harness set-up through the public API (del_atom / add_atom with an explicit charge); whether that edit itself is consistent is C05's subject - the oracle compares the state after the view was used with the state right before, atom by atom",
        "argument kinds: a float32 argument is judged against its own (rounded) value with tolerance 1e-5/1e-6; float32 vectors within 1+cos < 1e-3 of antiparallel are judged for argument integrity only (the documented switch tol=1e-8 is below float32 resolution; counted in notes); center_at_core takes python-int lists/tuples as documented",
        "magnitudes 1e-300 / 1e300 are excluded: numpy.linalg.norm squares its argument, so HEAD returns NaN below ~1e-162 (underflow of the norm), loses accuracy at 1e-160 (subnormal squares) and returns the identity above ~1e154 (overflow: norm = inf); 1e-150 and 1e150 are the extreme magnitudes enumerated (measured on HEAD: exact to 1e-16)",
        "the coordinate block of every geometry class is float64 whatever array-like was given to coords= (measured on the reference tree for all 7 construction routes x 8 kinds) and is asserted as such",
        "copy.copy (shallow copy) is not a copy route here: sharing the arrays is what a shallow copy means",
        "rotate_dihedral is exercised on acyclic bonds only; dihedrals with collinear triples do not occur in the test molecules",
    ]
    ctx.bound.update(
        {
            "lattice_vectors": 78,
            "global_rotations": 3 if thorough else 1,
            "d_menu": list(D_MENU),
            "rng_menu": len(N.RNG_MENU),
            "angles": len(ANGLES),
            "dihedral_targets": len(TARGETS),
            "poses": len(N.POSES),
            "molecules": MOLS_THOROUGH if thorough else MOLS_QUICK,
            "ensembles": ENS_ALL + SHAPE_ENS,
        }
    )
    parts = []
    ks = [-1, 0] + ([1, 2] if thorough else [])  # -1: un-rotated lattice
    for k in ks:
        for lo, hi in _chunks(78, 6):
            parts.append(("rv_pairs", (k, lo, hi)))
        for lo, hi in _chunks(78, 6):
            parts.append(("rv_anti", (k, lo, hi)))
        parts.append(("ra", (k, 0, 78)))
    mols = MOLS_THOROUGH if thorough else MOLS_QUICK
    for name in mols:
        for gk in [0] + ([1, 2] if thorough else []):
            parts.append(("mol", (name, gk)))
        topo = _topo("mol", name)
        all_choices = thorough or topo.n <= 20
        nq = len(dihedral_quads(topo, all_choices))
        if nq:
            for lo, hi in _chunks(nq, 8 if topo.n > 20 else 2):
                parts.append(("dih", (name, lo, hi, all_choices)))
    for name in ENS_ALL:
        for gk in [0] + ([1, 2] if thorough else []):
            parts.append(("ens", (name, gk)))
        parts.append(("histens", name))
    for k in ks:
        nm = len(mag_cases(ctx, k))
        for lo, hi in _chunks(nm, 4):
            parts.append(("mag", (k, lo, hi)))
    for lo, hi in _chunks(len(partner_cases(ctx)), 4):
        parts.append(("partner", (lo, hi)))
    for lo, hi in _chunks(len(ctor_cases(ctx)), 2):
        parts.append(("ctor", (lo, hi)))
    for lo, hi in _chunks(len(post_cases(ctx)), 4):
        parts.append(("post", (lo, hi)))
    for name in SHAPE_ENS:
        parts.append(("ens_shapes", name))
        parts.append(("histens", name))
    for name in mols:
        parts.append(("hist", name))
    for lo, hi in _chunks(len(arg_cases(ctx)), 4):
        parts.append(("arg", (lo, hi)))
    for name in mols:
        n_own = len(own_cases(ctx, name))
        for lo, hi in _chunks(n_own, 4 if n_own > 400 else 1):
            parts.append(("own", ("mol", name, lo, hi)))
    parts.append(("own", ("ens", None, 0, len(own_ens_cases(ctx)))))
    na = len(aln_cases(ctx))
    for lo, hi in _chunks(na, 8):
        parts.append(("aln", (lo, hi)))
    ctx.pmap(_run_part, parts)
    ctx.note("parts", len(parts))


def replay(ctx, case):
    EXEC[case["family"]](ctx, case)
