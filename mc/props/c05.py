"""
C05 - atoms, bonds, coordinates and charges stay aligned under every edit history.

Explicit-state BFS (engine mc.seqx) over histories of real edit operations applied to real
Molecule / Structure objects (system M) and to Substructure / Conformer views (system V), from
several start states, against a reference model keyed by atom identity:

    model atom  : aid -> (python identity of the Atom, element, label, coordinate given, charge given)
    model bonds : multiset of aid pairs

The model never calls molli for an expected value: coordinates/charges are the values the harness
passed in (exactly representable binary fractions, pairwise distinct, so a row that slides by one
index is always visible), the expected atom of `del_atom(label|element)` is "first in list order",
the bonds of a deleted atom are the model pairs that contain its aid.

Oracle (exactly the clauses of the property text, checked after EVERY step of every history):
  * one coordinate row per atom, (Molecule) one numeric partial charge per atom
  * every surviving atom still has the coordinate and the charge it was given
  * every bond joins two member atoms; deleting an atom removed exactly its bonds
  * atom.parent is the molecule, bond.parent is the molecule, atom.idx == position
Values nobody specified (charge of `add_atom(a, xyz)` without charge, coordinates of implicit
hydrogens, row of an adopted foreign atom) only have to be numeric; they are pinned to what the
object reports after the step and must then survive later edits.
"""
from __future__ import annotations

import pickle
import warnings
from collections import Counter
from pathlib import Path

import numpy as np

from mc import seqx
from mc.core import HarnessError

from molli.chem import Atom, Bond, Molecule, Structure, Element, ConformerEnsemble, Promolecule, Connectivity, CartesianGeometry

LEVEL = "model_checking"

warnings.filterwarnings("ignore")
np.seterr(all="ignore")


# -------------------------------------------------------------------------------------------------
# value alphabets (harness side; nothing here comes from molli)
# -------------------------------------------------------------------------------------------------
def base_coord(k: int):
    """exactly representable, pairwise distinct, in general position (no three collinear for small k)"""
    return (((k * 7) % 11) * 0.5 - 2.0, ((k * 5) % 13) * 0.25 - 1.5, ((k * 3) % 7) * 0.75 + k * 0.125)


POSES = [(0.0, 0.0, 0.0), (0.5, -0.25, 1.0), (-1.5, 2.0, 0.25), (8.0, 0.125, -3.0)]
CONF_SHIFT = (0.0, 0.0, 16.0)  # conformer k of an ensemble = pose + k * CONF_SHIFT


def coord_of(k, pose, conf=0):
    b = base_coord(k)
    return tuple(b[i] + pose[i] + conf * CONF_SHIFT[i] for i in range(3))


def charge_of(k, conf=0):
    # never 0.0 (a zero-filled array must not look right), pairwise distinct, exact in binary
    return (k + 1) / 16.0 - 0.28125 + conf * 4.0


def label_of(k):
    return ("p", "q")[k % 2]  # duplicates on purpose: del_atom(label) must take the FIRST one


MOL2_ELEMS = ["N", "C", "C", "H", "H"]
MOL2_TYPES = {"N": "N.3", "C": "C.3", "H": "H", "O": "O.3"}
MOL2_BONDS = [(0, 1), (1, 2), (2, 3), (2, 4)]

STARTS = {
    # name -> (elements, bonds)
    "empty": ([], []),
    "chain3": (["C", "O", "H"], [(0, 1), (1, 2)]),
    "star4": (["C", "H", "H", "O"], [(0, 1), (0, 2), (0, 3)]),
}
START_NAMES = ["empty", "chain3", "star4", "mol2", "clone", "unpickled", "clone2", "cloned", "twins"]
# start states that keep PARTNER objects alive next to the molecule that is edited (the property
# holds for every molecule alive, not only the edited one):
#   clone     : m = cls(src)                      partners: src
#   clone2    : m = cls(cls(src))                 partners: src, the first clone
#   cloned    : m = src, c = cls(src)             partners: the clone c (the SOURCE is edited)
#   twins     : m, t built from ONE coords array and ONE charges array   partners: t, the caller's arrays
#   unpickled : m = loads(dumps(src))             partners: src
BASE_OF = {"clone": "star4", "unpickled": "chain3", "clone2": "chain3", "cloned": "chain3", "twins": "chain3"}
KINDS = {"Molecule": Molecule, "Structure": Structure}

# constructor start states: every form of `other` x override keywords (none / each alone / all)
CTOR_FORMS = ["none", "atoms", "atoms-tuple", "elements", "Promolecule", "Connectivity", "CartesianGeometry", "Structure", "Molecule", "Conformer"]
OVR_KEYS = ["coords", "atomic_charges", "charge", "mult", "name"]
CT_ELEMS, CT_BONDS = ["C", "O", "H"], [(0, 1), (1, 2)]


def ctor_starts(kind):
    keys = [k for k in OVR_KEYS if not (kind == "Structure" and k == "atomic_charges")]
    combos = [()] + [(k,) for k in keys] + [tuple(keys)]
    return [f"ctor|{form}|{'+'.join(c) or '-'}" for form in CTOR_FORMS for c in combos]


# what the caller may do with ITS OWN list after it handed it to a constructor
CALLER_OPS = ["append", "pop", "reverse", "sort", "clear", "setitem"]


def caller_op(lst, what, keep):
    if what == "append":
        a = Atom("N", label="callers")
        keep.append(a)
        lst.append(a)
    elif what == "pop":
        if lst:
            keep.append(lst.pop())
    elif what == "reverse":
        lst.reverse()
    elif what == "sort":
        lst.sort(key=lambda a: a.element.z)
    elif what == "clear":
        keep.extend(lst)
        lst.clear()
    elif what == "setitem":
        if lst:
            a = Atom("S", label="callers")
            keep += [a, lst[0]]
            lst[0] = a


# argument kinds of the operations that take an iterable of bonds
ARG_CLASS = {"list": "sequence", "tuple": "sequence", "set": "set", "gen": "one-shot", "iter": "one-shot", "map": "one-shot"}

UNSPEC = None  # value nobody specified: must be numeric, is pinned after the step
NEUTRAL = 0.0  # documented: an atom added without an explicit charge is neutral
NAN3 = (float("nan"),) * 3  # documented: an atom adopted without a position gets a NaN row


class Rec:
    __slots__ = ("obj", "elem", "label", "coord", "charge")

    def __init__(self, obj, elem, label, coord, charge):
        self.obj = obj
        self.elem = elem
        self.label = label
        self.coord = coord
        self.charge = charge


class MState:
    __slots__ = ("kind", "start", "mol", "atoms", "ident", "order", "bonds", "hist", "keep", "nmut", "view", "vkind", "confs", "vbonds", "vorder", "cache", "partners", "vxyz", "vq", "meta", "caller")

    def __init__(self):
        self.kind = None
        self.start = None
        self.mol = None
        self.atoms = {}  # aid -> Rec
        self.ident = {}  # id(Atom) -> aid
        self.order = []  # aids in the order mol.atoms listed them after the last verified step
        self.bonds = []  # model multiset of sorted aid pairs
        self.hist = []
        self.keep = []  # keeps foreign atoms / bonds / views alive (identity must not be recycled)
        self.nmut = 0
        self.view = None
        self.vkind = None
        self.confs = None
        self.vbonds = None
        self.vorder = None
        self.cache = None
        self.partners = []  # [role, object, snapshot by value]
        self.vxyz = None  # system V: (conformer, aid) -> coordinate the model expects
        self.vq = None  # system V: (conformer, aid) -> charge
        self.meta = None  # constructor start states: expected name / charge / mult
        self.caller = None  # the caller's own list of atoms that was handed to the constructor


def exc_name(e):
    return type(e).__name__


def _pair(a, b):
    return (a, b) if a <= b else (b, a)


def _feq(x, y):
    return x == y or (x != x and y != y)


def _isnum(v):
    return isinstance(v, (int, float, np.integer, np.floating)) and not isinstance(v, bool)


# =================================================================================================
# system M : Molecule / Structure
# =================================================================================================
class MSys:
    def __init__(self, ctx, add_elems=("C", "H"), full=True, core=False, label="M", views=False):
        self.ctx = ctx
        self.seed = ctx.seed
        self.pose = POSES[ctx.seed % len(POSES)]
        self.add_elems = list(add_elems)
        self.elem0 = sorted(add_elems)[0]  # the same for every seed: a rotation must not change the op SET
        self.full = full  # thorough alphabet (all pairs, object addressing, per-atom hydrogens)
        self.core = core  # restricted add/del/connect core (deep search)
        self.views = views  # held-view search: a Substructure is created first and HELD while the parent is edited
        self.quiet = False
        self.label = label
        self._mol2_path = None

    # ---- reporting ------------------------------------------------------------------------
    def viol(self, st, op, symptom, what, extra=None):
        if self.quiet:
            raise HarnessError(f"violation while replaying a validated prefix: {symptom}: {what}; history={st.hist}")
        sig = symptom[1:] if symptom.startswith("=") else f"{self.opclass(op)}:{symptom}"  # "=..." : complete signature
        hist = st.hist + [list(op)]
        self.ctx.violation(
            sig,
            f"{st.kind}: {what}",
            {"sys": "M", "history": hist, "seed": self.seed, "extra": extra},
            repro=repro_of(hist, self.pose),
        )

    @staticmethod
    def opclass(op):
        k = op[0]
        if k == "start":
            if op[2].startswith("ctor|"):
                _, form, ov = op[2].split("|")
                return f"start[{op[1]}({form}" + ("".join(f",{x}=" for x in ov.split("+")) if ov != "-" else "") + ")]"
            return f"start[{op[2]}]"
        if k == "add":
            return "add_atom(with-charge)" if op[2] == "ch" else "add_atom(no-charge)"
        if k == "new":
            return "new_atom"
        if k == "add_at":
            return "add_atom(coord=row-view)"
        if k == "add_bad":
            return "add_atom(bad-coord)"
        if k == "del":
            mode = {"idx": "by-index", "obj": "by-object", "lbl": "by-label", "elt": "by-element"}[op[1]]
            if len(op) > 3 and op[3] == "bad":
                return f"del_atom(invalid,{mode})"
            return f"del_atom({mode})"
        if k in ("connect", "connect_obj"):
            return "connect"
        if k == "bond":
            return "append_bond(members)"
        if k in ("bond_f1", "bond_f2"):
            return "append_bond(foreign-atom)"
        if k == "bonds_m":
            return "append_bonds(members)"
        if k == "bonds_f":
            return "append_bonds(foreign-atom)"
        if k == "delbond":
            return "del_bond"
        if k == "delbond_bad":
            return "del_bond(invalid)"
        if k == "caller":
            return "caller-list-edit"
        if k == "hold":
            return f"hold-view({op[1]})"
        if k in ("v_translate", "v_setcoords", "v_transform"):
            return "held-Substructure." + {"v_translate": "translate", "v_setcoords": "coords=", "v_transform": "transform"}[k]
        if k == "setq":
            return "atomic_charges[i]="
        if k == "setxyz":
            return "coords[i]="
        if k == "xbonds":
            what = {"m": "members", "f": "foreign-atom", "e": "nothing", "fa1": "foreign-atom", "f2": "both-ends-foreign", "f2m": "both-ends-foreign", "mf2": "both-ends-foreign"}[op[3]]
            return f"{op[1]}_bonds({what},{ARG_CLASS[op[2]]})"
        if k == "rmsub":
            return "remove_substituent"
        if k in ("addH", "addH1"):
            return "add_implicit_hydrogens"
        if k == "query":
            return "query"
        return k

    # ---- start states ---------------------------------------------------------------------
    def mol2_file(self):
        if self._mol2_path is None:
            p = Path(self.ctx.scratch) / f"c05-gen5-{self.label}.mol2"
            lines = ["@<TRIPOS>MOLECULE", "gen5", f"{len(MOL2_ELEMS)} {len(MOL2_BONDS)} 0 0 0", "SMALL", "USER_CHARGES", "", "@<TRIPOS>ATOM"]
            for k, e in enumerate(MOL2_ELEMS):
                x, y, z = coord_of(k, self.pose)
                lines.append(f"{k+1:>6} {label_of(k):<3} {x!r:>12} {y!r:>12} {z!r:>12} {MOL2_TYPES[e]:<6} 1 UNL1 {charge_of(k)!r}")
            lines.append("@<TRIPOS>BOND")
            for j, (a, b) in enumerate(MOL2_BONDS):
                lines.append(f"{j+1:>6} {a+1:>6} {b+1:>6} 1")
            p.write_text("\n".join(lines) + "\n")
            self._mol2_path = p
        return self._mol2_path

    def _built(self, cls, elems, bonds, with_charges, arrays=None):
        atoms = [Atom(e, label=label_of(k)) for k, e in enumerate(elems)]
        if len(elems) == 4:
            atoms = tuple(atoms)  # the atom "list" of a constructor may be any sequence
        kw = {}
        if elems:
            kw["coords"] = [list(coord_of(k, self.pose)) for k in range(len(elems))] if arrays is None else arrays[0]
            if with_charges:
                kw["atomic_charges"] = [charge_of(k) for k in range(len(elems))] if arrays is None else arrays[1]
        m = cls(atoms, name="m", **kw) if elems else cls(name="m")
        for a, b in bonds:
            m.connect(a, b)
        return m

    def _start(self, st, op):
        _, kind, name = op
        cls = KINDS[kind]
        has_q = kind == "Molecule"
        st.kind = kind
        st.start = name
        given = True
        partners = []
        if name in STARTS:
            elems, bonds = STARTS[name]
            m = self._built(cls, elems, bonds, has_q)
        elif name == "mol2":
            elems, bonds = MOL2_ELEMS, MOL2_BONDS
            m = cls.load_mol2(str(self.mol2_file()))
        elif name in ("clone", "clone2", "unpickled"):
            elems, bonds = STARTS[BASE_OF[name]]
            src = self._built(cls, elems, bonds, has_q)
            partners.append(["source", src])
            if name == "clone":
                m = cls(src)
            elif name == "clone2":
                mid = cls(src)
                partners.append(["first-clone", mid])
                m = cls(mid)
            else:
                m = pickle.loads(pickle.dumps(src))
            given = False  # fidelity of a copy is C06's subject: the copy's own report is "what it was given"
        elif name == "cloned":
            elems, bonds = STARTS[BASE_OF[name]]
            m = self._built(cls, elems, bonds, has_q)
            partners.append(["clone", cls(m)])
        elif name == "twins":
            elems, bonds = STARTS[BASE_OF[name]]
            C = np.array([list(coord_of(k, self.pose)) for k in range(len(elems))], dtype=np.float64)
            Q = np.array([charge_of(k) for k in range(len(elems))], dtype=np.float64)
            m = self._built(cls, elems, bonds, has_q, arrays=(C, Q))
            partners.append(["twin", self._built(cls, elems, bonds, has_q, arrays=(C, Q))])
            partners.append(["caller-coords-array", C])
            if has_q:
                partners.append(["caller-charges-array", Q])
        elif name.startswith("ctor|"):
            return self._start_ctor(st, op, cls, has_q)
        else:  # pragma: no cover
            raise HarnessError(f"unknown start {name}")
        st.mol = m
        real = list(m.atoms)
        if len(real) != len(elems):
            self.viol(st, op, "wrong-atom-set", f"start object has {len(real)} atoms, built from {len(elems)}")
            return False
        for k, a in enumerate(real):
            st.atoms[k] = Rec(a, elems[k], label_of(k), coord_of(k, self.pose) if given else UNSPEC, (charge_of(k) if given else UNSPEC) if has_q else UNSPEC)
            st.ident[id(a)] = k
        st.order = list(range(len(real)))
        st.bonds = [_pair(a, b) for a, b in bonds]
        st.partners = [[role, o, _psnap(o)] for role, o in partners]
        if self.quiet:
            self.refresh(st)
            return True
        sym, what = self.verify(st)
        if sym:
            self.viol(st, op, sym, what)
            return False
        return True

    def _ctor_source(self, form, partners):
        """the `other` argument of the constructor (harness values: name 'src', charge -1, mult 2)"""
        n = len(CT_ELEMS)
        atoms = [Atom(e, label=label_of(k)) for k, e in enumerate(CT_ELEMS)]
        xyz = [list(coord_of(k, self.pose)) for k in range(n)]
        q = [charge_of(k) for k in range(n)]
        if form == "none":
            return None, None
        if form == "atoms":
            return atoms, list(atoms)  # the caller's own list object; what it held at the call
        if form == "atoms-tuple":
            return tuple(atoms), list(atoms)
        if form == "elements":
            return list(CT_ELEMS), None
        if form == "Promolecule":
            o = Promolecule(atoms, name="src", charge=-1, mult=2)
        elif form == "Connectivity":
            o = Connectivity(atoms, name="src", charge=-1, mult=2)
        elif form == "CartesianGeometry":
            o = CartesianGeometry(atoms, name="src", charge=-1, mult=2, coords=xyz)
        elif form == "Structure":
            o = Structure(atoms, name="src", charge=-1, mult=2, coords=xyz)
        elif form == "Molecule":
            o = Molecule(atoms, name="src", charge=-1, mult=2, coords=xyz, atomic_charges=q)
        else:  # Conformer 1 of a two-conformer ensemble
            mols = []
            for k in range(2):
                mk = Molecule([Atom(e, label=label_of(i)) for i, e in enumerate(CT_ELEMS)], name="src", charge=-1, mult=2, coords=[list(coord_of(i, self.pose, k)) for i in range(n)], atomic_charges=[charge_of(i, k) for i in range(n)])
                for a, b in CT_BONDS:
                    mk.connect(a, b)
                mols.append(mk)
            ens = ConformerEnsemble(mols)
            partners.append(["ctor-source-ensemble", ens])
            return ens[1], None
        if isinstance(o, Connectivity):
            for a, b in CT_BONDS:
                o.connect(a, b)
        partners.append(["ctor-source", o])
        return o, None

    def _start_ctor(self, st, op, cls, has_q):
        """cls(other, **overrides): the model's initial state is the given value where one is given,
        else the source's, else the documented default"""
        _, kind, name = op
        _, form, ov = name.split("|")
        keys = [] if ov == "-" else ov.split("+")
        n = len(CT_ELEMS)
        partners = []
        other, same_atoms = self._ctor_source(form, partners)
        conf = 1 if form == "Conformer" else 0
        kw = {}
        o_xyz = [(coord_of(k, self.pose)[0] + 256.0, coord_of(k, self.pose)[1], coord_of(k, self.pose)[2]) for k in range(n)]
        o_q = [charge_of(k) + 64.0 for k in range(n)]
        if "coords" in keys:
            kw["coords"] = np.array(o_xyz, dtype=np.float64)
            partners.append(["caller-coords-array", kw["coords"]])
        if "atomic_charges" in keys:
            kw["atomic_charges"] = np.array(o_q, dtype=np.float64)
            partners.append(["caller-charges-array", kw["atomic_charges"]])
        if "charge" in keys:
            kw["charge"] = 2
        if "mult" in keys:
            kw["mult"] = 3
        if "name" in keys:
            kw["name"] = "over"
        try:
            m = cls(n_atoms=n, **kw) if other is None else cls(other, **kw)
        except Exception as e:
            self.viol(st, op, "constructor-raised", f"{kind}({form}{', ' if kw else ''}{', '.join(k + '=' for k in kw)}) raised {exc_name(e)}: {e}")
            return False
        st.mol = m
        st.keep.append(other)
        if form == "atoms":
            st.caller = other  # stays the CALLER's object: what the caller does with it later is not an edit of the molecule
        real = list(m.atoms)
        if len(real) != n or (same_atoms is not None and any(a is not b for a, b in zip(real, same_atoms))):
            self.viol(st, op, "wrong-atom-set", f"constructed object lists {len(real)} atoms; expected {n}" + (" (the very atoms handed in)" if same_atoms else ""))
            return False
        geometric = form in ("CartesianGeometry", "Structure", "Molecule", "Conformer")
        charged = form in ("Molecule", "Conformer")
        has_src = form not in ("none", "atoms", "atoms-tuple", "elements")
        for k, a in enumerate(real):
            if form == "none":
                try:
                    el = a.element.symbol
                except Exception:
                    el = "?"
            else:
                el = CT_ELEMS[k]
            lab = label_of(k) if form not in ("none", "elements") else None
            xyz = o_xyz[k] if "coords" in keys else (coord_of(k, self.pose, conf) if geometric else NAN3)
            ch = o_q[k] if "atomic_charges" in keys else (charge_of(k, conf) if charged else NEUTRAL)
            st.atoms[k] = Rec(a, el, lab, xyz, ch if has_q else UNSPEC)
            st.ident[id(a)] = k
        st.order = list(range(n))
        st.bonds = [_pair(a, b) for a, b in CT_BONDS] if form in ("Connectivity", "Structure", "Molecule", "Conformer") else []
        st.meta = {"name": "over" if "name" in keys else ("src" if has_src else "unknown"), "charge": 2 if "charge" in keys else (-1 if has_src else 0), "mult": 3 if "mult" in keys else (2 if has_src else 1)}
        st.partners = [[role, o, _psnap(o)] for role, o in partners]
        if self.quiet:
            self.refresh(st)
            return True
        sym, what = self.verify(st)
        if sym:
            self.viol(st, op, sym, what)
            return False
        return True

    def check_partners(self, st):
        """every OTHER object alive in the state (the source of a clone, a clone, a twin built from the
        same arrays, the caller's own arrays) was not edited: it must be exactly what it was"""
        for role, o, before in st.partners:
            now = _psnap(o)
            if now != before:
                fld = next((k for k in before if before[k] != now.get(k)), "?")
                return f"partner({role})-changed:{fld}", f"the {role} of the edited object was never touched, but its {fld} changed: {_pshow(before[fld])} -> {_pshow(now.get(fld))}"
        return None, None

    # ---- the oracle -----------------------------------------------------------------------
    def verify(self, st):
        """All clauses of the property on the current real object against the model.
        Returns (symptom, description) of the FIRST failing clause or (None, None)."""
        m = st.mol
        has_q = st.kind == "Molecule"
        try:
            real = list(m.atoms)
        except Exception as e:
            return "atoms-accessor-raises", f"mol.atoms raised {exc_name(e)}"
        n = len(real)
        ids = [st.ident.get(id(a)) for a in real]
        if any(i is None for i in ids) or len(set(ids)) != n or set(ids) != set(st.atoms):
            exp = sorted(st.atoms)
            return "wrong-atom-set", f"atoms listed (model ids) {ids} != expected set {exp}"
        if m.n_atoms != n:
            return "wrong-atom-set", f"n_atoms {m.n_atoms} != len(atoms) {n}"
        # -- one coordinate row per atom
        try:
            c = m.coords
        except Exception as e:
            return "coords-accessor-raises", f"mol.coords raised {exc_name(e)}"
        if not isinstance(c, np.ndarray) or c.shape != (n, 3):
            return "coords-rows!=atoms", f"{n} atoms but coords shape {getattr(c, 'shape', None)}"
        if c.dtype.kind != "f":
            return "coords-not-numeric", f"coords dtype {c.dtype}"
        # -- one numeric partial charge per atom
        q = None
        if has_q:
            try:
                q = m.atomic_charges
            except Exception as e:
                return "charges-accessor-raises", f"mol.atomic_charges raised {exc_name(e)}"
            if not isinstance(q, np.ndarray) or q.shape != (n,):
                return "charges!=atoms", f"{n} atoms but atomic_charges shape {getattr(q, 'shape', None)}"
            if q.dtype.kind not in "fiu":
                return "charges-not-numeric", f"atomic_charges dtype {q.dtype}: {q.tolist()!r}"
        # -- each surviving atom keeps the coordinate / charge it was given
        rows = c.tolist()
        for pos, aid in enumerate(ids):
            r = st.atoms[aid]
            row = tuple(rows[pos])
            if r.coord is not UNSPEC and row != r.coord and not all(_feq(row[i], r.coord[i]) for i in range(3)):
                owner = [a2 for a2, r2 in st.atoms.items() if r2.coord is not UNSPEC and all(_feq(row[i], r2.coord[i]) for i in range(3))]
                return "coord-misaligned", f"atom #{aid} at position {pos} has row {row}, was given {r.coord} (that row belongs to atom(s) {owner})"
            if has_q and r.charge is not UNSPEC and not _feq(float(q[pos]), r.charge):
                owner = [a2 for a2, r2 in st.atoms.items() if r2.charge is not UNSPEC and _feq(float(q[pos]), r2.charge)]
                return "charge-misaligned", f"atom #{aid} at position {pos} has charge {float(q[pos])}, was given {r.charge} (that charge belongs to atom(s) {owner})"
        # -- every bond joins two member atoms; exactly the expected bonds exist
        try:
            bonds = list(m.bonds)
        except Exception as e:
            return "bonds-accessor-raises", f"mol.bonds raised {exc_name(e)}"
        present = set(ids)
        pairs = []
        for b in bonds:
            i1, i2 = st.ident.get(id(b.a1)), st.ident.get(id(b.a2))
            if i1 is None or i2 is None or i1 not in present or i2 not in present:
                return "bond-to-nonmember", f"a bond ends at an atom that is not in mol.atoms (model ids {i1},{i2})"
            pairs.append(_pair(i1, i2))
        if Counter(pairs) != Counter(st.bonds):
            lost = sorted((Counter(st.bonds) - Counter(pairs)).elements())
            extra = sorted((Counter(pairs) - Counter(st.bonds)).elements())
            return "wrong-bond-set", f"bonds (as atom-id pairs): missing {lost}, unexpected {extra}"
        if m.n_bonds != len(bonds):
            return "wrong-bond-set", f"n_bonds {m.n_bonds} != len(bonds) {len(bonds)}"
        cnt = Counter(pairs)
        for k, b in enumerate(bonds):
            if cnt[pairs[k]] == 1:  # bonds compare equal by atom pair: with duplicates "the" index is not unique
                try:
                    ix = m.index_bond(b)
                except Exception as e:
                    return "bond-index-raises", f"index_bond raised {exc_name(e)}"
                if ix != k:
                    return "bond-index-wrong", f"bond #{k} reports index {ix}"
        # -- parents and indices
        for pos, a in enumerate(real):
            try:
                p = a.parent
            except Exception as e:
                return "atom-parent-raises", f"atom.parent raised {exc_name(e)}: {e}"
            if p is not m:
                return "atom-parent-wrong", f"atom at position {pos} reports parent {p!r}"
            try:
                ix = a.idx
            except Exception as e:
                return "atom-idx-raises", f"atom.idx raised {exc_name(e)}"
            if ix != pos:
                return "atom-idx-wrong", f"atom at position {pos} reports idx {ix}"
        for k, b in enumerate(bonds):
            try:
                p = b.parent
            except Exception as e:
                return "bond-parent-raises", f"bond.parent raised {exc_name(e)}: {e}"
            if p is not m:
                return "bond-parent-wrong", f"bond #{k} reports parent {p!r}"
        if st.meta:
            for fld, exp in st.meta.items():
                got = getattr(m, fld, "<absent>")
                if got != exp or type(got) is not type(exp):
                    return f"molecule-field-wrong:{fld}", f"mol.{fld} is {got!r}; the constructor was given / inherits {exp!r}"
        # -- verified: refresh the observed order, pin values nobody specified
        st.order = ids
        for pos, aid in enumerate(ids):
            r = st.atoms[aid]
            if r.coord is UNSPEC:
                r.coord = tuple(rows[pos])
            if has_q and r.charge is UNSPEC:
                r.charge = float(q[pos])
        return None, None

    def refresh(self, st):
        """replay of a validated prefix: only the bookkeeping of verify()"""
        m = st.mol
        st.order = [st.ident[id(a)] for a in m.atoms]
        has_q = st.kind == "Molecule"
        for pos, aid in enumerate(st.order):
            r = st.atoms[aid]
            if r.coord is UNSPEC:
                r.coord = tuple(m.coords[pos].tolist())
            if has_q and r.charge is UNSPEC:
                r.charge = float(m.atomic_charges[pos])

    def derive(self, st):
        """After a composite routine (or an operation that raised) the atoms added / removed are
        read off the real object BY IDENTITY; everything else is still demanded: survivors keep
        their rows, a bond disappears only together with one of its atoms."""
        real = list(st.mol.atoms)
        surv = [st.ident[id(a)] for a in real if id(a) in st.ident]
        gone = set(st.atoms) - set(surv)
        for aid in gone:
            r = st.atoms.pop(aid)
            st.keep.append(r.obj)  # identity stays reserved
            del st.ident[id(r.obj)]
        for a in real:
            if id(a) not in st.ident:
                aid = self._fresh(st)
                try:
                    el = a.element.symbol
                except Exception:
                    el = "?"
                st.atoms[aid] = Rec(a, el, a.label, UNSPEC, NEUTRAL)  # created by a routine: position is the routine's business, the charge is neutral
                st.ident[id(a)] = aid
        # bonds: those between survivors must still be there
        old = Counter(p for p in st.bonds if p[0] not in gone and p[1] not in gone)
        pairs = []
        for b in list(st.mol.bonds):
            i1, i2 = st.ident.get(id(b.a1)), st.ident.get(id(b.a2))
            if i1 is not None and i2 is not None:
                pairs.append(_pair(i1, i2))
        lost = old - Counter(pairs)
        st.bonds = pairs
        if lost:
            return "bond-between-survivors-lost", f"bonds {sorted(lost.elements())} vanished although both atoms survive"
        return None, None

    def _fresh(self, st):
        k = 0
        while k in st.atoms:
            k += 1
        return k

    # ---- protocol -------------------------------------------------------------------------
    def build(self, hist):
        st = MState()
        self.quiet = True
        try:
            for op in hist:
                if not self.step(st, tuple(op)):
                    raise HarnessError(f"replay of a validated prefix failed at {op}; history={hist}")
        finally:
            self.quiet = False
        return st

    def dispose(self, st):
        st.keep.clear()

    def is_nontrivial(self, st):
        return st.nmut >= 1 and len(st.order) >= 2

    def enabled(self, st):
        n = len(st.order)
        nb = len(st.bonds)
        ops = []
        E = self.add_elems
        if st.caller is not None and not self.views:
            return self._rot(self._enabled_main(st, n, nb, E) + [("caller", w) for w in CALLER_OPS])
        return self._enabled_main(st, n, nb, E)

    def _enabled_main(self, st, n, nb, E):
        ops = []
        if self.views:
            return self._rot(self._enabled_views(st, n, nb))
        if self.core:
            ops.append(("add", self.elem0, "ch"))
            for i in range(n):
                ops.append(("del", "idx", i))
            for e in self._distinct(st, "elem"):
                ops.append(("del", "elt", e))
            for l in self._distinct(st, "label"):
                ops.append(("del", "lbl", l))
            for i in range(n):
                for j in range(i + 1, n):
                    if _pair(st.order[i], st.order[j]) not in st.bonds:
                        ops.append(("connect", i, j))
            return self._rot(ops)
        for e in E:
            ops.append(("add", e, "ch"))
        for e in E:
            ops.append(("add", e, "noch"))
        ops.append(("new", self.elem0))
        if n >= 1:
            ops.append(("add_at", self.elem0, 0))
            if self.full and n >= 2:
                ops.append(("add_at", self.elem0, n - 1))
        ops.append(("add_bad",))
        for i in range(n):
            ops.append(("del", "idx", i))
            ops.append(("del", "obj", i))
        for l in self._distinct(st, "label"):
            ops.append(("del", "lbl", l))
        for e in self._distinct(st, "elem"):
            ops.append(("del", "elt", e))
        ops += [("del", "idx", n, "bad"), ("del", "lbl", "zz", "bad"), ("del", "obj", -1, "bad"), ("del", "elt", "Xe", "bad")]
        for i in range(n):
            for j in range(i + 1, n):
                ops.append(("connect", i, j))
                if self.full:
                    ops.append(("connect_obj", j, i))
        for i in range(n):
            for j in range(i + 1, n):
                if self.full or j == i + 1:
                    ops.append(("bond", i, j))
        for i in range(n) if self.full else sorted({0, n - 1} & set(range(n))):
            ops.append(("bond_f1", i))
        ops.append(("bond_f2",))
        if n >= 3:
            ops.append(("bonds_m", 0))
        if n >= 1:
            ops.append(("bonds_f", n - 1))
        for k in range(nb):
            ops.append(("delbond", k))
        ops.append(("delbond_bad",))
        # iterable-taking operations with every KIND of iterable (a one-shot iterable can be walked once)
        if self.full:
            xk = {"m": ["list", "tuple", "set", "gen", "iter", "map"], "f": ["list", "tuple", "set", "gen", "iter", "map"], "e": ["list", "gen"]}
            ak = ["list", "gen"]
        else:
            xk = {"m": ["list", "set", "gen"], "f": ["tuple", "iter", "map"], "e": ["gen"]}
            ak = ["gen"]
        for which, need in (("m", 2), ("f", 1), ("e", 0)):
            if n >= need:
                for akind in xk[which]:
                    ops.append(("xbonds", "extend", akind, which))
        for which, need in (("m", 2), ("f", 1)):
            if n >= need:
                for akind in ak:
                    ops.append(("xbonds", "append", akind, which))
        # per bond: how many end points are foreign AT THE MOMENT it is processed (2; 2 then 1; a1 only; 0 then 2)
        for which, need in (("f2", 0), ("f2m", 1), ("fa1", 1), ("mf2", 2)):
            if n >= need:
                if self.full or which in ("f2", "mf2"):
                    ops.append(("xbonds", "extend", "list", which))
                if self.full or which in ("f2m", "fa1"):
                    ops.append(("xbonds", "append", "list", which))
                if self.full:
                    ops.append(("xbonds", "extend", "gen", which))
        # in-place writes of one value (the partners of the state must not see them)
        for i in range(n) if self.full else sorted({0, n - 1} & set(range(n))):
            ops.append(("setxyz", i))
            if st.kind == "Molecule":
                ops.append(("setq", i))
        for k in range(nb):
            ops.append(("rmsub", k, 0))
            ops.append(("rmsub", k, 1))
        ops.append(("addH",))
        if self.full:
            for i in range(n):
                ops.append(("addH1", i))
        ops.append(("query",))
        return self._rot(ops)

    def _enabled_views(self, st, n, nb):
        if st.view is None:
            # the first step creates the view that is then HELD: heavy atoms, an explicit unordered
            # index list, a single atom
            return [("hold", w) for w in ("heavy", "idx", "one")] if n >= 1 else []
        ops = [("add", self.elem0, "ch"), ("new", self.elem0)]
        for i in range(n):
            ops.append(("del", "idx", i))
            ops.append(("del", "obj", i))
        for l in self._distinct(st, "label"):
            ops.append(("del", "lbl", l))
        for e in self._distinct(st, "elem"):
            ops.append(("del", "elt", e))
        if n >= 2:
            ops.append(("connect", 0, n - 1))
            ops.append(("bond", 0, n - 1))
        if n >= 1:
            ops.append(("bond_f1", n - 1))
            ops.append(("setxyz", 0))
            ops.append(("setxyz", n - 1))
        if nb:
            ops.append(("delbond", 0))
        for k in range(nb):
            ops.append(("rmsub", k, 0))
            ops.append(("rmsub", k, 1))
        ops.append(("addH",))
        # reads are checked after EVERY step; writes through the view only while all its atoms live
        # (HEAD: a view one of whose atoms was deleted raises on access - nothing is defined for it)
        if all(id(a) in st.ident for a in st.vorder):
            ops += [("v_translate",), ("v_setcoords",), ("v_transform",)]
        return ops

    def check_view(self, st, before_ids):
        """the held view after a step: row k of view.coords is the parent's coordinate of view.atoms[k]"""
        v = st.view
        alive = [id(a) in st.ident for a in st.vorder]
        gone = set(before_ids) - set(st.ident)
        came = set(st.ident) - set(before_ids)
        cat = "after-parent-atom-deleted" if gone else ("after-parent-atom-added" if came else "after-edit")
        try:
            vat = list(v.atoms)
        except Exception as e:
            return f"=held-Substructure:{cat}:atoms-raised", f"view.atoms raised {exc_name(e)}"
        if len(vat) != len(st.vorder) or any(a is not b for a, b in zip(vat, st.vorder)):
            return f"=held-Substructure:{cat}:view-atom-list-changed", "the atom list of the held view changed"
        try:
            c = v.coords
        except Exception as e:
            if all(alive):
                return f"=held-Substructure:{cat}:view-coords-raised", f"every atom of the view is still in the parent, but view.coords raised {exc_name(e)}: {e}"
            return None, None  # HEAD's rule for a view that lost an atom: it cannot be read
        if not isinstance(c, np.ndarray) or c.shape != (len(vat), 3):
            return f"=held-Substructure:{cat}:view-coords-shape", f"view of {len(vat)} atoms reports coords of shape {getattr(c, 'shape', None)}"
        rows = c.tolist()
        for k, a in enumerate(vat):
            if not alive[k]:
                continue
            r = st.atoms[st.ident[id(a)]]
            row = tuple(rows[k])
            if r.coord is not UNSPEC and not all(_feq(row[i], r.coord[i]) for i in range(3)):
                whose = [x for x, r2 in st.atoms.items() if r2.coord is not UNSPEC and all(_feq(row[i], r2.coord[i]) for i in range(3))]
                return (
                    f"=held-Substructure:{cat}:view-row-is-not-its-atom's-row",
                    f"held view ({st.vkind}), row {k}: reports {row}, its atom #{st.ident[id(a)]} is at {r.coord} in the parent (that is the row of atom(s) {whose})",
                )
        return None, None

    def _rot(self, ops):
        if not ops:
            return ops
        r = self.seed % len(ops)
        return ops[r:] + ops[:r]

    def _distinct(self, st, field):
        out = []
        for aid in st.order:
            v = getattr(st.atoms[aid], field)
            if v is not None and v != "?" and v not in out:
                out.append(v)
        return out

    def _first(self, st, field, value):
        for aid in st.order:
            if getattr(st.atoms[aid], field) == value:
                return aid
        return None

    def step(self, st, op):
        kind = op[0]
        if kind == "start":
            ok = self._start(st, op)
            st.hist.append(list(op))
            return ok
        if not self.quiet:
            self.ctx.count(evaluations=1, traces=1)
        if kind == "query":
            self._query(st, op)
            st.hist.append(list(op))
            return False  # a query does not change the state: nothing new to expand
        m = st.mol
        has_q = st.kind == "Molecule"
        real = list(m.atoms)
        obj = lambda pos: real[pos]
        aid_at = lambda pos: st.order[pos]
        validity = "valid"  # "valid": must not raise | "invalid": must change nothing | "either"
        predict = None  # exact model step, or "generic"
        call = None
        post = None  # routine-specific contract checked after the generic bookkeeping

        before_ids = set(st.ident)  # python identities of the member atoms (model ids are recycled)
        if kind == "caller":
            # an edit of the CALLER's list, not of the molecule: the model does not move
            lst = st.caller
            call = lambda: caller_op(lst, op[1], st.keep)

            def predict():
                pass

        elif kind == "hold":
            which = op[1]
            n = len(real)
            if which == "heavy":
                box = []
                call = lambda: box.append(m.heavy)
                exp = [a for pos, a in enumerate(real) if st.atoms[aid_at(pos)].elem != "H"]
            else:
                sel = ([n - 1, 0] if n >= 2 else [0]) if which == "idx" else [n // 2]
                box = []
                call = lambda: box.append(m.substructure(sel))
                exp = [real[i] for i in sel]

            def predict():
                st.view = box[0]
                st.vkind = which
                st.vorder = list(exp)  # the atom OBJECTS the view was made of, in its order

        elif kind in ("v_translate", "v_setcoords", "v_transform"):
            v = st.view
            aids = [st.ident[id(a)] for a in st.vorder]
            cur = [st.atoms[x].coord for x in aids]
            if kind == "v_translate":
                t = (0.5, -1.0, 2.0)
                newc = [tuple(c[i] + t[i] for i in range(3)) for c in cur]
                call = lambda: v.translate(list(t))
            elif kind == "v_transform":
                R = [[0.0, 1.0, 0.0], [-1.0, 0.0, 0.0], [0.0, 0.0, 1.0]]  # proper quarter turn about z: exact arithmetic
                newc = [(-c[1], c[0], c[2]) for c in cur]
                call = lambda: v.transform(R)
            else:
                newc = []
                for x in aids:
                    b0 = coord_of(x, self.pose)
                    newc.append((b0[0], b0[1] + 64.0, b0[2]))
                arr = np.array(newc, dtype=np.float64).reshape(len(newc), 3)
                call = lambda: setattr(v, "coords", arr)

            def predict():
                for x, c in zip(aids, newc):
                    st.atoms[x].coord = c  # exactly the rows of the viewed atoms, nothing else

        elif kind == "add":
            _, e, mode = op
            aid = self._fresh(st)
            a = Atom(e, label=label_of(aid))
            xyz = coord_of(aid, self.pose)
            arg = list(xyz)
            if mode == "ch" and has_q:
                ch = charge_of(aid)
                call = lambda: m.add_atom(a, arg, ch)
            else:
                ch = NEUTRAL
                call = lambda: m.add_atom(a, arg)

            def predict():
                st.atoms[aid] = Rec(a, e, label_of(aid), xyz, ch)
                st.ident[id(a)] = aid

            def post():
                if tuple(arg) != xyz:
                    return "argument-overwritten", f"add_atom changed the coordinate list it was handed: {arg} (was {list(xyz)})"
                return None, None

        elif kind == "add_at":
            # "put an atom where atom i is": the argument is the row view get_atom_coord returns, so the
            # new row aliases the molecule's own array unless add_atom copies it
            _, e, i = op
            aid = self._fresh(st)
            a = Atom(e, label=label_of(aid))
            xyz = st.atoms[aid_at(i)].coord
            ch = charge_of(aid) if has_q else UNSPEC
            call = (lambda: m.add_atom(a, m.get_atom_coord(i), ch)) if has_q else (lambda: m.add_atom(a, m.get_atom_coord(i)))

            def predict():
                st.atoms[aid] = Rec(a, e, label_of(aid), xyz, ch)
                st.ident[id(a)] = aid

        elif kind == "new":
            _, e = op
            aid = self._fresh(st)
            xyz = coord_of(aid, self.pose)
            box = []
            call = lambda: box.append(m.new_atom(e, coord=list(xyz), label=label_of(aid)))

            def predict():
                a = box[0]
                if not isinstance(a, Atom):
                    raise _Sym("new-atom-not-returned", f"new_atom returned {a!r}")
                st.atoms[aid] = Rec(a, e, label_of(aid), xyz, NEUTRAL)
                st.ident[id(a)] = aid

        elif kind == "add_bad":
            a = Atom("C", label="bad")
            st.keep.append(a)
            validity = "invalid"
            call = (lambda: m.add_atom(a, [1.0, 2.0], 0.5)) if has_q else (lambda: m.add_atom(a, [1.0, 2.0]))

        elif kind == "del":
            mode, arg = op[1], op[2]
            bad = len(op) > 3
            target = None
            if bad:
                validity = "invalid"
                if mode == "obj":
                    arg_real = Atom("C", label="foreign")
                    st.keep.append(arg_real)
                elif mode == "elt":
                    arg_real = Element[arg]
                else:
                    arg_real = arg
            else:
                if mode == "idx":
                    arg_real, target = arg, aid_at(arg)
                elif mode == "obj":
                    arg_real, target = obj(arg), aid_at(arg)
                elif mode == "lbl":
                    arg_real, target = arg, self._first(st, "label", arg)
                else:
                    arg_real, target = Element[arg], self._first(st, "elem", arg)
            call = lambda: m.del_atom(arg_real)

            def predict():
                if target is not None:
                    r = st.atoms.pop(target)
                    st.keep.append(r.obj)  # keeps the identity reserved
                    del st.ident[id(r.obj)]
                    st.bonds = [p for p in st.bonds if target not in p]  # exactly its bonds

        elif kind in ("connect", "connect_obj"):
            _, i, j = op
            if kind == "connect":
                call = lambda: m.connect(i, j)
            else:
                call = lambda: m.connect(obj(i), obj(j))
            pr = _pair(aid_at(i), aid_at(j))

            def predict():
                st.bonds.append(pr)

        elif kind == "bond":
            _, i, j = op
            b = Bond(obj(i), obj(j))
            st.keep.append(b)
            call = lambda: m.append_bond(b)
            pr = _pair(aid_at(i), aid_at(j))

            def predict():
                st.bonds.append(pr)

        elif kind in ("bond_f1", "bond_f2", "bonds_f"):
            # a bond that brings an atom the molecule has never seen: adopting it (then it needs a
            # row and a charge like every atom) and refusing it are both compatible with the text
            validity = "either"
            f1, f2 = Atom("F", label="f1"), Atom("Cl", label="f2")
            st.keep += [f1, f2]
            if kind == "bond_f1":
                b = Bond(obj(op[1]), f1)
                new = [(f1, "F")]
                newpairs = lambda ids: [_pair(aid_at(op[1]), ids[0])]
                call = lambda: m.append_bond(b)
                st.keep.append(b)
            elif kind == "bond_f2":
                b = Bond(f1, f2)
                new = [(f1, "F"), (f2, "Cl")]
                newpairs = lambda ids: [_pair(ids[0], ids[1])]
                call = lambda: m.append_bond(b)
                st.keep.append(b)
            else:
                b1, b2 = Bond(obj(op[1]), f1), Bond(f1, f2)
                new = [(f1, "F"), (f2, "Cl")]
                newpairs = lambda ids: [_pair(aid_at(op[1]), ids[0]), _pair(ids[0], ids[1])]
                call = lambda: m.append_bonds(b1, b2)
                st.keep += [b1, b2]

            def predict():
                ids = []
                for a, e in new:
                    aid = self._fresh(st)
                    st.atoms[aid] = Rec(a, e, a.label, NAN3, NEUTRAL)
                    st.ident[id(a)] = aid
                    ids.append(aid)
                st.bonds += newpairs(ids)

        elif kind == "bonds_m":
            n = len(real)
            i = op[1]
            j, k = (i + 1) % n, (i + 2) % n
            b1, b2 = Bond(obj(i), obj(j)), Bond(obj(i), obj(k))
            st.keep += [b1, b2]
            call = lambda: m.append_bonds(b1, b2)
            prs = [_pair(aid_at(i), aid_at(j)), _pair(aid_at(i), aid_at(k))]

            def predict():
                st.bonds.extend(prs)

        elif kind == "delbond":
            bonds = list(m.bonds)
            b = bonds[op[1]]
            pr = _pair(st.ident[id(b.a1)], st.ident[id(b.a2)])
            call = lambda: m.del_bond(b)

            def predict():
                st.bonds.remove(pr)

        elif kind == "xbonds":
            _, meth, akind, which = op
            n = len(real)
            f1, f2 = Atom("F", label="f1"), Atom("Cl", label="f2")
            st.keep += [f1, f2]
            new = []
            one = akind == "set"  # a set has no order (Bond hashes by address): one element keeps the run deterministic
            if which == "m":
                idx = [(0, 1)] + ([(0, 2)] if n >= 3 and not one else [])
                bl = [Bond(obj(i), obj(j)) for i, j in idx]
                newpairs = lambda ids: [_pair(aid_at(i), aid_at(j)) for i, j in idx]
            elif which == "f":
                validity = "either"
                if one:
                    bl = [Bond(obj(n - 1), f1)]
                    new = [(f1, "F")]
                    newpairs = lambda ids: [_pair(aid_at(n - 1), ids[0])]
                else:
                    bl = [Bond(obj(n - 1), f1), Bond(f1, f2)]
                    new = [(f1, "F"), (f2, "Cl")]
                    newpairs = lambda ids: [_pair(aid_at(n - 1), ids[0]), _pair(ids[0], ids[1])]
            elif which in ("f2", "f2m", "fa1", "mf2"):
                validity = "either"
                if which == "f2":
                    bl = [Bond(f1, f2)]
                    new = [(f1, "F"), (f2, "Cl")]
                    newpairs = lambda ids: [_pair(ids[0], ids[1])]
                elif which == "f2m":
                    bl = [Bond(f1, f2), Bond(obj(0), f1)]
                    new = [(f1, "F"), (f2, "Cl")]
                    newpairs = lambda ids: [_pair(ids[0], ids[1]), _pair(aid_at(0), ids[0])]
                elif which == "fa1":
                    bl = [Bond(f1, obj(n - 1))]
                    new = [(f1, "F")]
                    newpairs = lambda ids: [_pair(ids[0], aid_at(n - 1))]
                else:
                    bl = [Bond(obj(0), obj(n - 1)), Bond(f1, f2)]
                    new = [(f1, "F"), (f2, "Cl")]
                    newpairs = lambda ids: [_pair(aid_at(0), aid_at(n - 1)), _pair(ids[0], ids[1])]
            else:
                bl = []
                newpairs = lambda ids: []
            st.keep += bl
            arg = {"list": lambda: list(bl), "tuple": lambda: tuple(bl), "set": lambda: set(bl), "gen": lambda: (b for b in bl), "iter": lambda: iter(bl), "map": lambda: map(lambda b: b, bl)}[akind]()
            call = (lambda: m.extend_bonds(arg)) if meth == "extend" else (lambda: m.append_bonds(*arg))

            def predict():
                ids = []
                for a, e in new:
                    aid = self._fresh(st)
                    st.atoms[aid] = Rec(a, e, a.label, NAN3, NEUTRAL)
                    st.ident[id(a)] = aid
                    ids.append(aid)
                st.bonds += newpairs(ids)

        elif kind == "setq":
            aid = aid_at(op[1])
            v = charge_of(aid) + 8.0
            call = lambda: m.atomic_charges.__setitem__(op[1], v)

            def predict():
                st.atoms[aid].charge = v

        elif kind == "setxyz":
            aid = aid_at(op[1])
            b0 = coord_of(aid, self.pose)
            v = (b0[0], b0[1], b0[2] + 32.0)
            call = lambda: m.coords.__setitem__(op[1], list(v))

            def predict():
                st.atoms[aid].coord = v

        elif kind == "delbond_bad":
            validity = "invalid"
            b = Bond(Atom("F"), Atom("Cl"))
            st.keep.append(b)
            call = lambda: m.del_bond(b)

        elif kind == "rmsub":
            # composite library routine; which atoms form "the substituent" is graph theory (C15),
            # whether it raises for this geometry is not C05's subject: the alignment after it is
            validity = "either"
            predict = "generic"
            b = list(m.bonds)[op[1]]
            a1, a2 = (b.a1, b.a2) if op[2] == 0 else (b.a2, b.a1)
            call = lambda: m.remove_substituent(a1, a2)
            # the routine's contract: the attachment point it creates REPLACES a2 at a2's position
            # (that is what makes the fragment usable by join).  The position is a value the library
            # reads itself before it deletes atoms and hands to add_atom afterwards: it must survive
            # the deletions.  Expected value = the model's coordinate of a2 before the call.
            a2_aid = st.ident.get(id(a2))
            a2_xyz = st.atoms[a2_aid].coord if a2_aid in st.atoms else UNSPEC
            aids_before = set(st.atoms)

            def post():
                new = [aid for aid in st.atoms if aid not in aids_before]
                if a2_xyz is UNSPEC or a2_aid in st.atoms or len(new) != 1:
                    return None, None  # some other semantics (a2 kept / nothing created): nothing is demanded here
                real_now = list(m.atoms)
                pos = next((i for i, a in enumerate(real_now) if a is st.atoms[new[0]].obj), None)
                c = m.coords
                if pos is None or not isinstance(c, np.ndarray) or c.shape != (len(real_now), 3):
                    return None, None  # verify() reports the shape problem
                row = tuple(c[pos].tolist())
                if not all(_feq(row[i], a2_xyz[i]) for i in range(3)):
                    whose = [k for k, r in st.atoms.items() if r.coord is not UNSPEC and all(_feq(row[i], r.coord[i]) for i in range(3))]
                    return (
                        "attachment-point-not-at-the-removed-atom's-position",
                        f"remove_substituent created the attachment point at {row}; the removed atom #{a2_aid} was at {a2_xyz}" + (f" (that is the position of atom(s) {whose})" if whose else ""),
                    )
                st.atoms[new[0]].coord = a2_xyz
                return None, None

        elif kind in ("addH", "addH1"):
            validity = "either"  # numeric preconditions of the placement are C16's subject
            predict = "generic"
            if kind == "addH":
                call = lambda: m.add_implicit_hydrogens()
            else:
                a = obj(op[1])
                call = lambda: m.add_implicit_hydrogens(a)
        else:  # pragma: no cover
            raise HarnessError(f"unknown op {op}")

        # ---- the real call ----
        raised = None
        try:
            call()
        except Exception as e:  # exceptions are observations
            raised = e
        hist_op = list(op)  # viol() appends the op itself
        sym = what = None
        prefix = ""
        if raised is None:
            try:
                if validity == "invalid":
                    pass  # silently ignoring an impossible request is compatible with the text
                elif predict == "generic":
                    sym, what = self.derive(st)
                    if sym is None and post is not None:
                        sym, what = post()
                else:
                    predict()
                    if post is not None:
                        sym, what = post()
            except _Sym as s:
                sym, what = s.args
        else:
            if validity == "valid":
                self.viol(st, op, "valid-op-raised", f"{self.opclass(op)} on a {len(real)}-atom object raised {exc_name(raised)}: {raised}")
                st.hist.append(hist_op)
                return False
            prefix = "after-raise:"
            sym, what = self.derive(st)
            if what:
                what = f"after the call raised {exc_name(raised)}: {what}"
        if sym is None and self.quiet:
            self.refresh(st)
        elif sym is None:
            sym, what = self.verify(st)
            if sym and raised is not None:
                what = f"after the call raised {exc_name(raised)}: {what}"
            if sym is None and st.partners:
                sym, what = self.check_partners(st)
            if sym is None and st.view is not None and self.views:
                sym, what = self.check_view(st, before_ids)
        if sym:
            self.viol(st, op, sym if sym.startswith("=") else prefix + sym, what)
            st.hist.append(hist_op)
            return False
        st.hist.append(hist_op)
        st.nmut += 1
        return True

    # ---- non-mutating addressing queries ------------------------------------------------------
    def _query(self, st, op):
        """get_atom / get_atom_index / index_atom through the four addressing modes the property
        names (object, index, label, element) must all point at the same position."""
        m = st.mol
        real = list(m.atoms)
        cases = []
        for pos, aid in enumerate(st.order):
            cases.append(("by-object", real[pos], pos))
            cases.append(("by-index", pos, pos))
        for l in self._distinct(st, "label"):
            cases.append(("by-label", l, st.order.index(self._first(st, "label", l))))
        for e in self._distinct(st, "elem"):
            cases.append(("by-element", Element[e], st.order.index(self._first(st, "elem", e))))
        for mode, arg, exp in cases:
            for fn in ("get_atom_index", "get_atom"):
                try:
                    got = getattr(m, fn)(arg)
                    if fn == "get_atom":
                        got = next((p for p, a in enumerate(real) if a is got), None)
                except Exception as e:
                    got = "EXC:" + exc_name(e)
                if got != exp:
                    if self.quiet:
                        continue
                    sig = f"{fn}({mode}):wrong-answer"
                    hist = st.hist + [list(op)]
                    self.ctx.violation(
                        sig,
                        f"{st.kind}: {fn}({arg!r}) -> {got}, the first matching atom is at position {exp}",
                        {"sys": "M", "history": hist, "seed": self.seed, "extra": {"mode": mode}},
                        repro=repro_of(hist, self.pose),
                    )

    # ---- canonical form / observation -----------------------------------------------------
    def observe(self, st):
        if st.cache is not None and st.cache[0] == len(st.hist):
            return st.cache[1]
        o = self._observe(st)
        st.cache = (len(st.hist), o)
        return o

    def _observe(self, st):
        m = st.mol
        atoms = list(m.atoms)
        pos = {id(a): i for i, a in enumerate(atoms)}
        out = [st.kind, m.n_atoms, m.n_bonds]
        out.append(tuple((a.element.symbol, a.label, int(a.atype), a.idx, a.parent is m) for a in atoms))
        out.append(repr(m.coords.tolist()))
        if st.kind == "Molecule":
            out.append(repr(m.atomic_charges.tolist()))
        out.append(tuple((pos.get(id(b.a1)), pos.get(id(b.a2)), b.parent is m) for b in m.bonds))
        return tuple(out)

    def canon(self, st):
        m = st.mol
        ids = tuple(st.order)
        bonds = tuple((st.ident.get(id(b.a1)), st.ident.get(id(b.a2))) for b in m.bonds)
        extra = (str(m.coords.dtype), str(m.atomic_charges.dtype) if st.kind == "Molecule" else None)
        if st.caller is not None:
            extra = extra + (tuple(st.ident.get(id(a), "x") for a in st.caller),)
        held = None
        if self.views and st.view is not None:
            held = (st.vkind, tuple(st.ident.get(id(a), "gone") for a in st.vorder))
        return (ids, bonds, extra, st.start if st.partners else None, held, self.observe(st))


class _Sym(Exception):
    pass


def _psnap(o):
    """by-value snapshot of a partner object (public accessors only)"""
    if isinstance(o, np.ndarray):
        return {"array": (str(o.dtype), o.shape, o.tobytes())}
    d = {"atoms": tuple(id(a) for a in o.atoms), "name": o.name, "charge": o.charge, "mult": o.mult}
    c = getattr(o, "coords", None)
    if c is not None:
        d["coords"] = (str(c.dtype), c.shape, c.tobytes())
    if hasattr(o, "bonds"):
        d["bonds"] = tuple((id(b.a1), id(b.a2)) for b in o.bonds)
    q = getattr(o, "atomic_charges", None)
    if q is not None:
        d["atomic_charges"] = (str(q.dtype), q.shape, q.tobytes())
    return d


def _pshow(v):
    try:
        if isinstance(v, tuple) and len(v) == 3 and isinstance(v[2], bytes):
            return np.frombuffer(v[2], dtype=v[0]).reshape(v[1]).tolist()
    except Exception:
        pass
    return repr(v)[:120]


# =================================================================================================
# system V : Substructure / Conformer views (only the edits that are defined on a view)
# =================================================================================================
class VSys(MSys):
    """A view does not own coordinates: every edit that changes the number of atoms raises by
    construction (Substructure has no coordinate block, a Conformer cannot resize its ensemble),
    so "the operations that are defined" are connect / append_bond / del_bond.  Checked after every
    step: the view lists one coordinate row (and charge) per atom and they are the given ones,
    every bond of the view joins two of its atoms, atoms report the owning object as parent and
    their index in it, bonds report the owner or the view they were created through; the owner
    itself stays aligned."""

    def viol(self, st, op, symptom, what, extra=None):
        if self.quiet:
            raise HarnessError(f"violation while replaying a validated prefix: {symptom}: {what}; history={st.hist}")
        sig = f"{st.vkind}.{self.opclass(op)}:{symptom}"
        self.ctx.violation(sig, f"{st.vkind} view: {what}", {"sys": "V", "history": st.hist + [list(op)], "seed": self.seed, "extra": extra})

    def _start(self, st, op):
        _, vkind, name = op
        st.kind = "Molecule"
        st.vkind = vkind
        st.start = name
        elems, bonds = STARTS["star4"]
        if vkind == "Substructure":
            owner = self._built(Molecule, elems, bonds, True)
            sel = [0, 1, 3]
            view = owner.substructure(sel)
            st.confs = None
        else:
            mols = []
            for k in range(2):
                mk = self._built(Molecule, elems, bonds, True)
                mk.coords = [list(coord_of(i, self.pose, k)) for i in range(len(elems))]
                mk.atomic_charges = [charge_of(i, k) for i in range(len(elems))]
                mols.append(mk)
            owner = ConformerEnsemble(mols)
            st.keep += mols
            view = owner[1]
            sel = list(range(len(elems)))
            st.confs = 2
        st.mol = owner
        st.view = view
        real = list(owner.atoms)
        for k, a in enumerate(real):
            st.atoms[k] = Rec(a, elems[k], label_of(k), coord_of(k, self.pose), charge_of(k))
            st.ident[id(a)] = k
        st.order = list(range(len(real)))
        st.vorder = sel
        st.bonds = [_pair(a, b) for a, b in bonds]  # owner's bonds
        st.vbonds = [p for p in st.bonds if p[0] in sel and p[1] in sel]  # bonds the view lists
        nconf = st.confs or 1
        st.vxyz = {(k, a): coord_of(a, self.pose, k) for k in range(nconf) for a in range(len(real))}
        st.vq = {(k, a): charge_of(a, k) for k in range(nconf) for a in range(len(real))}
        sym, what = self.verify(st)
        if sym:
            self.viol(st, op, sym, what)
            return False
        return True

    def verify(self, st):
        o, v = st.mol, st.view
        oat = list(o.atoms)
        n = len(oat)
        if [st.ident.get(id(a)) for a in oat] != st.order:
            return "wrong-atom-set", "the owner's atom list changed through a bond edit on the view"
        vat = list(v.atoms)
        vids = [st.ident.get(id(a)) for a in vat]
        if vids != st.vorder:
            return "wrong-atom-set", f"the view lists atoms {vids}, expected {st.vorder}"
        nv = len(vat)
        # owner alignment
        if st.confs is None:
            if o.coords.shape != (n, 3):
                return "coords-rows!=atoms", f"owner has {n} atoms, coords {o.coords.shape}"
            if o.atomic_charges.shape != (n,):
                return "charges!=atoms", f"owner has {n} atoms, charges {o.atomic_charges.shape}"
            conf = 0
        else:
            if o.coords.shape != (st.confs, n, 3):
                return "coords-rows!=atoms", f"ensemble has {n} atoms, coords {o.coords.shape}"
            if o.atomic_charges.shape != (st.confs, n):
                return "charges!=atoms", f"ensemble has {n} atoms, charges {o.atomic_charges.shape}"
            conf = 1
        # the owner's arrays, every conformer, every atom: a write (through the view or on the owner) changes
        # exactly the rows it names
        oc = o.coords.reshape((st.confs or 1), n, 3).tolist()
        oq = o.atomic_charges.reshape((st.confs or 1), n).tolist()
        for k in range(st.confs or 1):
            for pos, aid in enumerate(st.order):
                if tuple(oc[k][pos]) != st.vxyz[(k, aid)]:
                    return "owner-coord-misaligned", f"owner, conformer {k}, atom #{aid}: row {oc[k][pos]} != expected {st.vxyz[(k, aid)]}"
                if oq[k][pos] != st.vq[(k, aid)]:
                    return "owner-charge-misaligned", f"owner, conformer {k}, atom #{aid}: charge {oq[k][pos]} != expected {st.vq[(k, aid)]}"
        c = v.coords
        if not isinstance(c, np.ndarray) or c.shape != (nv, 3) or c.dtype.kind != "f":
            return "coords-rows!=atoms", f"view has {nv} atoms, coords {getattr(c, 'shape', None)}"
        for pos, aid in enumerate(vids):
            exp = st.vxyz[(conf, aid)]
            if tuple(float(x) for x in c[pos]) != exp:
                return "coord-misaligned", f"view atom #{aid}: row {c[pos].tolist()} != expected {exp}"
        if st.confs is not None:
            q = v.atomic_charges
            if not isinstance(q, np.ndarray) or q.shape != (nv,) or q.dtype.kind not in "fiu":
                return "charges!=atoms", f"view has {nv} atoms, charges {getattr(q, 'shape', None)} {getattr(q, 'dtype', None)}"
            for pos, aid in enumerate(vids):
                if float(q[pos]) != st.vq[(conf, aid)]:
                    return "charge-misaligned", f"view atom #{aid}: charge {float(q[pos])} != expected {st.vq[(conf, aid)]}"
        # bonds
        for who, obj, exp, members in (("view", v, st.vbonds, set(vids)), ("owner", o, st.bonds, set(st.order))):
            pairs = []
            for b in obj.bonds:
                i1, i2 = st.ident.get(id(b.a1)), st.ident.get(id(b.a2))
                if i1 not in members or i2 not in members or i1 is None or i2 is None:
                    return "bond-to-nonmember", f"a bond of the {who} ends at an atom that is not one of its atoms ({i1},{i2})"
                pairs.append(_pair(i1, i2))
                try:
                    p = b.parent
                except Exception as e:
                    return "bond-parent-raises", f"bond.parent raised {exc_name(e)}"
                if p is not o and p is not v:
                    return "bond-parent-wrong", f"a bond of the {who} reports parent {p!r}"
            if Counter(pairs) != Counter(exp):
                return "wrong-bond-set", f"bonds of the {who} {sorted(pairs)} != expected {sorted(exp)}"
        for pos, a in enumerate(oat):
            if a.parent is not o:
                return "atom-parent-wrong", f"atom {pos} reports parent {a.parent!r}"
            if a.idx != pos:
                return "atom-idx-wrong", f"atom {pos} reports idx {a.idx}"
        return None, None

    def enabled(self, st):
        nv = len(st.vorder)
        ops = []
        for i in range(nv):
            for j in range(i + 1, nv):
                ops.append(("connect", i, j))
                ops.append(("bond", i, j))
        for k in range(len(st.vbonds)):
            ops.append(("delbond", k))
        # the view is HELD while coordinates / charges are written on the owner and through the view
        n = len(st.order)
        ops.append(("o_translate",))
        for k in range(st.confs or 1):
            ops.append(("o_setxyz", k, 0))
            ops.append(("o_setxyz", k, n - 1))
        ops.append(("v_translate",))
        ops.append(("v_setcoords",))
        if st.confs is not None:
            ops.append(("v_setxyz", 0))
            ops.append(("v_setxyz", nv - 1))
            ops.append(("v_setq", 0))
            ops.append(("v_setq", nv - 1))
        ops.append(("query",))
        return self._rot(ops)

    @staticmethod
    def opclass(op):
        k = op[0]
        names = {"o_translate": "owner.translate", "o_setxyz": "owner.coords[i]=", "v_translate": "translate", "v_setcoords": "coords=", "v_setxyz": "coords[i]=", "v_setq": "atomic_charges[i]="}
        return names.get(k) or MSys.opclass(op)

    def step(self, st, op):
        kind = op[0]
        if kind == "start":
            ok = self._start(st, op)
            st.hist.append(list(op))
            return ok
        if not self.quiet:
            self.ctx.count(evaluations=1, traces=1)
        v = st.view
        o = st.mol
        vconf = 1 if st.confs is not None else 0
        T = (0.5, -1.0, 2.0)
        own_bonds = st.confs is not None  # a conformer edits the ensemble's bond list, a substructure its own
        if kind == "query":
            real = list(v.atoms)
            for pos, aid in enumerate(st.vorder):
                for arg in (real[pos], pos):
                    try:
                        got = v.get_atom_index(arg)
                    except Exception as e:
                        got = "EXC:" + exc_name(e)
                    if got != pos and not self.quiet:
                        self.viol(st, op, "get_atom_index-wrong", f"get_atom_index({arg!r}) -> {got}, expected {pos}")
            st.hist.append(list(op))
            return False
        real = list(v.atoms)
        raised = None
        try:
            if kind == "connect":
                pr = _pair(st.vorder[op[1]], st.vorder[op[2]])
                v.connect(op[1], op[2])
                st.vbonds.append(pr)
                if own_bonds:
                    st.bonds.append(pr)
            elif kind == "bond":
                pr = _pair(st.vorder[op[1]], st.vorder[op[2]])
                b = Bond(real[op[1]], real[op[2]])
                st.keep.append(b)
                v.append_bond(b)
                st.vbonds.append(pr)
                if own_bonds:
                    st.bonds.append(pr)
            elif kind == "delbond":
                b = list(v.bonds)[op[1]]
                pr = _pair(st.ident[id(b.a1)], st.ident[id(b.a2)])
                v.del_bond(b)
                st.vbonds.remove(pr)
                if own_bonds:
                    st.bonds.remove(pr)
            elif kind == "o_translate":
                o.translate(list(T))
                for key, c in st.vxyz.items():
                    st.vxyz[key] = tuple(c[i] + T[i] for i in range(3))
            elif kind == "o_setxyz":
                _, k, i = op
                aid = st.order[i]
                b0 = coord_of(aid, self.pose, k)
                val = (b0[0], b0[1] + 64.0, b0[2])
                if st.confs is None:
                    o.coords[i] = list(val)
                else:
                    o.coords[k, i] = list(val)
                st.vxyz[(k, aid)] = val
            elif kind == "v_translate":
                v.translate(list(T))
                for aid in st.vorder:
                    c = st.vxyz[(vconf, aid)]
                    st.vxyz[(vconf, aid)] = tuple(c[i] + T[i] for i in range(3))
            elif kind == "v_setcoords":
                vals = []
                for aid in st.vorder:
                    b0 = coord_of(aid, self.pose, vconf)
                    vals.append((b0[0] + 128.0, b0[1], b0[2]))
                v.coords = np.array(vals, dtype=np.float64)
                for aid, val in zip(st.vorder, vals):
                    st.vxyz[(vconf, aid)] = val
            elif kind == "v_setxyz":
                aid = st.vorder[op[1]]
                b0 = coord_of(aid, self.pose, vconf)
                val = (b0[0], b0[1], b0[2] + 256.0)
                v.coords[op[1]] = list(val)  # a Conformer's coords are a live view of the ensemble's block
                st.vxyz[(vconf, aid)] = val
            elif kind == "v_setq":
                aid = st.vorder[op[1]]
                val = charge_of(aid, vconf) + 16.0
                v.atomic_charges[op[1]] = val
                st.vq[(vconf, aid)] = val
            else:  # pragma: no cover
                raise HarnessError(f"unknown view op {op}")
        except HarnessError:
            raise
        except Exception as e:
            raised = e
        if raised is not None:
            self.viol(st, op, "valid-op-raised", f"{self.opclass(op)} raised {exc_name(raised)}: {raised}")
            st.hist.append(list(op))
            return False
        sym, what = self.verify(st)
        if sym:
            self.viol(st, op, sym, what)
            st.hist.append(list(op))
            return False
        st.hist.append(list(op))
        st.nmut += 1
        return True

    def is_nontrivial(self, st):
        return st.nmut >= 1

    def observe(self, st):
        o, v = st.mol, st.view
        pos = {id(a): i for i, a in enumerate(o.atoms)}
        out = [st.vkind, o.n_atoms, o.n_bonds, v.n_atoms, v.n_bonds, repr(v.coords.tolist()), repr(o.coords.tolist()), repr(o.atomic_charges.tolist())]
        out.append(tuple((pos.get(id(b.a1)), pos.get(id(b.a2)), b.parent is o, b.parent is v) for b in o.bonds))
        out.append(tuple((pos.get(id(b.a1)), pos.get(id(b.a2)), b.parent is o, b.parent is v) for b in v.bonds))
        return tuple(out)

    def canon(self, st):
        return self.observe(st)


# =================================================================================================
# self-contained reproduction script for a history of system M (imports only molli)
# =================================================================================================
def repro_of(hist, pose):
    try:
        return _repro_of(hist, pose)
    except Exception as e:  # never let the convenience break the check
        return f"# (no script: {exc_name(e)})"


def _repro_of(hist, pose):
    L = [
        "import pickle, numpy as np",
        "from molli.chem import Atom, Bond, Molecule, Structure, Element",
    ]
    _, kind, name = hist[0]
    has_q = kind == "Molecule"

    def built(var, elems, bonds):
        at = ", ".join(f"Atom({e!r}, label={label_of(k)!r})" for k, e in enumerate(elems))
        kw = ""
        if elems:
            kw = f", coords={[list(coord_of(k, pose)) for k in range(len(elems))]!r}"
            if has_q:
                kw += f", atomic_charges={[charge_of(k) for k in range(len(elems))]!r}"
        L.append(f"{var} = {kind}([{at}]{kw})" if elems else f"{var} = {kind}()")
        for a, b in bonds:
            L.append(f"{var}.connect({a}, {b})")

    if name.startswith("ctor|"):
        _, form, ov = name.split("|")
        keys = [] if ov == "-" else ov.split("+")
        L[1] = "from molli.chem import *"
        n = len(CT_ELEMS)
        xyz = [list(coord_of(k, pose)) for k in range(n)]
        q = [charge_of(k) for k in range(n)]
        at = "[" + ", ".join(f"Atom({e!r}, label={label_of(k)!r})" for k, e in enumerate(CT_ELEMS)) + "]"
        if form == "none":
            other = f"n_atoms={n}"
        elif form == "atoms":
            L.append(f"callers_list = {at}")
            other = "callers_list"
        elif form == "atoms-tuple":
            other = "tuple(" + at + ")"
        elif form == "elements":
            other = repr(CT_ELEMS)
        else:
            base = "Molecule" if form == "Conformer" else form
            kws = "name='src', charge=-1, mult=2"
            if base in ("CartesianGeometry", "Structure", "Molecule"):
                kws += f", coords={xyz!r}"
            if base == "Molecule":
                kws += f", atomic_charges={q!r}"
            L.append(f"src = {base}({at}, {kws})")
            if base in ("Connectivity", "Structure", "Molecule"):
                L.append("src.connect(0, 1); src.connect(1, 2)")
            if form == "Conformer":
                L.append("src2 = Molecule(src); src2.translate([0, 0, 16.0]); src2.atomic_charges = src.atomic_charges + 4.0")
                L.append("ens = ConformerEnsemble([src, src2]); src = ens[1]")
            other = "src"
        ovs = {"coords": f"coords=np.array({[[c[0] + 256.0, c[1], c[2]] for c in xyz]!r})", "atomic_charges": f"atomic_charges=np.array({[x + 64.0 for x in q]!r})", "charge": "charge=2", "mult": "mult=3", "name": "name='over'"}
        L.append(f"m = {kind}({', '.join([other] + [ovs[k] for k in keys])})")
        L.append("print('constructed:', m.name, m.charge, m.mult, m.coords.tolist(), getattr(m, 'atomic_charges', None))")
    elif name in STARTS:
        built("m", *STARTS[name])
    elif name == "clone":
        built("src", *STARTS["star4"])
        L.append(f"m = {kind}(src)   # partner kept alive: src")
    elif name == "clone2":
        built("src", *STARTS["chain3"])
        L.append(f"mid = {kind}(src); m = {kind}(mid)   # partners kept alive: src, mid")
    elif name == "cloned":
        built("m", *STARTS["chain3"])
        L.append(f"clone = {kind}(m)   # partner kept alive: clone (the SOURCE m is edited)")
    elif name == "twins":
        built("m", *STARTS["chain3"])
        L.append("# (in the harness m and a twin are both built from ONE float64 coords array C and ONE charges array Q, all kept alive)")
        L.append("C = m.coords.copy(); Q = getattr(m, 'atomic_charges', np.zeros(3)).copy()")
        L.append(f"m = {kind}([Atom(a.element, label=a.label) for a in m.atoms], coords=C" + (", atomic_charges=Q" if has_q else "") + ")")
        L.append(f"twin = {kind}([Atom(a.element, label=a.label) for a in m.atoms], coords=C" + (", atomic_charges=Q" if has_q else "") + ")")
    elif name == "unpickled":
        built("src", *STARTS["chain3"])
        L.append("m = pickle.loads(pickle.dumps(src))   # partner kept alive: src")
    else:
        L.append("# start state: the 5-atom generated mol2 file (N C C H H, bonds 1-2 2-3 3-4 3-5), loaded with load_mol2")
        built("m", MOL2_ELEMS, MOL2_BONDS)
    used = 0

    # ids are only needed for the values handed to add_atom: recompute them like the harness does
    ids = list(range(len(STARTS[BASE_OF[name]][0]))) if name in BASE_OF else (list(range(len(CT_ELEMS))) if name.startswith("ctor|") else list(range(len(STARTS.get(name, (MOL2_ELEMS,))[0]))))
    live = set(ids)

    def fresh():
        k = 0
        while k in live:
            k += 1
        return k

    exact = True
    for op in hist[1:]:
        k = op[0]
        if k == "add":
            aid = fresh()
            live.add(aid)
            ch = f", {charge_of(aid)!r}" if (op[2] == "ch" and has_q) else ""
            L.append(f"m.add_atom(Atom({op[1]!r}, label={label_of(aid)!r}), {list(coord_of(aid, pose))!r}{ch})")
        elif k == "add_at":
            aid = fresh()
            live.add(aid)
            ch = f", {charge_of(aid)!r}" if has_q else ""
            L.append(f"m.add_atom(Atom({op[1]!r}, label={label_of(aid)!r}), m.get_atom_coord({op[2]}){ch})")
        elif k == "new":
            aid = fresh()
            live.add(aid)
            L.append(f"m.new_atom({op[1]!r}, coord={list(coord_of(aid, pose))!r}, label={label_of(aid)!r})")
        elif k == "add_bad":
            L.append("try: m.add_atom(Atom('C'), [1.0, 2.0]" + (", 0.5" if has_q else "") + ")\nexcept Exception as e: print('raised', type(e).__name__)")
        elif k == "del":
            exact = False  # ids after a deletion are not tracked in the script (values stay valid)
            arg = {"idx": repr(op[2]), "obj": (f"m.atoms[{op[2]}]" if op[2] >= 0 else "Atom('C')"), "lbl": repr(op[2]), "elt": f"Element.{op[2]}"}[op[1]]
            if len(op) > 3:
                L.append(f"try: m.del_atom({arg})\nexcept Exception as e: print('raised', type(e).__name__)")
            else:
                L.append(f"m.del_atom({arg})")
        elif k == "connect":
            L.append(f"m.connect({op[1]}, {op[2]})")
        elif k == "connect_obj":
            L.append(f"m.connect(m.atoms[{op[1]}], m.atoms[{op[2]}])")
        elif k == "bond":
            L.append(f"m.append_bond(Bond(m.atoms[{op[1]}], m.atoms[{op[2]}]))")
        elif k == "bond_f1":
            L.append(f"m.append_bond(Bond(m.atoms[{op[1]}], Atom('F')))")
        elif k == "bond_f2":
            L.append("m.append_bond(Bond(Atom('F'), Atom('Cl')))")
        elif k == "bonds_f":
            L.append(f"f = Atom('F'); m.append_bonds(Bond(m.atoms[{op[1]}], f), Bond(f, Atom('Cl')))")
        elif k == "bonds_m":
            L.append(f"n = m.n_atoms; m.append_bonds(Bond(m.atoms[{op[1]}], m.atoms[({op[1]}+1)%n]), Bond(m.atoms[{op[1]}], m.atoms[({op[1]}+2)%n]))")
        elif k == "delbond":
            L.append(f"m.del_bond(m.bonds[{op[1]}])")
        elif k == "xbonds":
            mk = {"m": "[Bond(m.atoms[0], m.atoms[1])] + ([Bond(m.atoms[0], m.atoms[2])] if m.n_atoms > 2 else [])", "f": "[Bond(m.atoms[-1], f), Bond(f, Atom('Cl'))]", "e": "[]", "f2": "[Bond(f, Atom('Cl'))]", "f2m": "[Bond(f, Atom('Cl')), Bond(m.atoms[0], f)]", "fa1": "[Bond(f, m.atoms[-1])]", "mf2": "[Bond(m.atoms[0], m.atoms[-1]), Bond(f, Atom('Cl'))]"}[op[3]]
            wrap = {"list": "bl", "tuple": "tuple(bl)", "set": "set(bl[:1])", "gen": "(b for b in bl)", "iter": "iter(bl)", "map": "map(lambda b: b, bl)"}[op[2]]
            L.append(f"f = Atom('F'); bl = {mk}")
            L.append(f"m.extend_bonds({wrap})" if op[1] == "extend" else f"m.append_bonds(*{wrap})")
            L.append("print('bond parents', [b.parent is m for b in m.bonds])")
        elif k == "caller":
            code = {"append": "callers_list.append(Atom('N'))", "pop": "callers_list.pop()", "reverse": "callers_list.reverse()", "sort": "callers_list.sort(key=lambda a: a.element.z)", "clear": "callers_list.clear()", "setitem": "callers_list[0] = Atom('S')"}[op[1]]
            L.append(code + "   # the caller's own list, not the molecule")
        elif k == "hold":
            sel = {"heavy": "m.heavy", "idx": "m.substructure([m.n_atoms - 1, 0] if m.n_atoms > 1 else [0])", "one": "m.substructure([m.n_atoms // 2])"}[op[1]]
            L.append(f"view = {sel}   # HELD from here on")
            L.append("held = list(view.atoms)")
        elif k == "v_translate":
            L.append("view.translate([0.5, -1.0, 2.0])")
        elif k == "v_transform":
            L.append("view.transform([[0.0, 1.0, 0.0], [-1.0, 0.0, 0.0], [0.0, 0.0, 1.0]])")
        elif k == "v_setcoords":
            L.append("view.coords = np.arange(3.0 * len(held)).reshape(-1, 3) + 100")
        elif k == "setq":
            L.append(f"m.atomic_charges[{op[1]}] = 8.5   # in-place write")
        elif k == "setxyz":
            L.append(f"m.coords[{op[1]}] = [1.0, 2.0, 35.0]   # in-place write")
        elif k == "delbond_bad":
            L.append("try: m.del_bond(Bond(Atom('F'), Atom('Cl')))\nexcept Exception as e: print('raised', type(e).__name__)")
        elif k == "rmsub":
            a, b = ("a1", "a2") if op[2] == 0 else ("a2", "a1")
            L.append(f"b = m.bonds[{op[1]}]; a2 = b.{b}; was = m.get_atom_coord(a2).copy(); m.remove_substituent(b.{a}, a2)")
            L.append("print('removed atom was at', was.tolist(), '; attachment point created at', m.coords[-1].tolist())")
        elif k == "addH":
            L.append("m.add_implicit_hydrogens()")
        elif k == "addH1":
            L.append(f"m.add_implicit_hydrogens(m.atoms[{op[1]}])")
        elif k == "query":
            L.append("print([(a.label, a.element, m.get_atom_index(a.element), m.get_atom_index(a.label)) for a in m.atoms])")
    L.append("if 'view' in dir():\n    try: print('view.coords', view.coords.tolist(), ' parent rows of its atoms', [m.coords[m.atoms.index(a)].tolist() if a in m.atoms else None for a in held])\n    except Exception as e: print('view.coords raised', type(e).__name__, e)")
    for v in ("src", "mid", "clone", "twin"):
        L.append(f"if '{v}' in dir(): print('partner {v}:', {v}.coords.tolist(), getattr({v}, 'atomic_charges', None))")
    L.append("print('atoms', [(a.element.symbol, a.label, a.idx) for a in m.atoms])")
    L.append("print('coords', m.coords.shape, m.coords.tolist())")
    if has_q:
        L.append("print('charges', m.atomic_charges.dtype, m.atomic_charges.tolist())")
    L.append("print('bonds', [(m.atoms.index(b.a1) if b.a1 in m.atoms else None, m.atoms.index(b.a2) if b.a2 in m.atoms else None) for b in m.bonds])")
    return "\n".join(L)


# =================================================================================================
def _inits_M(ctx):
    """validate every start state once (reported under start[...] signatures); only the sound ones
    are explored further."""
    sm = MSys(ctx, label="init")
    good = []
    for kind in KINDS:
        for name in START_NAMES:
            op = ("start", kind, name)
            st = MState()
            ok = sm.step(st, op)
            ctx.count(evaluations=1, traces=1, transitions=1)
            if ok:
                good.append([list(op)])
                ctx.outcome(seqx._h(sm.observe(st)))
            sm.dispose(st)
    return good


def _inits_ctor(ctx):
    sm = MSys(ctx, label="initc")
    good = []
    for kind in KINDS:
        for name in ctor_starts(kind):
            op = ("start", kind, name)
            st = MState()
            ok = sm.step(st, op)
            ctx.count(evaluations=1, traces=1, transitions=1)
            if ok:
                good.append([list(op)])
                ctx.outcome(seqx._h(sm.observe(st)))
            sm.dispose(st)
    return good


def _caller_matrix(ctx):
    """every class whose constructor takes a list of atoms x {list, tuple} x every history of up to two
    caller-side operations on that list: the object's atom sequence (by identity), its size-dependent
    arrays and the parents of its atoms must not move"""
    import itertools

    classes = {"Promolecule": Promolecule, "Connectivity": Connectivity, "CartesianGeometry": CartesianGeometry, "Structure": Structure, "Molecule": Molecule, "ConformerEnsemble": ConformerEnsemble}
    hists = [(a,) for a in CALLER_OPS] + list(itertools.product(CALLER_OPS, repeat=2))
    for cname, cls in classes.items():
        for seq in ("list", "tuple"):
            for h in hists if seq == "list" else [()]:
                atoms = [Atom(e, label=label_of(k)) for k, e in enumerate(CT_ELEMS)]
                arg = atoms if seq == "list" else tuple(atoms)
                case = {"sys": "L", "class": cname, "seq": seq, "history": [list(h)], "seed": ctx.seed}
                ctx.count(evaluations=1, traces=1, transitions=1 + len(h), states=1)
                try:
                    o = cls(arg)
                except Exception as e:
                    ctx.violation(f"{cname}({seq}-of-atoms):constructor-raised", f"{cname}({seq} of atoms) raised {exc_name(e)}: {e}", case)
                    continue
                first = list(o.atoms)
                if len(first) != len(atoms) or any(a is not b for a, b in zip(first, atoms)):
                    ctx.violation(f"{cname}({seq}-of-atoms):wrong-atom-set", f"{cname}({seq} of atoms) does not list the atoms it was given", case)
                    continue
                keep = []
                for w in h:
                    caller_op(arg, w, keep)
                now = list(o.atoms)
                sym = None
                if len(now) != len(first) or any(a is not b for a, b in zip(now, first)):
                    sym, what = "atom-list-follows-the-callers-list", f"after the caller did {'+'.join(h)} to ITS list, {cname}.atoms lists {[a.label for a in now]} (was {[a.label for a in first]})"
                elif any(a.parent is not o for a in now):
                    sym, what = "atom-parent-wrong", "an atom no longer reports the object as its parent"
                elif hasattr(o, "coords") and o.coords.shape[-2] != len(now):
                    sym, what = "coords-rows!=atoms", f"{len(now)} atoms, coords {o.coords.shape}"
                if sym:
                    ctx.violation(f"{cname}(list-of-atoms);caller-list-edit:{sym}", what, case)
                ctx.outcome(seqx._h((cname, seq, h, tuple(a.label for a in arg), len(now))))
                ctx.nontrivial(("L", cname, seq, h))


def _inits_V(ctx):
    sv = VSys(ctx, label="initv")
    good = []
    for vkind in ("Substructure", "Conformer"):
        op = ("start", vkind, "star4")
        st = MState()
        ok = sv.step(st, op)
        ctx.count(evaluations=1, traces=1, transitions=1)
        if ok:
            good.append([list(op)])
        sv.dispose(st)
    return good


def run(ctx):
    thorough = ctx.thorough
    ctx.rule = (
        "explicit-state BFS over histories of real edit operations (replayed on fresh objects), deduplicated by "
        "canonical state (atom identities in list order, bonds as identity pairs, coordinate/charge arrays by value "
        "and dtype); a state is non-trivial when it was reached by >= 1 successful edit and has >= 2 atoms (only then "
        "can a row be attached to the wrong atom)"
    )
    ctx.assumptions += [
        "property text only: an impossible request (index out of range, unknown label, absent element, foreign atom/bond "
        "to delete, malformed coordinate) may raise or be ignored - in both cases every alignment clause must still hold",
        "after an operation that raised, and after the composite routines remove_substituent / add_implicit_hydrogens, the "
        "atoms that came or went are read off the real object by identity (which atoms form a substituent is C15's subject, "
        "where hydrogens go is C16's); everything else is demanded: survivors keep their rows and charges, a bond disappears "
        "only together with one of its atoms, parents and indices are right; those two routines may also raise",
        "append_bond(s) with an atom the molecule has never seen may adopt it (then it needs a coordinate row and a numeric "
        "charge like every atom) or refuse it",
        "remove_substituent(a1, a2): by the routine's contract the attachment point it creates replaces a2 AT a2's POSITION - that "
        "is the coordinate the new atom 'was given' (a value the library reads before it deletes atoms and writes afterwards); "
        "demanded exactly when a2 is gone and exactly one atom was created, otherwise nothing is demanded of the routine's semantics. "
        "add_implicit_hydrogens computes every position before its first write and never deletes, join / concatenate build a new "
        "object: no other routine in scope has the read-delete-write shape; where hydrogens go is C16",
        "constructor start states: cls(other, **overrides) for other in {n_atoms only, atom list, element list, Promolecule, "
        "Connectivity, CartesianGeometry, Structure, Molecule, Conformer} x overrides {none, each of coords= atomic_charges= charge= "
        "mult= name= alone, all}; the model starts from the given value where one is given, else the source's (coordinates from a "
        "geometric source, charges from a Molecule / Conformer, bonds from a Connectivity), else the documented default (NaN row, 0.0, "
        "'unknown', 0, 1); the source and the caller's arrays stay alive as partners",
        "the list of atoms handed to a constructor stays the CALLER's object: append / pop / reverse / sort / clear / item assignment "
        "on it afterwards are not edits of the molecule - after each the molecule must be exactly what it was (atom sequence by "
        "identity, rows, charges, bonds, parents).  Searched for Molecule / Structure inside the edit alphabet and, as a matrix of "
        "histories of up to two caller-side operations, for Promolecule / Connectivity / CartesianGeometry / ConformerEnsemble too; a "
        "tuple of atoms must be accepted like a list",
        "start states clone / clone2 / cloned / twins / unpickled keep their partner objects (source, clones, a twin built from the "
        "same coords and charges arrays, the caller's arrays) alive; after every step every partner must be exactly what it was "
        "(the property holds for every molecule alive, and the caller's arrays were never handed over)",
        "operations that take an iterable of bonds are run with every kind of iterable (list, tuple, set, generator, iterator, "
        "map, empty); the result must not depend on the kind",
        "held views: a Substructure (heavy atoms / explicit unordered index list / single atom) is created and HELD while the parent "
        "is edited; after every step row k of view.coords must be the parent's coordinate of view.atoms[k], and translate / transform "
        "/ coords= through the view change exactly the rows of its atoms.  HEAD's rule for a view one of whose atoms was deleted from "
        "the parent is that it raises on access: accepted (if it does answer, the rows of its surviving atoms must be right); writes "
        "through such a view are not generated.  A Substructure exposes no partial charges",
        "stale user-held row views across add/del are not part of the claim; a row view handed INTO add_atom (add an atom where atom i "
        "is) must be copied: the new atom keeps that value",
        "an atom that enters without an explicit charge (add_atom(a, xyz), new_atom, an end point adopted by append_bond(s) / "
        "extend_bonds, implicit hydrogens, the attachment point of remove_substituent) is NEUTRAL: its partial charge is exactly 0.0 "
        "(documented in Molecule.add_atom); an end point adopted without a position has a NaN coordinate row (documented in "
        "CartesianGeometry.append_atom); every start state carries pairwise distinct non-zero charges and distinct rows, so a "
        "repeat / roll / fill-from-neighbour is visible",
        "values nobody specified (position of an implicit hydrogen) need only be numeric "
        "(NaN counts as numeric) and are pinned to what the object reports; clone / unpickled start states are taken as they "
        "report themselves (fidelity of copies is C06)",
        "the order of mol.atoms is not prescribed; del_atom(i) must delete the atom mol.atoms[i] named before the call",
        "duplicate bonds are legal; bonds are compared as a multiset of atom-identity pairs",
        "views: Substructure owns no coordinate block and a Conformer cannot resize its ensemble, so atom-count-changing edits "
        "are undefined on views by construction; the view search covers connect / append_bond / del_bond",
        "negative indices and self-bonds are not generated (the text does not say whether they are valid)",
    ]
    elems = ("C", "H", "O") if thorough else ("C", "H")
    r = ctx.seed % len(elems)
    elems = elems[r:] + elems[:r]
    nproc = 16 if thorough else 8

    inits = _inits_M(ctx)
    ctx.note("start_states_sound", len(inits))
    mk_full = lambda c: MSys(c, add_elems=elems, full=thorough, label="M")
    mk_red = lambda c: MSys(c, add_elems=elems[:2] if not thorough else sorted(elems)[:2], full=False, label="Mr")
    mk_core = lambda c: MSys(c, add_elems=elems, core=True, label="Mc")
    tiny = [h for h in inits if h[0][2] in ("empty", "chain3")]
    small = [h for h in inits if (h[0][1] == "Molecule" and h[0][2] in ("empty", "chain3", "unpickled")) or (h[0][1], h[0][2]) == ("Structure", "chain3")]
    name = lambda hs: [f"{h[0][1]}/{h[0][2]}" for h in hs]
    mark = [ctx.transitions, 0]

    def phase(label):
        levels = {k: ctx.notes.pop(k) for k in sorted(ctx.notes) if k.startswith("level_")}
        ctx.note(f"phase_{label}", {"transitions": ctx.transitions - mark[0], "new_states_per_level": [levels[k] for k in sorted(levels, key=lambda x: int(x.split("_")[1]))]})
        mark[0] = ctx.transitions

    # (1) every start state, the tier's full alphabet
    d_all = 3 if thorough else 2
    if thorough:
        # the partner start states added for the shared-array family differ from chain3 only until the
        # first add/del (a copy then owns fresh arrays): depth 2 for them, depth 3 for the others
        extra = [h for h in inits if h[0][2] in ("clone2", "cloned", "twins")]
        seqx.pbfs(ctx, mk_full, extra, 2, nproc=nproc, chunk=16)
        ctx.bound["full_alphabet_partner_starts_depth"] = 2
        phase("1a_partner_starts")
        seqx.pbfs(ctx, mk_full, [h for h in inits if h not in extra], d_all, nproc=nproc, chunk=16)
    else:
        seqx.pbfs(ctx, mk_full, inits, d_all, nproc=nproc, chunk=16)
    ctx.bound["full_alphabet_all_starts_depth"] = d_all
    phase("1_all_starts")
    ctx.bound["add_elements"] = list(elems)
    # (2) one level deeper from small start states (branching grows with the atom count); in the
    #     thorough tier with the reduced (quick) alphabet
    d_small = 4 if thorough else 3
    deeper = tiny if thorough else small
    seqx.pbfs(ctx, mk_red if thorough else mk_full, deeper, d_small, nproc=nproc, chunk=16)
    ctx.bound["deeper_depth"] = d_small
    phase("2_deeper")
    ctx.bound["deeper_starts"] = name(deeper)
    ctx.bound["deeper_alphabet"] = "reduced (2 elements, adjacent-pair append_bond, index addressing for connect)" if thorough else "full"
    # (3) the add / delete / connect core, deep
    if thorough:
        # Molecule (the class the property is about) one level deeper than Structure
        for dcore, cstarts in ((8, [h for h in tiny if h[0][1] == "Molecule"]), (7, [h for h in tiny if h[0][1] == "Structure"])):
            if cstarts:
                seqx.pbfs(ctx, mk_core, cstarts, dcore, nproc=nproc, chunk=32)
                ctx.bound[f"core_alphabet_depth[{cstarts[0][0][1]}]"] = dcore
                ctx.bound[f"core_starts[{cstarts[0][0][1]}]"] = name(cstarts)
                phase(f"3_core_{cstarts[0][0][1]}")
    else:
        dcore = 5
        seqx.pbfs(ctx, mk_core, small, dcore, nproc=nproc, chunk=32)
        ctx.bound["core_alphabet_depth"] = dcore
        ctx.bound["core_starts"] = name(small)
        phase("3_core")

    # (3a) start states built by every constructor form x override keywords
    cin = _inits_ctor(ctx)
    ctx.note("constructor_start_states_sound", len(cin))
    ctx.bound["constructor_forms"] = CTOR_FORMS
    ctx.bound["constructor_overrides"] = "none / each of coords, atomic_charges, charge, mult, name alone / all"
    seqx.pbfs(ctx, mk_full if thorough else mk_red, cin, 1, nproc=nproc, chunk=16)
    seqx.pbfs(ctx, mk_core, cin, 3 if thorough else 2, nproc=nproc, chunk=32)
    ctx.bound["constructor_starts_depth"] = "full alphabet 1, core alphabet " + ("3" if thorough else "2")
    phase("3a_constructor_starts")

    _caller_matrix(ctx)
    phase("3a2_callers_list_matrix")

    # (3b) a Substructure is created first and HELD while the parent is edited
    hv = [h for h in inits if (h[0][1], h[0][2]) in (("Molecule", "chain3"), ("Molecule", "star4"), ("Structure", "mol2"))]
    d_hv = 4 if thorough else 3
    seqx.pbfs(ctx, lambda c: MSys(c, add_elems=elems, views=True, label="Mv"), hv, d_hv, nproc=nproc, chunk=16)
    if not thorough:
        seqx.pbfs(ctx, lambda c: MSys(c, add_elems=elems, views=True, label="Mv"), hv[:1], 4, nproc=nproc, chunk=16)
    ctx.bound["held_view_depth"] = d_hv if thorough else "3 from 3 start states, 4 from Molecule/chain3"
    ctx.bound["held_view_starts"] = name(hv)
    phase("3b_held_views")

    vin = _inits_V(ctx)
    dv = 4 if thorough else 3
    seqx.pbfs(ctx, lambda c: VSys(c, label="V"), vin, dv, nproc=nproc, chunk=32)
    ctx.bound["V_depth"] = dv
    phase("4_views")
    ctx.note("distinct_canonical_states", len(ctx.state_keys))


def replay(ctx, case):
    """re-executes the history step by step WITH the oracle on every step (the tree may have changed
    since the artefact was written); stops at the first violating step"""
    if case.get("sys") == "L":
        ctx.seed = case.get("seed", ctx.seed)
        _caller_matrix(ctx)  # small and deterministic: the whole matrix is re-run, the signature decides
        return
    hist = [tuple(o) for o in case["history"]]
    ctx.seed = case.get("seed", ctx.seed)
    sm = (VSys if case.get("sys") == "V" else MSys)(ctx, add_elems=("C", "H", "O"), label="replay")
    sm.views = any(op[0] == "hold" for op in hist)
    st = MState()
    for op in hist:
        if op[0] == "query":
            sm.step(st, op)
            continue
        if not sm.step(st, op):
            break
    sm.dispose(st)
