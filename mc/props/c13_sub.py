"""
C13 helper: what is observed of a parsed molecule, and the second-process entry point.

`python -m mc.props.c13_sub <list.json>` parses every file named in the list in a fresh interpreter
(other hash seed, fresh numpy RNG state) and prints {path: {"keys": [...], "mols": {label: digest}}}.
"""
from __future__ import annotations

import hashlib
import json
import sys
import warnings


def observe(m):
    """Plain-data observation of a molli Molecule (no molli objects leave this function)."""
    import numpy as np

    atoms = []
    index = {}
    for i, a in enumerate(m.atoms):
        index[id(a)] = i
        atoms.append(
            (
                int(a.element),
                a.isotope,
                a.formal_charge,
                a.formal_spin,
                int(a.atype),
                a.label,
                tuple(sorted((str(k), repr(v)) for k, v in a.attrib.items())),
            )
        )
    bonds = []
    for b in m.bonds:
        bonds.append((index[id(b.a1)], index[id(b.a2)], int(b.btype), float(b.order)))
    coords = np.array(m.coords, dtype=np.float64)
    return {
        "atoms": atoms,
        "bonds": bonds,
        "coords": coords,
        "charge": m.charge,
        "mult": m.mult,
        "name": m.name,
        "n_ap": sum(1 for a in atoms if a[4] == 101),
    }


def digest(o) -> str:
    h = hashlib.sha1()
    h.update(repr(o["atoms"]).encode())
    h.update(repr(o["bonds"]).encode())
    h.update(o["coords"].tobytes())
    h.update(repr((o["charge"], o["mult"], o["name"])).encode())
    return h.hexdigest()


def parse_all(path, order=None):
    """{label: observation or ('EXC', type name, cause type name)} for every label of the file."""
    from molli.ftypes.cdxml import CDXMLFile

    with warnings.catch_warnings():
        warnings.simplefilter("ignore")
        f = CDXMLFile(path)
    keys = list(f.keys())
    out = {}
    for k in order if order is not None else keys:
        out[k] = lookup(f, k)
    return f, keys, out


def lookup(f, k):
    try:
        with warnings.catch_warnings():
            warnings.simplefilter("ignore")
            m = f[k]
        return observe(m)
    except Exception as e:  # the check classifies it
        c = e.__cause__
        return ("EXC", type(e).__name__, type(c).__name__ if c is not None else None, str(c if c is not None else e)[:160])


def lookup_obj(f, k):
    """like lookup, but the molecule object is handed back too"""
    try:
        with warnings.catch_warnings():
            warnings.simplefilter("ignore")
            m = f[k]
        return observe(m), m
    except Exception as e:
        c = e.__cause__
        return ("EXC", type(e).__name__, type(c).__name__ if c is not None else None, str(c if c is not None else e)[:160]), None


def main(argv):
    paths = json.loads(open(argv[1]).read())
    res = {}
    for p in paths:
        try:
            f, keys, out = parse_all(p)
        except Exception as e:
            res[p] = {"error": type(e).__name__}
            continue
        res[p] = {"keys": keys, "mols": {k: (digest(v) if isinstance(v, dict) else list(v[:3])) for k, v in out.items()}}
    sys.stdout.write(json.dumps(res))
    sys.stdout.flush()


if __name__ == "__main__":
    main(sys.argv)
