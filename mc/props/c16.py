"""
C16 - add_implicit_hydrogens only completes valences.

Bounded-exhaustive input enumeration (engine enumx).  Every local environment of a finite grammar

  centre {B,C,N,O,Si,P,S,Al} x formal charge {-1,0,+1} x spin {0,1,2} x hint {absent, 0..3}
  x 0..3 explicit neighbours from {C,H,F, Fe typed CoordinationCenter} x bond type
  {single,double,triple,aromatic,fractional} x a table of non-degenerate poses (general position and
  bonds / symmetry axes along +-z) ; two disconnected bystanders (Cl, Fe) in every molecule

is built as a real molli Molecule, `add_implicit_hydrogens()` is called on it (and a second time on
hint-free molecules), and the result is compared with an independent reference: the count formula
of the property text with the harness's own tables of valence electrons, bond orders and covalent
radii (Pyykko single-bond radii), plus the frame conditions (old atoms/bonds/coordinates/charges
untouched; every new atom is a hydrogen bonded once, to the right atom, at r_cov(X)+r_cov(H), at
finite coordinates, on the far side of the neighbours' centroid).  Whole molecules: the bundled
hadd_test.mol2 and every fragment of every bundled CDXML file.

Two further dimensions, because the routine reads the molecule through enum-typed fields and through
neighbour queries: (a) representation - every environment also with bond types / atom types as plain
ints, elements as atomic numbers, formal charge/spin as numpy integers, and (first pose, whole
molecules) after a real MoleculeLibrary / ConformerLibrary write+read and after pickle; (b) history -
{no query, neighbour queries, an earlier call} x {connect_like, del_bond(+connect), fields assigned in
place, hint added/removed} x call, expectations read off the object right before the call.

quick: the three bond types of a 3-neighbour environment form a pairwise covering array (25 of 125
rows), hinted cases use a reduced charge/spin set; thorough: full products.
"""
from __future__ import annotations

import itertools
import math
import os
import re
import warnings
from pathlib import Path

import numpy as np

from mc.core import Ctx, HarnessError

from molli.chem import Atom, AtomType, Bond, BondType, Molecule

LEVEL = "model_checking"
HINT = "__implicit_hydrogens"

# ---- the harness's own chemistry tables (not molli's) -------------------------------------------
GROUP = {}
for _g, _zs in {13: (5, 13, 31, 49, 81), 14: (6, 14, 32, 50, 82), 15: (7, 15, 33, 51, 83), 16: (8, 16, 34, 52, 84)}.items():
    for _z in _zs:
        GROUP[_z] = _g
VALENCE_E = {13: 3, 14: 4, 15: 5, 16: 6}
# P. Pyykko, M. Atsumi, Chem. Eur. J. 2009, 15, 186 (single-bond covalent radii, Angstrom)
RCOV = {
    1: 0.32,
    5: 0.85, 6: 0.75, 7: 0.71, 8: 0.63,
    13: 1.26, 14: 1.16, 15: 1.11, 16: 1.03,
    31: 1.24, 32: 1.21, 33: 1.21, 34: 1.16,
    49: 1.42, 50: 1.40, 51: 1.40, 52: 1.36,
    81: 1.44, 82: 1.44, 83: 1.51, 84: 1.45,
}  # fmt: skip
Z_OF = {"H": 1, "B": 5, "C": 6, "N": 7, "O": 8, "F": 9, "Al": 13, "Si": 14, "P": 15, "S": 16, "Cl": 17, "Fe": 26, "Pd": 46}
# bond type number -> order; None = the harness has no independent order for it
# Bond.order as documented in the library: 0..6 -> the number (Unknown = 0), aromatic 1.5, fractional
# its f_order, H-acceptor / dummy / ligand / not-connected 0, every other type (amide, H-donor, ...) 1
ORDER = {0: 0.0, 1: 1.0, 2: 2.0, 3: 3.0, 4: 4.0, 5: 5.0, 6: 6.0, 20: 1.5, 21: 1.0, 98: 0.0, 10: 0.0, 11: 0.0, 101: 0.0}
CC = 10  # AtomType.CoordinationCenter
TOL_R = 1e-3  # Angstrom; see the assumption on distances


def bond_order(btype, f_order):
    if btype == 99:
        return float(f_order)
    return ORDER.get(btype, 1.0)


def due(z, charge, spin, bonded, hint):
    """the number of hydrogens the property text assigns to an atom of groups 13-16"""
    if hint is not None:
        return int(hint)
    e = VALENCE_E[GROUP[z]] - charge - abs(spin)
    return max(0, 4 - abs(4 - e) - math.ceil(bonded))


# ---- poses --------------------------------------------------------------------------------------
def rodrigues(axis, angle):
    a = np.asarray(axis, float)
    a = a / np.linalg.norm(a)
    K = np.array([[0, -a[2], a[1]], [a[2], 0, -a[0]], [-a[1], a[0], 0]])
    return np.eye(3) + math.sin(angle) * K + (1 - math.cos(angle)) * (K @ K)


def rot_to(v, target):
    """a proper rotation R with R @ v/|v| = target/|target| (harness-side, deterministic)."""
    v = np.asarray(v, float) / np.linalg.norm(v)
    t = np.asarray(target, float) / np.linalg.norm(target)
    c = float(v @ t)
    if c > 1 - 1e-12:
        return np.eye(3)
    if c < -1 + 1e-12:
        o = np.array([1.0, 0, 0]) if abs(v[0]) < 0.9 else np.array([0, 1.0, 0])
        o = o - v * (o @ v)
        return rodrigues(o, math.pi)
    return rodrigues(np.cross(v, t), math.acos(c))


GENERIC = rodrigues([0.3, -0.5, 0.81], 1.1) @ rodrigues([0.9, 0.2, 0.1], 0.7)
Z = np.array([0.0, 0.0, 1.0])
TET = np.array([[0.94280904, 0.0, -1 / 3], [-0.47140452, 0.81649658, -1 / 3], [-0.47140452, -0.81649658, -1 / 3]])


def poses(k):
    """[(name, k unit vectors)] : directions centre -> neighbour."""
    out = []
    if k == 0:
        return [("none", np.zeros((0, 3)))]
    if k == 1:
        for name, d in [
            ("general", GENERIC @ Z),
            ("+x", [1, 0, 0]),
            ("-y", [0, -1, 0]),
            ("+z", [0, 0, 1]),
            ("-z", [0, 0, -1]),
            ("xz-diagonal", [0.6, 0, 0.8]),
            ("xy-diagonal", [-0.8, 0.6, 0]),
            ("near-z", [0.02, -0.01, 1.0]),
        ]:
            d = np.asarray(d, float)
            out.append((name, (d / np.linalg.norm(d))[None, :]))
        return out
    if k == 2:

        def pair(theta):
            t = math.radians(theta)
            return np.array([[1.0, 0, 0], [math.cos(t), math.sin(t), 0]])

        p109, p120, p90 = pair(109.4712), pair(120.0), pair(90.0)
        out.append(("general-109", p109 @ GENERIC.T))
        out.append(("in-xy-plane-120", p120))
        out.append(("first-bond+z-109", p109 @ rot_to([1, 0, 0], Z).T))
        out.append(("first-bond-z-120", p120 @ rot_to([1, 0, 0], -Z).T))
        b = p109[0] + p109[1]
        out.append(("bisector+z-109", p109 @ rot_to(b, Z).T))
        out.append(("bisector-z-90", p90 @ rot_to(p90[0] + p90[1], -Z).T))
        out.append(("plane-normal-x-120", p120 @ rot_to(Z, [1, 0, 0]).T))
        out.append(("general-90", p90 @ (GENERIC @ GENERIC).T))
        return out
    if k == 3:
        flat = np.array([[math.cos(a) * 0.95, math.sin(a) * 0.95, -0.3122] for a in (0.0, 2.1, 4.2)])
        flat = flat / np.linalg.norm(flat, axis=1)[:, None]
        out.append(("general-tetrahedral", TET @ GENERIC.T))
        out.append(("axis-z-tetrahedral", TET))  # neighbours below, C3 axis along z
        out.append(("axis+z-tetrahedral", TET * [1, 1, -1]))  # neighbours above (mirror image; still a valid pose)
        out.append(("first-bond+z", TET @ rot_to(TET[0], Z).T))
        out.append(("first-bond-z", TET @ rot_to(TET[0], -Z).T))
        out.append(("general-flattened", flat @ (GENERIC @ GENERIC).T))
        out.append(("axis-x-tetrahedral", TET @ rot_to(Z, [1, 0, 0]).T))
        out.append(("t-shaped", np.array([[1.0, 0, 0], [-0.17364818, 0.98480775, 0], [-0.17364818, -0.49240388, 0.85286853]]) @ GENERIC.T))
        return out
    if k in (4, 5):
        def umbrella(polar_deg, twist=0.0):
            t = math.radians(polar_deg)
            return np.array([[math.sin(t) * math.cos(twist + 2 * math.pi * j / k), math.sin(t) * math.sin(twist + 2 * math.pi * j / k), math.cos(t)] for j in range(k)])

        out.append(("umbrella-axis-z", umbrella(118.0)))  # neighbours below, free side along +z
        out.append(("umbrella-axis+z", umbrella(62.0, 0.3)))  # neighbours above
        out.append(("umbrella-general", umbrella(115.0, 0.7) @ GENERIC.T))
        out.append(("umbrella-axis-x", umbrella(120.0, 0.2) @ rot_to(Z, [1, 0, 0]).T))
        return out
    raise HarnessError("k")


POSES = {k: dict(poses(k)) for k in (0, 1, 2, 3, 4, 5)}
NBR_LEN = {"C": 1.50, "H": 1.05, "F": 1.35, "M": 2.05, "Q": 2.05}  # M: Fe typed CoordinationCenter, Q: Pd typed Regular
CENTRES = ["C", "N", "O", "B", "Si", "P", "S", "Al"]
CHARGES = [0, 1, -1]
SPINS = [0, 1, 2]
HINTS = [None, 0, 1, 2, 3]
BTYPES = ["single", "double", "triple", "aromatic", "fractional"]
BT = {
    "single": (BondType.Single, 1.0),
    "double": (BondType.Double, 1.0),
    "triple": (BondType.Triple, 1.0),
    "aromatic": (BondType.Aromatic, 1.0),
    "fractional": (BondType.FractionalOrder, 0.5),
    "fractional-1.25": (BondType.FractionalOrder, 1.25),
    "ligand": (BondType.Ligand, 1.0),
    "dummy": (BondType.Dummy, 1.0),
    "not-connected": (BondType.NotConnected, 1.0),
}
BT_ORDER = {"single": 1.0, "double": 2.0, "triple": 3.0, "aromatic": 1.5, "fractional": 0.5, "fractional-1.25": 1.25, "ligand": 0.0, "dummy": 0.0, "not-connected": 0.0}
OFFSETS = [(0.0, 0.0, 0.0), (0.3, -1.2, 0.7), (-2.5, 0.4, 1.9), (10.0, 10.0, -10.0)]


ALL_TYPE_NAMES = []
for _x in sorted({int(v) for v in BondType}):  # every member of the enumeration: an alphabet, read at import
    if _x != 99:
        BT[f"type-{_x}"] = (BondType(_x), 1.0)
        BT_ORDER[f"type-{_x}"] = bond_order(_x, 1.0)
        ALL_TYPE_NAMES.append(f"type-{_x}")
for _fo in (0.5, 1.5, 2.25):
    BT[f"fractional-{_fo}"] = (BondType.FractionalOrder, _fo)
    BT_ORDER[f"fractional-{_fo}"] = _fo
    ALL_TYPE_NAMES.append(f"fractional-{_fo}")


def rot(lst, k):
    lst = list(lst)
    k %= len(lst)
    return lst[k:] + lst[:k]


def oa25():
    """orthogonal array OA(25, 3, 5, 2): every pair of columns shows all 25 value pairs."""
    return [(i, j, (i + j) % 5) for i in range(5) for j in range(5)]


# =================================================================================================
# building one environment
# =================================================================================================
_RZ = {}
REPS = ("members", "plain", "mlib", "clib", "pickle", "structure")
REP_CLASS = {
    "plain": "bond-types-and-atom-fields-as-plain-numbers",
    "mlib": "after-MoleculeLibrary-round-trip",
    "clib": "after-ConformerLibrary-round-trip",
    "pickle": "after-pickle",
    "structure": "as-plain-Structure(molecule)",
}


def build(case, seed, rep="members"):
    """case = {centre, charge, spin, hint, nbrs:[(el, btype name)], pose:(k, name)}

    rep "members": enum members / symbols / python ints, as a user writes them;
    rep "plain"  : the same molecule with every field given the way decoders and numpy code give it:
                   bond types and atom types as plain ints, elements as atomic numbers,
                   formal charge / spin as numpy integers."""
    k = len(case["nbrs"])
    pose = POSES[k][case["pose"]]
    rz = _RZ.get(seed)  # a seed turns every pose about z only
    if rz is None:
        rz = _RZ[seed] = rodrigues(Z, math.radians(37.0 * (seed % 9)))
    off = np.array(OFFSETS[seed % len(OFFSETS)] if case.get("offset") is None else case["offset"], float)
    scale = 1.0 + 0.01 * (seed % 5)
    plain = rep == "plain"
    if plain:
        a = Atom(Z_OF[case["centre"]], atype=1, formal_charge=np.int64(case["charge"]), formal_spin=np.int32(case["spin"]))
    else:
        a = Atom(case["centre"], formal_charge=case["charge"], formal_spin=case["spin"])
    if case.get("atype") is not None:
        a.atype = int(case["atype"]) if plain else AtomType(int(case["atype"]))
    if case["hint"] is not None:
        a.attrib[HINT] = case["hint"]
    atoms = [a]
    coords = [off]
    nbr_hints = case.get("nbr_hints") or ()
    for n, ((el, _), d) in enumerate(zip(case["nbrs"], pose)):
        if el == "M":
            b = Atom(26, atype=10) if plain else Atom("Fe", atype=AtomType.CoordinationCenter)
        elif el == "Q":
            b = Atom(46, atype=1) if plain else Atom("Pd")
        else:
            b = Atom(Z_OF[el], atype=1, formal_charge=np.int64(0), formal_spin=np.int64(0)) if plain else Atom(el)
        if n < len(nbr_hints) and nbr_hints[n] is not None:
            b.attrib[HINT] = nbr_hints[n]
        atoms.append(b)
        coords.append(off + (rz @ d) * NBR_LEN[el] * scale)
    # bystanders: must receive nothing
    atoms.append(Atom(17) if plain else Atom("Cl"))
    coords.append(off + np.array([7.0, 7.5, 8.0]))
    atoms.append(Atom(26) if plain else Atom("Fe"))
    coords.append(off + np.array([-7.0, 7.5, -8.0]))
    if case.get("centre_last"):
        # the centre is listed (and completed) after its neighbours and the bystanders
        atoms = atoms[1:] + atoms[:1]
        coords = coords[1:] + coords[:1]
    for n, x in enumerate(atoms):
        x.label = f"a{n}"
    m = Molecule(atoms, copy_atoms=False)
    m.coords = np.array(coords, dtype=float)
    if case.get("centre_last"):
        atoms = atoms[-1:] + atoms[:-1]  # below: atoms[0] is the centre, atoms[1:1+k] its neighbours
    for (el, bt), b in zip(case["nbrs"], atoms[1 : 1 + k]):
        btype, fo = BT[bt]
        if plain:
            btype = int(btype)
        if int(btype) == 99:
            m.append_bond(Bond(a, b, btype=btype, f_order=fo))
        else:
            m.append_bond(Bond(a, b, btype=btype))
    return m


_RT_COUNTER = [0]


def roundtrip(scratch, mols, kind):
    """the molecules after a real write + read through a molli library file (or pickle)."""
    import pickle

    import molli as ml

    if kind == "pickle":
        return [pickle.loads(pickle.dumps(m)) for m in mols]
    if kind == "structure":
        return [ml.Structure(m) for m in mols]
    _RT_COUNTER[0] += 1
    path = Path(scratch) / f"rt-{os.getpid()}-{_RT_COUNTER[0]}.{kind}"
    with warnings.catch_warnings():
        warnings.simplefilter("ignore")
        if kind == "mlib":
            lib = ml.MoleculeLibrary(path, readonly=False, overwrite=True)
            with lib.writing(timeout=30):
                for i, m in enumerate(mols):
                    lib[str(i)] = m
            lib = ml.MoleculeLibrary(path, readonly=True)
            with lib.reading(timeout=30):
                out = [lib[str(i)] for i in range(len(mols))]
        elif kind == "clib":
            lib = ml.ConformerLibrary(path, readonly=False, overwrite=True)
            with lib.writing(timeout=30):
                for i, m in enumerate(mols):
                    ens = ml.ConformerEnsemble(m, n_conformers=1)
                    ens._coords[0] = m.coords
                    lib[str(i)] = ens
            lib = ml.ConformerLibrary(path, readonly=True)
            with lib.reading(timeout=30):
                out = [ml.Molecule(lib[str(i)][0]) for i in range(len(mols))]
        else:  # pragma: no cover
            raise HarnessError(kind)
    try:
        path.unlink()
    except OSError:
        pass
    return out


# =================================================================================================
# the reference check of one call on one molecule
# =================================================================================================
def snapshot(m):
    atoms = list(m.atoms)
    desc = []
    for a in atoms:
        att = tuple(sorted((str(k), repr(v)) for k, v in a.attrib.items() if k != HINT))
        desc.append((int(a.element), a.isotope, a.label, int(a.atype), int(a.stereo), int(a.geom), a.formal_charge, a.formal_spin, att))
    hints = [a.attrib.get(HINT) for a in atoms]
    raw_atoms = [(a.atype, a.stereo, a.geom, a.formal_charge, a.formal_spin) for a in atoms]
    bonds = list(m.bonds)
    idx = {id(a): i for i, a in enumerate(atoms)}
    bdesc = [(idx.get(id(b.a1)), idx.get(id(b.a2)), int(b.btype), int(b.stereo), float(b.f_order)) for b in bonds]
    ch = getattr(m, "atomic_charges", None)
    if ch is None:
        ch = np.zeros(0)
    return {
        "raw_atoms": raw_atoms,
        "raw_bonds": [(b.btype, b.stereo) for b in bonds],
        "atoms": atoms,
        "desc": desc,
        "hints": hints,
        "bonds": bonds,
        "bdesc": bdesc,
        "coords": np.array(m.coords, dtype=float, copy=True),
        "charges": [x for x in np.asarray(ch).tolist()],
        "charges_kind": np.asarray(ch).dtype.kind,
        "charge": getattr(m, "charge", None),
        "mult": getattr(m, "mult", None),
        "has_charges": hasattr(m, "atomic_charges"),
    }


def unit(v):
    n = np.linalg.norm(v)
    return v / n if n > 0 else v


def verify(m, snap, whole=False, notes=None, selected=None):
    """-> (violations [(signature, what)], per-atom observation for the outcome digest)

    `whole`: molecule not generated by the grammar (geometry may be degenerate: the direction clause
    is applied only where the neighbours fix a direction)."""
    out = []
    if notes is None:
        notes = {}
    n0 = len(snap["atoms"])
    atoms = list(m.atoms)
    bonds = list(m.bonds)
    # ---- frame: everything that existed is untouched ------------------------------------------------
    if len({id(a) for a in atoms}) != len(atoms):
        old_ids = {id(a) for a in snap["atoms"]}
        again = sum(1 for a in atoms[n0:] if id(a) in old_ids)
        rows = np.asarray(m.coords)
        tail = rows[n0:] if rows.ndim == 2 and rows.shape[0] >= n0 else rows
        nanrows = int(np.sum(~np.isfinite(tail).all(axis=-1))) if tail.size else 0
        out.append(("atom-list:existing-atom-listed-again", f"the atom list holds the same Atom object more than once ({again} pre-existing atoms were appended again; {nanrows} appended coordinate rows are not finite)"))
        return out, None
    if len(atoms) < n0 or any(a is not b for a, b in zip(atoms[:n0], snap["atoms"])):
        out.append(("unchanged:atom-list", "the pre-existing atoms are no longer the first atoms of the molecule (object identity/order)"))
        return out, None
    now = []
    for a in atoms[:n0]:
        att = tuple(sorted((str(k), repr(v)) for k, v in a.attrib.items() if k != HINT))
        now.append((int(a.element), a.isotope, a.label, int(a.atype), int(a.stereo), int(a.geom), a.formal_charge, a.formal_spin, att))
    if now != snap["desc"]:
        i = next(i for i, (x, y) in enumerate(zip(now, snap["desc"])) if x != y)
        out.append(("unchanged:atom-fields", f"a pre-existing atom changed: {snap['desc'][i]} -> {now[i]}"))
    nb0 = len(snap["bonds"])
    if len(bonds) < nb0 or any(a is not b for a, b in zip(bonds[:nb0], snap["bonds"])):
        out.append(("unchanged:bond-list", "the pre-existing bonds are no longer the first bonds of the molecule"))
        return out, None
    idx = {id(a): i for i, a in enumerate(atoms)}
    bnow = [(idx.get(id(b.a1)), idx.get(id(b.a2)), int(b.btype), int(b.stereo), float(b.f_order)) for b in bonds[:nb0]]
    if bnow != snap["bdesc"]:
        out.append(("unchanged:bond-fields", "a pre-existing bond changed its atoms, type or order"))
    coords = np.asarray(m.coords)
    if coords.shape != (len(atoms), 3):
        out.append(("unchanged:coords-shape", f"coordinates have shape {coords.shape} for {len(atoms)} atoms"))
        return out, None
    if coords[:n0].tobytes() != snap["coords"].tobytes():
        out.append(("unchanged:coordinates", "coordinates of pre-existing atoms changed"))
    ch = np.asarray(m.atomic_charges) if snap.get("has_charges", True) else None
    if ch is None:
        pass
    elif ch.shape[0] != len(atoms):
        out.append(("unchanged:atomic-charges-length", f"{ch.shape[0]} atomic charges for {len(atoms)} atoms"))
    else:
        if [repr(x) for x in ch[:n0].tolist()] != [repr(x) for x in snap["charges"]]:
            out.append(("unchanged:atomic-charges", "atomic charges of pre-existing atoms changed"))
        if len(atoms) > n0 and snap["charges_kind"] == "f" and ch.dtype.kind != "f":
            out.append(("unchanged:atomic-charges-dtype", f"the float array of atomic charges became dtype={ch.dtype} (new entries {ch[n0:].tolist()[:3]})"))
    if (getattr(m, "charge", None), getattr(m, "mult", None)) != (snap["charge"], snap["mult"]):
        out.append(("unchanged:molecule-charge-mult", f"molecule charge/multiplicity changed {(snap['charge'], snap['mult'])} -> {(m.charge, m.mult)}"))

    # ---- the new atoms ---------------------------------------------------------------------------------
    new = list(range(n0, len(atoms)))
    newbonds = bonds[nb0:]
    hbond = {}
    for b in newbonds:
        i, j = idx.get(id(b.a1)), idx.get(id(b.a2)),
        if i is None or j is None:
            out.append(("new-bond:foreign-atom", "a new bond names an atom that is not in the molecule"))
            continue
        ends_new = [x for x in (i, j) if x >= n0]
        if len(ends_new) != 1:
            out.append(("new-bond:not-atom-to-new-hydrogen", "a new bond does not join one pre-existing atom and one new atom"))
            continue
        h = ends_new[0]
        x = j if h == i else i
        hbond.setdefault(h, []).append((x, int(b.btype), float(b.f_order)))
    received = {}
    for h in new:
        a = atoms[h]
        if int(a.element) != 1:
            out.append(("new-atom:not-hydrogen", f"a new atom is {a.element!r}"))
            continue
        bl = hbond.get(h, [])
        if len(bl) != 1:
            out.append(("new-hydrogen:not-bonded-once", f"a new hydrogen has {len(bl)} bonds"))
            continue
        x, bt, fo = bl[0]
        if bt != 1:
            out.append(("new-hydrogen:bond-not-single", f"a new hydrogen is attached with bond type {bt}"))
        received.setdefault(x, []).append(h)

    # ---- per atom: count and placement ----------------------------------------------------------------
    nbrs = {i: [] for i in range(n0)}
    bonded = {i: 0.0 for i in range(n0)}
    unknown_order = set()
    bt_of = {}
    for i, j, bt, _, fo in snap["bdesc"]:
        o = bond_order(bt, fo)
        for x, y in ((i, j), (j, i)):
            if x is None or y is None:
                continue
            bt_of[(x, y)] = bt
            nbrs[x].append(y)
            if o is None:
                unknown_order.add(x)
            else:
                bonded[x] += o
    obs = []
    for i in range(n0):
        z, _, _, atype, _, _, fc, fs, _ = snap["desc"][i]
        got = received.get(i, [])
        if z not in GROUP:
            if got:
                kind = "halogen" if z in (9, 17, 35, 53) else ("hydrogen" if z == 1 else ("placeholder" if z == 0 else "metal-or-other"))
                out.append((f"bystander[{kind}]:received-hydrogens", f"atom Z={z} outside groups 13-16 received {len(got)} hydrogens"))
            continue
        hint = snap["hints"][i]
        if selected is not None and i not in selected:
            # an explicit call that does not name this atom: nothing for it
            if got:
                out.append(("subset-call:unselected-atom-received-hydrogens", f"Z={z} (atom {i}) was not named in the call and received {len(got)} hydrogens"))
            continue
        if hint is None and (i in unknown_order or fc is None or fs is None):
            continue
        exp = due(z, fc or 0, fs or 0, bonded[i], hint)
        obs.append((z, fc, fs, hint, bonded[i], len(nbrs[i]), exp, len(got)))
        src = "hint" if hint is not None else "formula"
        if len(got) != exp:
            frac = "fractional" if bonded[i] != math.floor(bonded[i]) else "integer"
            sym = "too-few" if len(got) < exp else "too-many"
            neg = hint is None and fs is not None and fs < 0
            tcls = f"atom-type-{(atype // 100) * 100}s" if atype >= 100 else None  # 100-102 placeholders, 201.. specific classes
            rare = sorted({bt_of[(i, j)] for j in nbrs[i]} - {1, 2, 3, 20, 99, 98, 10, 11})
            if rare and not neg and not tcls and hint is None:
                tcls = f"bond-type-{rare[0]}"  # a bond type outside the everyday ones on the judged atom
            out.append((f"count[formula;negative-spin]:{sym}" if neg else (f"count[{src};{tcls}]:{sym}" if tcls else f"count[{src};bonded-valence-{frac};due-{exp}]:{sym}"), f"Z={z} charge={fc} spin={fs} hint={hint} bonded valence={bonded[i]:g} ({len(nbrs[i])} neighbours): {len(got)} hydrogens added, {exp} due"))
        if not got:
            continue
        # placement
        X = snap["coords"][i]
        # the neighbours that fix the direction (the routine's documented rule): the atoms bonded to it
        # that are not typed CoordinationCenter, whatever the bond type; when there are only
        # CoordinationCenter neighbours, those
        pn = [j for j in nbrs[i] if snap["desc"][j][3] != CC] or list(nbrs[i])
        k = len(pn)
        cls = f"{k}-neighbours" if k < 4 else "four-or-more-neighbours"
        ref = None
        if k == 0:
            cls = "no-placement-neighbours"
        elif k in (1, 2):
            ref = np.mean(snap["coords"][pn] - X, axis=0)
        elif k == 3:
            P = snap["coords"][pn]
            nrm = np.cross(P[1] - P[0], P[2] - P[0])
            ref = nrm
        if ref is not None and np.linalg.norm(ref) > 1e-9 and abs(unit(ref) @ Z) > 1 - 1e-9:
            cls = "reference-direction-along-z"
        cls = f"{cls};due-{len(got)}" if 0 < k < 4 or (k >= 4 and cls != "four-or-more-neighbours") else cls
        L = RCOV[z] + RCOV[1]
        H = coords[got]
        if not np.all(np.isfinite(H)):
            out.append((f"place[{cls}]:non-finite", f"Z={z} with {k} placement neighbours: {len(got)} hydrogens at {H[0].tolist()}"))
            continue
        d = np.linalg.norm(H - X, axis=1)
        if np.any(np.abs(d - L) > 1e-6):
            notes["xh_distances_off_by_more_than_1e-6_but_within_tolerance"] = notes.get("xh_distances_off_by_more_than_1e-6_but_within_tolerance", 0) + 1
        if np.any(np.abs(d - L) > TOL_R):
            out.append((f"place[{cls}]:wrong-distance", f"Z={z}: X-H distances {np.round(d, 6).tolist()}, r_cov(X)+r_cov(H) = {L:.2f}"))
        # direction: away from the centroid of the existing neighbours
        cents = [np.mean(snap["coords"][pn], axis=0) - X] if pn else []
        if cents:
            determinate = True
            if whole:
                # degenerate surroundings (flat drawings, linear or planar centres) fix no direction
                c0 = cents[-1]
                if np.linalg.norm(c0) < 0.2:
                    determinate = False
                if k == 3:
                    P = snap["coords"][pn]
                    nrm = unit(np.cross(P[1] - P[0], P[2] - P[0]))
                    if abs(nrm @ (X - P[0])) < 0.2:
                        determinate = False
            if determinate:
                # an atom that ends up with more than four substituents (only a hint that contradicts the
                # drawn neighbours does that) cannot have all of them tetrahedrally *and* every hydrogen
                # strictly in the far half space for every pose: there the hydrogens' mean direction is judged
                Hs = H if k + len(got) <= 4 else [np.mean(H, axis=0)]
                okdir = any(all(float((h - X) @ c) < -1e-9 for h in Hs) for c in cents)
                if not okdir:
                    dcls = "3-neighbours;more-than-one-hydrogen" if (k == 3 and len(got) > 1) else cls
                    if k < 4 and any((snap["desc"][j][3] == CC) != (bt_of.get((i, j)) == 98) for j in nbrs[i]):
                        dcls = "neighbour-atom-type-and-bond-type-disagree"  # ligand bond to a Regular atom / ordinary bond to a CoordinationCenter
                    if len(got) == 4 and k >= 1:
                        dcls = "due-4;with-neighbours"  # four hydrogens on an atom that has (order-0 bonded) neighbours
                    out.append((f"place[{dcls}]:not-pointing-away", f"Z={z}: (H-X).(centroid-X) = {[round(float((h - X) @ cents[0]), 4) for h in H]} must be negative"))
        if len(got) > 1:
            dm = min(np.linalg.norm(H[p] - H[q]) for p in range(len(got)) for q in range(p + 1, len(got)))
            if dm < 1e-6:
                out.append((f"place[{cls}]:hydrogens-coincide", f"Z={z}: two new hydrogens at the same place"))
    return out, tuple(obs)


def make_repro(snap, case):
    """self-contained snippet (imports only molli/numpy) that rebuilds the molecule of a case."""
    if case.get("kind") == "mol2-text":
        cls = "Structure" if case.get("cls") == "Structure" else "Molecule"
        return f"import molli as ml\ntxt = {mol2_env(case)!r}\nm = ml.{cls}.loads_mol2(txt)\nn = m.n_atoms\nprint([(int(b.btype), b.order) for b in m.bonds])\nm.add_implicit_hydrogens()\nprint(m.n_atoms - n, 'hydrogens added')\n"
    if case.get("kind") == "file":
        return "import molli as ml\nm = ml.Molecule.load_mol2(ml.files.hadd_test_mol2)\nn = m.n_atoms\nm.add_implicit_hydrogens()\nprint(m.n_atoms - n, m.coords[n:], m.atomic_charges.dtype)\n"
    if case.get("kind") == "cdxml":
        get = f"f[{case['key']!r}]" if case["by"] == "label" else f"f._parse_fragment(f.xfrags[{case['key']}])"
        return (
            "import molli as ml\nfrom molli.ftypes.cdxml import CDXMLFile\n"
            f"f = CDXMLFile(ml.files.ROOT / {case['file']!r})\nm = {get}\nn = m.n_atoms\nm.add_implicit_hydrogens()\nprint(m.n_atoms - n, m.coords[n:], m.atomic_charges.dtype)\n"
        )
    lines = ["import numpy as np", "from molli.chem import Atom, Bond, Molecule, AtomType, BondType", "atoms = ["]
    for d, h in zip(snap["desc"], snap["hints"]):
        att = f", attrib={{{HINT!r}: {h}}}" if h is not None else ""
        lines.append(f"    Atom({d[0]}, atype=AtomType({d[3]}), formal_charge={d[6]}, formal_spin={d[7]}{att}),")
    lines.append("]")
    lines.append("m = Molecule(atoms, copy_atoms=False)")
    lines.append(f"m.coords = np.array({np.round(snap['coords'], 6).tolist()})")
    for i, j, bt, _, fo in snap["bdesc"]:
        lines.append(f"m.append_bond(Bond(atoms[{i}], atoms[{j}], btype=BondType({bt}), f_order={fo}))")
    lines.append("n = m.n_atoms")
    lines.append("m.add_implicit_hydrogens()")
    lines.append("print('added', m.n_atoms - n, 'atoms'); print(m.coords[n:]); print([(m.get_atom_index(b.a1), m.get_atom_index(b.a2)) for b in m.bonds]); print(m.atomic_charges.dtype)")
    return "\n".join(lines) + "\n"


def evaluate(ctx, m, whole=False, second=True, keyclass=None, count=True, args=None, selected=None, hints=None):
    """call once (and twice when hint-free) and judge -> (violations [(sig, what)], observation, snapshot)

    args/selected: an explicit-atom call add_implicit_hydrogens(*args) that names the atoms with the
    indices `selected` (no second call then)."""
    snap = snapshot(m)
    if hints is not None:
        # call sequences: the hint an atom is owed is the one it carried when the sequence began
        snap["hints"] = list(hints) + [None] * (len(snap["atoms"]) - len(hints))
    hinted = any(h is not None for h in snap["hints"])
    if count:
        ctx.count(evaluations=1, traces=1, states=1, transitions=1)
    if args is not None:
        second = False
    try:
        with warnings.catch_warnings():
            warnings.simplefilter("ignore")
            r = m.add_implicit_hydrogens(*(args or ()))
    except Exception as e:
        return [(f"raised[{keyclass or 'environment'}]:{type(e).__name__}", f"add_implicit_hydrogens() raised {type(e).__name__}: {e}")], None, snap
    notes = {}
    bad, obs = verify(m, snap, whole=whole, notes=notes, selected=selected)
    if count:
        for kk, vv in notes.items():
            ctx.add_note(kk, vv)
    if r is not None:
        bad.append(("returns:not-none", f"returned {type(r).__name__}"))
    # a damaged molecule is not explored further; a result that is merely misplaced/mistyped is
    damaged = [s for s, _ in bad if not (s == "unchanged:atomic-charges-dtype" or s.endswith(":wrong-distance") or s.endswith(":not-pointing-away"))]
    if second and not hinted and not damaged:
        n1 = m.n_atoms
        nb1 = m.n_bonds
        c1 = np.array(m.coords, copy=True)
        if count:
            ctx.count(transitions=1)
        try:
            with warnings.catch_warnings():
                warnings.simplefilter("ignore")
                m.add_implicit_hydrogens()
        except Exception as e:
            bad.append((f"idempotence:second-call-raised:{type(e).__name__}", f"the second call raised {type(e).__name__}: {e}"))
        else:
            if m.n_atoms != n1 or m.n_bonds != nb1:
                bad.append(("idempotence:second-call-adds-atoms", f"a second call on a hint-free molecule added {m.n_atoms - n1} atoms / {m.n_bonds - nb1} bonds"))
            elif np.asarray(m.coords).tobytes() != c1.tobytes():
                bad.append(("idempotence:second-call-moves-atoms", "a second call on a hint-free molecule changed coordinates"))
    return bad, obs, snap


def family(sig):
    """the symptom family of a signature: the per-branch detail in the brackets is dropped."""
    m = re.match(r"^count\[(formula|hint);[^\]]*\](.*)$", sig)
    if m:
        return f"count[{m.group(1)}]{m.group(2)}"
    m = re.match(r"^place\[[^\]]*\](.*)$", sig)
    if m:
        return f"place{m.group(1)}"
    return sig


def rebuild(snap):
    """a fresh molecule with exactly the atoms, field values (same python types), coordinates and bonds
    of a snapshot, built directly: no queries, no edits, no round trip."""
    atoms = []
    for d, h, raw in zip(snap["desc"], snap["hints"], snap["raw_atoms"]):
        a = Atom(d[0], isotope=d[1], label=d[2], atype=raw[0], stereo=raw[1], geom=raw[2], formal_charge=raw[3], formal_spin=raw[4])
        if h is not None:
            a.attrib[HINT] = h
        atoms.append(a)
    m = Molecule(atoms, copy_atoms=False)
    m.coords = np.array(snap["coords"], dtype=float)
    try:
        if snap["charges"]:
            m.atomic_charges = np.array(snap["charges"], dtype=float)
    except Exception:
        pass
    if snap["charge"] is not None:
        m.charge, m.mult = snap["charge"], snap["mult"]
    for (i, j, bt, st, fo), raw in zip(snap["bdesc"], snap["raw_bonds"]):
        m.append_bond(Bond(atoms[i], atoms[j], btype=raw[0], stereo=raw[1], f_order=fo))
    return m


def run_one(ctx, m, case, whole=False, second=True, keyclass=None, variant=None, baseline=None):
    """one molecule: call once (and twice); report; returns (outcome tuple, set of signatures).

    variant  : None for a plainly built molecule; otherwise the class name of the representation /
               history that produced `m`.  A variant is reported only for what its plainly built
               counterpart does not show: `baseline` = that counterpart's signatures, or None to
               rebuild the counterpart from the snapshot when (and only when) the variant fails."""
    bad, obs, snap = evaluate(ctx, m, whole=whole, second=second, keyclass=keyclass)
    sigs = {s for s, _ in bad}
    if variant is not None and bad:
        if baseline is None:
            try:
                b2, _, _ = evaluate(ctx, rebuild(snap), whole=whole, second=second, keyclass=keyclass, count=False)
                baseline = {s for s, _ in b2}
            except Exception:
                baseline = set()
        bad = [(f"{family(s)}@{variant}", w) for s, w in bad if s not in baseline]
        # several branches of one family: one report
        seen = set()
        bad = [(s, w) for s, w in bad if not (s in seen or seen.add(s))]
    for sig, what in bad:
        repro = None
        if sig not in ctx.violations:
            repro = make_repro(snap, case) if variant is None else make_variant_repro(case, ctx.seed)
        ctx.violation(sig, what + (f" [{variant}]" if variant else ""), case, repro=repro)
    if bad:
        return ("bad", tuple(sorted(s for s, _ in bad))), sigs
    if obs is None:
        return ("ok", ()), sigs
    return ("ok", obs), sigs


def make_variant_repro(case, seed=0):
    """self-contained snippet for an environment reached through a representation / a history."""
    if case.get("kind") != "environment":
        return f"# whole molecule {case!r}: load it as in the plain repro, write it to a library / pickle it, read it back, call add_implicit_hydrogens()\n"
    rep = case.get("rep", "members")
    c = dict(case)
    c["nbrs"] = [tuple(x) for x in case["nbrs"]]
    snap = snapshot(build(c, seed, rep="plain" if rep == "plain" else "members"))
    k = len(c["nbrs"])
    L = ["import pickle, tempfile, numpy as np, molli as ml", "from molli.chem import Atom, Bond, Molecule, AtomType, BondType", "atoms = ["]
    for d, h in zip(snap["desc"], snap["hints"]):
        att = f", attrib={{{HINT!r}: {h}}}" if h is not None else ""
        if rep == "plain":
            L.append(f"    Atom({d[0]}, atype={d[3]}, formal_charge=np.int64({int(d[6])}), formal_spin=np.int64({int(d[7])}){att}),")
        else:
            L.append(f"    Atom({d[0]}, atype=AtomType({d[3]}), formal_charge={d[6]}, formal_spin={d[7]}{att}),")
    L += ["]", "m = Molecule(atoms, copy_atoms=False)", f"m.coords = np.array({np.round(snap['coords'], 6).tolist()})"]
    for i, j, bt, _, fo in snap["bdesc"]:
        t = str(bt) if rep == "plain" else f"BondType({bt})"
        L.append(f"m.append_bond(Bond(atoms[{i}], atoms[{j}], btype={t}, f_order={fo}))")
    if rep == "mlib":
        L += ["p = tempfile.mkdtemp() + '/x.mlib'", "lib = ml.MoleculeLibrary(p, readonly=False, overwrite=True)", "with lib.writing(): lib['x'] = m", "lib = ml.MoleculeLibrary(p)", "with lib.reading(): m = lib['x']"]
    elif rep == "clib":
        L += ["p = tempfile.mkdtemp() + '/x.clib'", "ens = ml.ConformerEnsemble(m, n_conformers=1); ens._coords[0] = m.coords", "lib = ml.ConformerLibrary(p, readonly=False, overwrite=True)", "with lib.writing(): lib['x'] = ens", "lib = ml.ConformerLibrary(p)", "with lib.reading(): m = ml.Molecule(lib['x'][0])"]
    elif rep == "pickle":
        L += ["m = pickle.loads(pickle.dumps(m))"]
    hist = case.get("history")
    if hist:
        q, e = hist["query"], hist["edit"]
        if q == "neighbour-queries":
            L.append("for a in list(m.atoms): m.bonded_valence(a); m.n_bonds_with_atom(a); list(m.connected_atoms(a))")
        elif q == "earlier-call":
            L.append("m.add_implicit_hydrogens()")

        def bt_text(name, as_int=False):
            t, fo = BT[name]
            return (str(int(t)) if as_int else f"BondType({int(t)})"), fo

        if e[0] == "connect_like":
            L.append("ref = Molecule(m)")
            for n, (_, name) in enumerate(c["nbrs"]):
                t, fo = bt_text(_shifted(name, e[1]))
                L.append(f"b = ref.lookup_bond(ref.atoms[0], ref.atoms[{n + 1}]); b.f_order = {fo if t.endswith('(99)') else 'b.f_order'}; b.btype = {t}")
            L.append("m.connect_like(ref)")
        elif e[0] == "connect_like-fewer-bonds":
            L += ["ref = Molecule(m)", "ref.del_bond(ref.lookup_bond(ref.atoms[0], ref.atoms[1]))", "m.connect_like(ref)"]
        elif e[0] in ("del_bond+connect", "del_bond"):
            L.append("m.del_bond(m.bonds[0])")
            if e[0] == "del_bond+connect":
                t, fo = bt_text(_shifted(c["nbrs"][0][1], e[1]))
                L.append(f"m.connect(m.atoms[0], m.atoms[1], btype={t}, f_order={fo})")
        elif e[0] in ("btype-assigned", "btype-assigned-int"):
            t, fo = bt_text(_shifted(c["nbrs"][0][1], e[1]), as_int=e[0].endswith("int"))
            if t in ("99", "BondType(99)"):
                L.append(f"m.bonds[0].f_order = {fo}")
            L.append(f"m.bonds[0].btype = {t}")
        elif e[0] == "f_order-assigned":
            L.append(f"m.bonds[0].f_order = {e[1]}")
        elif e[0] == "formal_charge-assigned":
            L.append(f"m.atoms[0].formal_charge = {e[1]}")
        elif e[0] == "formal_spin-assigned":
            L.append(f"m.atoms[0].formal_spin = {e[1]}")
        elif e[0] == "hint-added":
            L.append(f"m.atoms[0].attrib[{HINT!r}] = {e[1]}")
        elif e[0] == "hint-removed":
            L.append(f"m.atoms[0].attrib.pop({HINT!r}, None)")
        elif e[0] in ("element-assigned", "element-assigned+added-hydrogens-deleted", "added-hydrogens-deleted"):
            if e[0].startswith("element"):
                L.append(f"m.atoms[0].element = {e[1]!r}")
            if e[0].endswith("deleted"):
                L.append(f"for a in list(m.atoms)[{1 + k + 2}:]:")
                L.append("    if m.atoms[0] in set(m.connected_atoms(a)): m.del_atom(a)")
        elif e[0] == "neighbour-added":
            d = _ap_direction(c) * 1.5
            L.append(f"x = Atom({e[1]!r}); m.add_atom(x, m.coords[0] + np.array({np.round(d, 6).tolist()})); m.connect(m.atoms[0], x)")
        elif e[0] == "neighbour-removed":
            L.append("m.del_atom(m.atoms[1])")
    L += [
        "n = m.n_atoms",
        "print('bonds before the call:', [(m.get_atom_index(b.a1), m.get_atom_index(b.a2), int(b.btype), b.f_order) for b in m.bonds])",
        "m.add_implicit_hydrogens()",
        "print('added', m.n_atoms - n, 'hydrogens on atoms', [m.get_atom_index(b.a1) for b in m.bonds if m.get_atom_index(b.a2) >= n]); print(m.coords[n:])",
    ]
    return "\n".join(L) + "\n"


# =================================================================================================
# the grammar
# =================================================================================================
def head_menu(ctx):
    """(centre, charge, spin, hint)"""
    s = ctx.seed
    heads = []
    for c in rot(CENTRES, s):
        for q in rot(CHARGES, s):
            for sp in rot(SPINS, s):
                heads.append((c, q, sp, None))
    for h in (0, 1, 2, 3):
        for n, c in enumerate(rot(CENTRES, s)):
            # a hint overrides charge and spin
            qs = [(0, 0), (-1, 1)] if ctx.thorough else ([(0, 0), (-1, 1)] if n % 4 == h else [(0, 0)])
            for q, sp in qs:
                heads.append((c, q, sp, h))
    return heads


def nbr_menu(ctx):
    """[(elements tuple, bond type tuple)] per neighbour count"""
    s = ctx.seed
    bts = rot(BTYPES, s)
    out = {0: [((), ())], 1: [], 2: [], 3: []}
    for el in rot(["C", "H", "F", "M"], s):
        for bt in bts + (["fractional-1.25"] if ctx.thorough else []):
            out[1].append(((el,), (bt,)))
    if ctx.thorough:
        el2 = [p for p in itertools.combinations_with_replacement(["C", "H", "F", "M"], 2)]
        el3 = [("C", "C", "C"), ("C", "H", "F"), ("C", "C", "M"), ("H", "M", "M"), ("M", "M", "M"), ("F", "F", "H"), ("C", "H", "H"), ("M", "C", "F")]
    else:
        el2 = [("C", "C"), ("H", "F"), ("C", "M"), ("M", "M")]
        el3 = [("C", "C", "C"), ("C", "H", "F"), ("C", "C", "M")]  # (M,M,M): thorough; (M,) and (M,M) stay
    for els in rot(el2, s):
        for b1 in bts:
            for b2 in bts:
                if els[0] == els[1] and BTYPES.index(b1) > BTYPES.index(b2) and not ctx.thorough:
                    continue  # same two elements: the unordered pair of bond types
                out[2].append((els, (b1, b2)))
    rows = [(i, j, k) for i in range(5) for j in range(5) for k in range(5)] if ctx.thorough else oa25()
    for els in rot(el3, s):
        for i, j, k in rows:
            out[3].append((els, (bts[i], bts[j], bts[k])))
    return out


def dative_menu(ctx):
    """neighbour atom type and bond type crossed independently: a Regular-typed metal through a ligand
    or a single bond, a CoordinationCenter through a ligand or a single bond, carbon through a ligand bond"""
    special = [("Q", "ligand"), ("Q", "single"), ("M", "ligand"), ("M", "single"), ("C", "ligand")]
    opts = [("C", "single")] + special
    out = {0: [], 1: [], 2: [], 3: []}
    for el, bt in special:
        out[1].append(((el,), (bt,)))
    pairs = [(a, b) for i, a in enumerate(opts) for b in opts[i:] if (a in special or b in special)]
    for a, b in pairs:
        out[2].append(((a[0], b[0]), (a[1], b[1])))
        out[3].append((("C", a[0], b[0]), ("single", a[1], b[1])))
    if ctx.thorough:
        for a, b in pairs:
            out[3].append((("H", a[0], b[0]), ("single", a[1], b[1])))
    heads = [(c, q, 0, None) for c in rot(CENTRES, ctx.seed) for q in ((0, 1) if ctx.thorough else (0,))]
    heads += [(c, 0, 0, h) for c in rot(CENTRES, ctx.seed) for h in ((1, 2, 3) if ctx.thorough else (1, 2))]
    return heads, out


def pose_menu(ctx, k):
    names = [n for n, _ in poses(k)]
    if k >= 4:
        return rot(names if ctx.thorough else names[:3], ctx.seed)
    if not ctx.thorough and k >= 1:
        keep = {1: ["general", "+x", "+z", "-z", "xz-diagonal", "-y"], 2: ["general-109", "first-bond+z-109", "first-bond-z-120", "bisector+z-109"], 3: ["general-tetrahedral", "axis-z-tetrahedral", "first-bond-z", "general-flattened"]}[k]
        names = [n for n in names if n in keep]
    return rot(names, ctx.seed)


def rt_selected(ctx, head):
    """heads whose environments also go through the library / pickle round trips"""
    c, q, sp, h = head[:4]
    if ctx.thorough:
        return h is None or (q, sp) == (0, 0)
    if h is None:
        return (q, sp) in ((0, 0), (-1, 1))
    return h == 0 and (q, sp) == (0, 0)


def _flush_roundtrips(sub, batch, seed):
    """batch: [(case, baseline signatures)] -> the same environments after mlib / clib / pickle"""
    if not batch:
        return
    for kind in ("mlib", "clib", "pickle", "structure"):
        mols = [build(c, seed) for c, _ in batch]
        try:
            back = roundtrip(sub.scratch, mols, kind)
        except Exception as e:
            sub.violation(f"roundtrip[{kind}]:raised:{type(e).__name__}", f"writing/reading the environments through {kind} raised {type(e).__name__}: {e}", {**batch[0][0], "rep": kind})
            continue
        sub.count(transitions=2 * len(mols))
        for (case, base), m in zip(batch, back):
            c2 = {**case, "rep": kind}
            o, _ = run_one(sub, m, c2, second=False, variant=REP_CLASS[kind], baseline=base)
            sub.outcome((kind, o[0]) if o[0] != "ok" else (kind, "ok", o[1][0][6:] if o[1] else None))
    batch.clear()


def _grammar_part(sub, part):
    heads, nm, seed = part[:3]
    limit = part[3] if len(part) > 3 else None  # heads that run on the first `limit` poses only
    n_s = 0
    batch = []
    extra_sets = part[5] if len(part) > 5 else [{}]
    for head in heads:
        c, q, sp, h = head[:4]
        rts = rt_selected(sub, head)
        for k in sorted(nm):
            pn = pose_menu(sub, k)
            if limit is not None:
                pn = pn[:limit]
            for els, bts in nm[k]:
                for pname, extra in itertools.product(pn, extra_sets):
                    case = {"kind": "environment", "centre": c, "charge": q, "spin": sp, "hint": h, "nbrs": [list(x) for x in zip(els, bts)], "pose": pname, **extra}
                    if len(head) > 4:
                        case["atype"] = head[4]
                    m = build(case, seed)
                    # quick: the second (idempotence) call on the first pose (two for one neighbour) of every environment
                    o, base = run_one(sub, m, case, second=sub.thorough or pname == pn[0] or (k == 1 and pname == pn[1]))
                    sub.outcome(o if o[0] != "ok" else ("ok", o[1][0][6:] if o[1] else None, len(o[1])))
                    # the same environment written with plain numbers
                    if (pname in pn[:2]) if sub.thorough else (limit is None and (pname == pn[0] or (k == 1 and pname == pn[1]))):
                        c1 = {**case, "rep": "plain"}
                        o1, _ = run_one(sub, build(case, seed, rep="plain"), c1, second=False, variant=REP_CLASS["plain"], baseline=base)
                        sub.outcome(("plain", o1[0]) if o1[0] != "ok" else ("plain", "ok", o1[1][0][6:] if o1[1] else None))
                    if rts and pname == pn[0]:
                        batch.append((case, base))
                        if len(batch) >= 1500:
                            _flush_roundtrips(sub, batch, seed)
                    bonded = sum(BT_ORDER[b] for b in bts)
                    if h is not None or due(Z_OF[c], q, sp, bonded, None) > 0:
                        sub.nontrivial((c, q, sp, h, els, bts, pname, head[4:], tuple(sorted(extra.items()))))
                    n_s += 1
                    if n_s % 4001 == 1:
                        sub.sample({**case, "hydrogens_due_at_centre": due(Z_OF[c], q, sp, bonded, h), "outcome": o[0]})
    _flush_roundtrips(sub, batch, seed)


# =================================================================================================
# histories: a query, then an edit of the connectivity / the fields, then the call
# =================================================================================================
QUERIES = ("no-query", "neighbour-queries", "earlier-call")
# the centre's element reassigned to one of another group
OTHER_GROUP = {"B": ("N", "O"), "C": ("O", "N"), "N": ("C", "S"), "O": ("C", "B"), "Si": ("S", "P"), "P": ("C", "O"), "S": ("Si", "N"), "Al": ("O", "C")}


def apply_query(m, q):
    if q == "neighbour-queries":
        for a in list(m.atoms):
            m.bonded_valence(a)
            m.n_bonds_with_atom(a)
            list(m.connected_atoms(a))
            list(m.bonds_with_atom(a))
    elif q == "earlier-call":
        with warnings.catch_warnings():
            warnings.simplefilter("ignore")
            m.add_implicit_hydrogens()


def _retype(b, name, as_int=False):
    btype, fo = BT[name]
    if int(btype) == 99:
        b.f_order = fo
    b.btype = int(btype) if as_int else btype


def _shifted(name, j):
    return BTYPES[(BTYPES.index(name) + j) % len(BTYPES)]


def apply_edit(m, case, edit):
    """edit = [kind, parameter]; works on the first drawn bond / the centre (atom 0)"""
    kind = edit[0]
    k = len(case["nbrs"])
    centre = m.atoms[0]
    if kind in ("connect_like", "connect_like-fewer-bonds"):
        ref = Molecule(m)
        first = [b for b in ref.bonds if ref.atoms[0] in (b.a1, b.a2) and ref.get_atom_index(b.a1) <= k and ref.get_atom_index(b.a2) <= k]
        if kind == "connect_like":
            for b, (_, name) in zip(first, case["nbrs"]):
                _retype(b, _shifted(name, edit[1]))
        else:
            ref.del_bond(first[0])
        m.connect_like(ref)
    elif kind == "del_bond+connect":
        b = m.bonds[0]
        other = b.a2 if b.a1 is centre else b.a1
        m.del_bond(b)
        btype, fo = BT[_shifted(case["nbrs"][0][1], edit[1])]
        m.connect(centre, other, btype=btype, f_order=fo)
    elif kind == "del_bond":
        m.del_bond(m.bonds[0])
    elif kind == "btype-assigned":
        _retype(m.bonds[0], _shifted(case["nbrs"][0][1], edit[1]))
    elif kind == "btype-assigned-int":
        _retype(m.bonds[0], _shifted(case["nbrs"][0][1], edit[1]), as_int=True)
    elif kind == "f_order-assigned":
        m.bonds[0].f_order = edit[1]
    elif kind == "formal_charge-assigned":
        centre.formal_charge = edit[1]
    elif kind == "formal_spin-assigned":
        centre.formal_spin = edit[1]
    elif kind == "hint-added":
        centre.attrib[HINT] = edit[1]
    elif kind == "hint-removed":
        centre.attrib.pop(HINT, None)
    elif kind in ("element-assigned", "element-assigned+added-hydrogens-deleted", "added-hydrogens-deleted"):
        if kind.startswith("element"):
            centre.element = edit[1]
        if kind.endswith("deleted"):
            n0 = 1 + k + 2  # centre, drawn neighbours, two bystanders: everything after is an added hydrogen
            for a in list(m.atoms)[n0:]:
                if centre in set(m.connected_atoms(a)):
                    m.del_atom(a)
    elif kind == "neighbour-added":
        a = Atom(edit[1], label="extra")
        m.add_atom(a, m.coords[0] + _ap_direction(case) * 1.5)
        m.connect(centre, a)
    elif kind == "neighbour-removed":
        m.del_atom(m.atoms[1])
    else:  # pragma: no cover
        raise HarnessError(f"unknown edit {edit}")


def edit_menu(ctx, case):
    k = len(case["nbrs"])
    shifts = (1, 2, 3, 4)
    T = ctx.thorough
    out = []
    if k:
        out += [["connect_like", j] for j in (shifts if T else (1, 3))]
        out += [["connect_like-fewer-bonds", 0]]
        out += [["del_bond+connect", j] for j in (shifts if T else (2,))]
        out += [["del_bond", 0]]
        out += [["btype-assigned", j] for j in (shifts if T else (1,))]
        out += [["btype-assigned-int", j] for j in (shifts if T else (3,))]
        if case["nbrs"][0][1] == "fractional":
            out += [["f_order-assigned", 1.5]] + ([["f_order-assigned", 2.0]] if T else [])
    out += [["formal_charge-assigned", q] for q in CHARGES if q != case["charge"]][: None if T else 1]
    out += [["formal_spin-assigned", sp] for sp in (SPINS + [-1, -2]) if sp != case["spin"]][: None if T else 1]
    other = OTHER_GROUP[case["centre"]]
    out += [["element-assigned", z] for z in (other if T else other[:1])]
    out += [["element-assigned+added-hydrogens-deleted", z] for z in (other if T else other[:1])]
    out += [["added-hydrogens-deleted", 0]]
    out += [["neighbour-added", el] for el in (("C", "H", "F") if T else ("C",))]
    if k:
        out += [["neighbour-removed", 0]]
    if case["hint"] is None:
        out += [["hint-added", h] for h in ((0, 1, 2, 3) if T else (0,))]
    else:
        out += [["hint-removed", 0]]
    return out


def history_bases(ctx):
    s = ctx.seed
    heads = []
    for n, c in enumerate(rot(CENTRES, s)):
        if ctx.thorough:
            qs = [(0, 0), (1, 0), (-1, 1), (0, 2)]
        else:
            qs = [(0, 0), (-1, 1)] if n % 4 == 0 else [(0, 0)]
        for q, sp in qs:
            heads.append((c, q, sp, None))
        if ctx.thorough or n % 2 == 0:
            heads.append((c, 0, 0, 2))
        if ctx.thorough:
            heads.append((c, 0, 0, 0))
    bts = rot(BTYPES, s)
    specs = [((), (), "none")]
    for b in bts:
        specs.append((("C",), (b,), "general"))
        specs.append((("C",), (b,), "+z"))
    for i, b1 in enumerate(bts):
        for b2 in bts[i:]:
            specs.append((("C", "C"), (b1, b2), "general-109"))
    for b in bts:
        specs.append((("C", "M"), (b, "single"), "first-bond+z-109"))
    rows = oa25() if ctx.thorough else [(i, j, (i + j) % 5) for i in range(5) for j in (i, (i + 1) % 5)]
    for i, j, kk in rows:
        specs.append((("C", "C", "C"), (bts[i], bts[j], bts[kk]), "general-tetrahedral"))
    return heads, specs


def materialise(case, seed, scratch):
    """the molecule of a case, through its representation and history (also used by replay)."""
    rep = case.get("rep", "members")
    c = dict(case)
    c["nbrs"] = [tuple(x) for x in case["nbrs"]]
    if rep in ("members", "plain"):
        m = build(c, seed, rep=rep)
    else:
        m = roundtrip(scratch, [build(c, seed)], rep)[0]
    hist = case.get("history")
    if hist:
        apply_query(m, hist["query"])
        apply_edit(m, c, hist["edit"])
    return m


def _history_part(sub, part):
    heads, specs, seed = part
    n = 0
    for c, q, sp, h in heads:
        for els, bts, pname in specs:
            base = {"kind": "environment", "centre": c, "charge": q, "spin": sp, "hint": h, "nbrs": [list(x) for x in zip(els, bts)], "pose": pname}
            for edit in edit_menu(sub, base):
                for query in QUERIES:
                    if edit[0] == "hint-removed" and query == "earlier-call":
                        continue  # the earlier call has consumed the hint already
                    if edit[0].endswith("hydrogens-deleted") and query != "earlier-call":
                        continue  # nothing has been added yet
                    case = {**base, "history": {"query": query, "edit": edit}}
                    try:
                        m = materialise(case, seed, sub.scratch)
                    except Exception as e:
                        sub.violation(f"history[{query};{edit[0]}]:setup-raised:{type(e).__name__}", f"query/edit before the call raised {type(e).__name__}: {e}", case)
                        continue
                    sub.count(transitions=2)
                    o, _ = run_one(sub, m, case, whole=True, second=sub.thorough, variant=f"history[{query};{edit[0]}]", baseline=None)
                    sub.outcome(("history", query, edit[0], o[0]) if o[0] != "ok" else ("history", o[1][0][6:] if o[1] else None))
                    sub.nontrivial((c, q, sp, h, els, bts, query, tuple(edit)))
                    sub.add_note("history_cases")
                    n += 1
                    if n % 3001 == 1:
                        sub.sample({**case, "outcome": o[0]})


# =================================================================================================
# ownership: the molecule's atoms are (or were) also held by another container
# =================================================================================================
KEEP = []  # second containers that must stay alive while the call runs


def _ap_direction(case):
    k = len(case["nbrs"])
    if k:
        v = -np.sum(POSES[k][case["pose"]], axis=0)
        if np.linalg.norm(v) > 0.3:
            return unit(v)
    return unit(np.array([0.36, 0.48, 0.8]))


def apply_ownership(m, case, kind):
    """-> the molecule to call on.  kind = '<container>-<which atoms>;<kept|dropped>' or a route by
    which a molecule (and the parent links of its atoms) comes into being."""
    import molli as ml

    del KEEP[:]
    k = len(case["nbrs"])
    if kind.startswith(("promolecule", "connectivity", "structure")):
        cont, fate = kind.split(";")
        cls_name, which = cont.split("-")
        cls = {"promolecule": ml.Promolecule, "connectivity": ml.Connectivity, "structure": ml.Structure}[cls_name]
        if which == "all":
            atoms = list(m.atoms)
        elif which == "subset":
            atoms = list(m.atoms)[: max(1, min(2, 1 + k))]  # the centre and its first neighbour
        else:  # "others": everything but the centre
            atoms = list(m.atoms)[1:]
        w = cls(atoms)
        if fate == "kept":
            KEEP.append(w)
        else:
            del w
        return m
    if kind == "substructure;kept":
        KEEP.append(m.substructure(list(m.atoms)[: 1 + k]))
        return m
    if kind == "copy-constructor;call-on-copy":
        c = Molecule(m)
        KEEP.append(m)
        return c
    if kind == "copy-constructor;call-on-original":
        KEEP.append(Molecule(m))
        return m
    if kind == "class:Structure(molecule)":
        return ml.Structure(m)
    if kind == "class:Structure-built-through-the-api":
        st = ml.Structure(list(m.atoms), copy_atoms=False)
        st.coords = np.array(m.coords, dtype=float)
        for b in list(m.bonds):
            st.append_bond(Bond(b.a1, b.a2, btype=b.btype, f_order=b.f_order))
        return st
    if kind in ("class:Structure.loads_mol2(dump)", "class:Molecule.loads_mol2(dump)"):
        txt = m.dumps_mol2()
        return (ml.Structure if "Structure" in kind else ml.Molecule).loads_mol2(txt)
    if kind == "class:Substructure-of-all-atoms":
        KEEP.append(m)
        return m.substructure(list(m.atoms))
    if kind == "deepcopy":
        import copy

        return copy.deepcopy(m)
    if kind == "join":
        ap1 = Atom(0, atype=AtomType.AttachmentPoint, label="ap1")
        m.add_atom(ap1, m.coords[0] + _ap_direction(case) * 1.1)
        m.connect(m.atoms[0], ap1)
        c2, ap2 = Atom("C", label="jc"), Atom(0, atype=AtomType.AttachmentPoint, label="ap2")
        f = Molecule([c2, ap2], copy_atoms=False)
        f.coords = np.array([[0.0, 0.0, 0.0], [0.62, -0.51, 0.6]])
        f.connect(c2, ap2)
        return Molecule.join(m, f, ap1, ap2)
    raise HarnessError(f"unknown ownership {kind}")


OWN_KINDS = (
    ["promolecule-all;kept", "promolecule-all;dropped", "promolecule-subset;kept", "promolecule-subset;dropped", "promolecule-others;kept", "promolecule-others;dropped"]
    + ["connectivity-all;kept", "connectivity-all;dropped", "connectivity-subset;kept", "structure-all;kept", "structure-all;dropped", "structure-others;dropped"]
    + ["substructure;kept", "copy-constructor;call-on-copy", "copy-constructor;call-on-original", "deepcopy", "join"]
    + ["class:Structure(molecule)", "class:Structure-built-through-the-api", "class:Structure.loads_mol2(dump)", "class:Molecule.loads_mol2(dump)"]
)


def own_class(kind):
    if ";" in kind and kind.split("-")[0] in ("promolecule", "connectivity", "structure"):
        cont, fate = kind.split(";")
        return f"atoms-also-wrapped-in-a-second-container;{fate}"
    return kind


def ownership_bases(ctx):
    s = ctx.seed
    heads = [(c, 0, 0, None) for c in rot(CENTRES, s)] + [(c, 0, 0, 1) for c in rot(CENTRES, s)[:: 1 if ctx.thorough else 2]]
    if ctx.thorough:
        heads += [(c, 1, 0, None) for c in CENTRES] + [(c, -1, 1, None) for c in CENTRES]
    specs = [
        ((), (), "none"),
        (("C",), ("single",), "general"),
        (("C",), ("double",), "+z"),
        (("H",), ("single",), "-z"),
        (("C", "C"), ("single", "aromatic"), "general-109"),
        (("C", "M"), ("single", "single"), "first-bond+z-109"),
        (("C", "H", "F"), ("single", "single", "single"), "general-tetrahedral"),
    ]
    if ctx.thorough:
        specs += [(("C", "C"), ("aromatic", "aromatic"), "first-bond+z-109"), (("C", "C", "C"), ("single", "single", "fractional"), "axis-z-tetrahedral")]
    return heads, specs


M2_ATOM = {"B": "B", "C": "C.3", "N": "N.3", "O": "O.3", "Si": "Si", "P": "P.3", "S": "S.3", "Al": "Al"}


def mol2_env(case):
    """a two/three atom mol2 text: centre - C (bond token under test) [- F through a single bond]"""
    c = case["centre"]
    atoms = [(c, M2_ATOM[c], (0.2, -0.1, 0.3)), ("C", "C.3", (1.3, 0.7, 0.9))]
    bonds = [(1, 2, case["token"])]
    if case.get("third"):
        atoms.append(("F", "F", (-0.9, 0.8, 0.1)))
        bonds.append((1, 3, "1"))
    L = ["@<TRIPOS>MOLECULE", "env", f" {len(atoms)} {len(bonds)} 0 0 0", "SMALL", "NO_CHARGES", "", "@<TRIPOS>ATOM"]
    for n, (el, ty, xyz) in enumerate(atoms):
        L.append(f"{n + 1:7d} {el}{n + 1:<4d} {xyz[0]:10.4f} {xyz[1]:10.4f} {xyz[2]:10.4f} {ty:6s} 1 UNL1 0.0000")
    L.append("@<TRIPOS>BOND")
    for n, (a, b, t) in enumerate(bonds):
        L.append(f"{n + 1:6d} {a:5d} {b:5d} {t:>4s}")
    return "\n".join(L) + "\n"


def load_mol2_env(case):
    import molli as ml

    cls = ml.Structure if case.get("cls") == "Structure" else ml.Molecule
    return cls.loads_mol2(mol2_env(case))


def _mol2_token_part(sub, part):
    tokens, seed = part
    for c in rot(CENTRES, seed):
        for tok in tokens:
            for third in (False, True):
                for cls in ("Molecule", "Structure"):
                    case = {"kind": "mol2-text", "centre": c, "token": tok, "third": third, "cls": cls}
                    try:
                        m = load_mol2_env(case)
                    except Exception as e:
                        sub.add_note(f"mol2_bond_tokens_that_do_not_load[{tok}]:{type(e).__name__}")
                        continue
                    sub.count(transitions=1)
                    o, _ = run_one(sub, m, case, whole=True, keyclass="mol2-text")
                    sub.outcome(("mol2-token", tok, cls, o[0], o[1][0][6:] if o[0] == "ok" and o[1] else None))
                    sub.nontrivial((c, tok, third, cls))
                    sub.add_note("mol2_bond_token_cases")


def _ownership_part(sub, part):
    heads, specs, seed = part
    n = 0
    for c, q, sp, h in heads:
        for els, bts, pname in specs:
            base = {"kind": "environment", "centre": c, "charge": q, "spin": sp, "hint": h, "nbrs": [list(x) for x in zip(els, bts)], "pose": pname}
            for kind in OWN_KINDS:
                case = {**base, "ownership": kind}
                try:
                    m = apply_ownership(build({**base, "nbrs": [tuple(x) for x in base["nbrs"]]}, seed), base, kind)
                except Exception as e:
                    sub.violation(f"ownership[{own_class(kind)}]:setup-raised:{type(e).__name__}", f"preparing the molecule raised {type(e).__name__}: {e}", case)
                    continue
                sub.count(transitions=1)
                o, _ = run_one(sub, m, case, whole=True, variant=f"ownership[{own_class(kind)}]", baseline=None)
                del KEEP[:]
                sub.outcome(("ownership", kind, o[0]) if o[0] != "ok" else ("ownership", o[1][0][6:] if o[1] else None))
                sub.nontrivial((c, q, sp, h, els, bts, kind))
                sub.add_note("ownership_cases")
                n += 1
                if n % 701 == 1:
                    sub.sample({**case, "outcome": o[0]})


# =================================================================================================
# call sequences: explicit-atom calls on subsets, in every order
# =================================================================================================
_MODES = []


def addressing_modes(ctx=None):
    """the ways of naming an atom that add_implicit_hydrogens(*atoms) accepts on this tree (probed on
    a two-atom molecule whose result is known)."""
    if _MODES:
        return _MODES
    bad = {}
    for mode in ("object", "index", "label"):
        a = [Atom("O", label="a0"), Atom("C", label="a1")]
        m = Molecule(a, copy_atoms=False)
        m.coords = np.array([[0.0, 0.0, 0.0], [1.4, 0.0, 0.3]])
        m.append_bond(Bond(a[0], a[1]))
        try:
            with warnings.catch_warnings():
                warnings.simplefilter("ignore")
                m.add_implicit_hydrogens({"object": a[0], "index": 0, "label": "a0"}[mode])
            if m.n_atoms == 3:
                _MODES.append(mode)
            else:
                bad[mode] = f"added {m.n_atoms - 2}"
        except Exception as e:
            bad[mode] = f"{type(e).__name__}: {e}"
    if ctx is not None:
        ctx.note("explicit_call_addressing_modes_used", list(_MODES))
        ctx.note("explicit_call_addressing_modes_rejected_by_this_tree", bad)
    if not _MODES:
        _MODES.append("object")
    return _MODES


def ordered_partitions(items, nblocks):
    """every ordered partition of `items` into exactly `nblocks` non-empty blocks"""
    items = list(items)
    out = []
    for assign in itertools.product(range(nblocks), repeat=len(items)):
        if len(set(assign)) != nblocks:
            continue
        out.append([[x for x, b in zip(items, assign) if b == j] for j in range(nblocks)])
    return out


def run_sequence(ctx, make, case, base, whole):
    """make() -> fresh molecule.  case['sequence'] = {blocks, final, modes}.  Every call of the sequence
    is judged on its own: named atoms get their count (hint where present, else formula), all others
    nothing.  Reported as <family>@call-sequence[...] for what the one-call run (base) does not show."""
    seq = case["sequence"]
    m = make()
    atoms0 = list(m.atoms)
    hints0 = [a.attrib.get(HINT) for a in atoms0]
    owed = list(hints0)
    shape = seq["shape"]
    steps = list(zip(seq["blocks"], seq["modes"]))
    for n, (block, mode) in enumerate(steps):
        last_default = seq["final"] == "default" and n == len(steps) - 1
        if last_default:
            args, selected = None, None
        else:
            args = [atoms0[i] if mode == "object" else (i if mode == "index" else atoms0[i].label) for i in block]
            selected = set(block)
        bad, obs, snap = evaluate(ctx, m, whole=True, second=False, args=args, selected=selected, hints=owed)
        for i in (block if not last_default else range(len(owed))):
            owed[i] = None  # completed: from now on the formula (with its hydrogens counted) says 0 or more
        new = [(f"{family(s)}@call-sequence[{shape}]", w) for s, w in bad if s not in base]
        seen = set()
        new = [(s, w) for s, w in new if not (s in seen or seen.add(s))]
        for sig, what in new:
            ctx.violation(sig, f"{what} [call {n + 1} of {len(steps)}: {'default call' if last_default else 'atoms ' + str(block) + ' by ' + mode}; hints at the start {[(i, h) for i, h in enumerate(hints0) if h is not None]}]", case)
        if bad:
            return ("bad", tuple(sorted(s for s, _ in new)))
    if seq["final"] == "explicit" and all(h is None for h in hints0):
        # every atom has been completed once and no hint was ever involved: a default call adds nothing
        bad, _, _ = evaluate(ctx, m, whole=True, second=False)
        new = [(f"{family(s)}@call-sequence[{shape};then-default-call]", w) for s, w in bad if s not in base]
        for sig, what in new[:1]:
            ctx.violation(sig, what, case)
        if new:
            return ("bad", (new[0][0],))
    return ("ok", m.n_atoms - len(atoms0))


def sequences_for(ctx, scope, hints, full=True):
    """the menu of call sequences for the in-scope atom indices `scope` (hints: index -> hint or None)"""
    modes = addressing_modes()
    out = []

    def add(blocks, final, shape):
        ms = [modes[(len(out) + j) % len(modes)] for j in range(len(blocks))]
        out.append({"blocks": blocks, "final": final, "modes": ms, "shape": shape})

    for i in scope:
        add([[i]], "explicit", "single-atom")
    # argument lists that name an atom twice (overlapping selections): judged for atoms that never had
    # a hint (an atom completed by a hint smaller than the formula value may be topped up when it is met
    # again - the property grants idempotence to hint-free atoms only)
    free = [i for i in scope if hints.get(i) is None]
    if free:
        i = free[0]
        rest = [j for j in scope if j != i]
        add([[i, i] + rest], "explicit", "explicit-list-with-repeats")
        add([[i] + rest + [i]], "explicit", "explicit-list-with-repeats")
        if len(free) == len(scope):
            add([list(scope) + list(scope)], "explicit", "explicit-list-with-repeats")
        else:
            add([free + free], "explicit", "explicit-list-with-repeats")
    if len(scope) < 2:
        return out
    parts = ordered_partitions(scope, 2)
    if len(scope) >= 3 and (full or len(scope) == 3):
        parts += ordered_partitions(scope, 3)
    for blocks in parts:
        add(blocks, "explicit", "explicit-subsets")
        # the remaining atoms through a default call: judged where the atoms completed before are hint-free
        if all(hints.get(i) is None for b in blocks[:-1] for i in b):
            add(blocks, "default", "explicit-subsets-then-default-for-the-rest")
    return out


def sequence_envs(ctx):
    s = ctx.seed
    heads = [(c, 0, 0) for c in rot(CENTRES, s)] + [("O", 0, 1), ("N", 0, 1), ("S", 0, 2)]
    if ctx.thorough:
        heads += [(c, 1, 0) for c in CENTRES] + [(c, -1, 1) for c in CENTRES]
    specs = [
        (("C",), ("single",), "general"),
        (("C",), ("double",), "+x"),
        (("C", "C"), ("single", "double"), "general-109"),
        (("C", "H"), ("single", "single"), "first-bond+z-109"),
        (("C", "C", "C"), ("single", "single", "single"), "general-tetrahedral"),
    ]
    envs = []
    for c, q, sp in heads:
        for els, bts, pname in specs:
            k = len(els)
            f_c = due(Z_OF[c], q, sp, sum(BT_ORDER[b] for b in bts), None)
            opts_c = [None] + ([0] if f_c > 0 else []) + ([f_c + 1] if f_c + 1 <= 3 and k + f_c + 1 <= 4 else [])
            f_n = due(6, 0, 0, BT_ORDER[bts[0]], None)
            opts_n = [None] + ([0] if f_n > 0 else []) + ([f_n + 1] if f_n + 1 <= 3 else [])
            for hc in opts_c:
                for hn in opts_n:
                    envs.append({"kind": "environment", "centre": c, "charge": q, "spin": sp, "hint": hc, "nbrs": [list(x) for x in zip(els, bts)], "nbr_hints": [hn] + [None] * (k - 1), "pose": pname})
    return envs


def _one_call_baseline(ctx, make, whole):
    b, _, _ = evaluate(ctx, make(), whole=whole, second=False, count=False)
    return {x for x, _ in b}


def _sequence_part(sub, part):
    envs, seed = part
    n = 0
    for base_case in envs:
        c = {**base_case, "nbrs": [tuple(x) for x in base_case["nbrs"]]}
        make = lambda c=c: build(c, seed)
        base = _one_call_baseline(sub, make, False)
        scope = [0] + [1 + i for i, (el, _) in enumerate(c["nbrs"]) if el == "C"]
        hints = {0: c["hint"]}
        for i, h in enumerate(c.get("nbr_hints") or ()):
            hints[1 + i] = h
        for seq in sequences_for(sub, scope, hints, full=sub.thorough):
            case = {**base_case, "sequence": seq}
            o = run_sequence(sub, make, case, base, False)
            sub.outcome(("sequence", seq["shape"], o[0], o[1] if o[0] == "ok" else None))
            sub.nontrivial((base_case["centre"], base_case["charge"], base_case["spin"], base_case["hint"], tuple(base_case["nbr_hints"]), tuple(map(tuple, base_case["nbrs"])), repr(seq["blocks"]), seq["final"]))
            sub.add_note("call_sequences")
            n += 1
            if n % 1501 == 1:
                sub.sample({**case, "outcome": o[0]})


def cdxml_schemes(scope, hints):
    """a few partitions of the atoms of a whole molecule, each in every order of its blocks"""
    out = []
    hinted = [i for i in scope if hints.get(i) is not None]
    plain = [i for i in scope if hints.get(i) is None]
    cands = []
    if hinted and plain:
        cands.append([plain, hinted])
    cands.append([scope[0::2], scope[1::2]])
    cands.append([scope[0::3], scope[1::3], scope[2::3]])
    for blocks in cands:
        blocks = [b for b in blocks if b]
        if len(blocks) < 2:
            continue
        for perm in itertools.permutations(blocks):
            out.append([list(b) for b in perm])
    return out


def _cdxml_sequence_part(sub, part):
    import molli
    from molli.ftypes.cdxml import CDXMLFile

    root = Path(molli.__file__).resolve().parent / "files"
    modes = addressing_modes()
    for fname in part:
        path = [p for p in root.rglob("*.cdxml") if p.name == fname][0]
        with warnings.catch_warnings():
            warnings.simplefilter("ignore")
            f = CDXMLFile(path)
        jobs = [("label", k) for k in f.keys()]
        seen = set()
        for kind, k in jobs + [("fragment", i) for i in range(len(f.xfrags))]:

            def make(kind=kind, k=k):
                with warnings.catch_warnings():
                    warnings.simplefilter("ignore")
                    return f[k] if kind == "label" else f._parse_fragment(f.xfrags[k], name=f"fragment{k}")

            try:
                m0 = make()
                if kind == "label":
                    seen.add(id(f.xfrag_cache.get(k)))
                elif id(f.xfrags[k]) in seen:
                    continue
            except Exception:
                continue
            scope = [i for i, a in enumerate(m0.atoms) if int(a.element) in GROUP]
            hints = {i: a.attrib.get(HINT) for i, a in enumerate(m0.atoms)}
            if len(scope) < 2:
                continue
            base = _one_call_baseline(sub, make, True)
            seqs = []
            free = [i for i in scope if hints.get(i) is None]
            if free:
                seqs.append({"blocks": [free + free[: max(1, len(free) // 2)]], "final": "explicit", "shape": "explicit-list-with-repeats"})
            for blocks in cdxml_schemes(scope, hints):
                seqs.append({"blocks": blocks, "final": "explicit", "shape": "explicit-subsets"})
                if all(hints.get(i) is None for b in blocks[:-1] for i in b):
                    seqs.append({"blocks": blocks, "final": "default", "shape": "explicit-subsets-then-default-for-the-rest"})
            if not sub.thorough and len(scope) > 12:
                # large fragments: hinted/unhinted in both orders (explicit and default ending), even/odd once
                seqs = [q for q in seqs if len(q["blocks"]) == 2][:6]
            for n, seq in enumerate(seqs):
                seq["modes"] = [modes[(n + j) % len(modes)] for j in range(len(seq["blocks"]))]
                case = {"kind": "cdxml", "file": fname, "by": kind, "key": k, "sequence": seq}
                o = run_sequence(sub, make, case, base, True)
                sub.outcome(("cdxml-sequence", seq["shape"], o[0]))
                sub.nontrivial((fname, kind, k, repr(seq["blocks"])[:80], seq["final"]))
                sub.add_note("call_sequences_on_cdxml_fragments")
            if len(sub.samples) < 2 and seqs:
                sub.sample({"kind": "cdxml", "file": fname, "by": kind, "key": k, "sequence": {**seqs[0], "blocks": [b[:6] for b in seqs[0]["blocks"]]}})


# =================================================================================================
# whole molecules
# =================================================================================================
def _whole_one(ctx, load, case, keyclass):
    """a whole molecule as loaded, and again after the library / pickle round trips"""
    m = load()
    n_before = m.n_atoms
    o, base = run_one(ctx, m, case, whole=True, keyclass=keyclass)
    for kind in ("mlib", "clib", "pickle", "structure"):
        try:
            m2 = roundtrip(ctx.scratch, [load()], kind)[0]
        except Exception as e:
            ctx.add_note(f"whole_molecules_that_do_not_survive_{kind}")
            ctx.add_note(f"whole_molecules_that_do_not_survive_{kind}:{type(e).__name__}")
            continue
        ctx.count(transitions=2)
        o2, _ = run_one(ctx, m2, {**case, "rep": kind}, whole=True, keyclass=keyclass, variant=REP_CLASS[kind], baseline=base)
        ctx.outcome((case["kind"], kind, o2[0], m2.n_atoms - n_before))
    import molli as ml

    for kind in ("promolecule-all;kept", "promolecule-all;dropped", "connectivity-all;dropped"):
        m3 = load()
        w = (ml.Promolecule if kind.startswith("promolecule") else ml.Connectivity)(list(m3.atoms))
        if kind.endswith("dropped"):
            del w
        ctx.count(transitions=1)
        o3, _ = run_one(ctx, m3, {**case, "ownership": kind}, whole=True, keyclass=keyclass, variant=f"ownership[{own_class(kind)}]", baseline=base)
        w = None
        ctx.outcome((case["kind"], kind, o3[0], m3.n_atoms - n_before))
    return m, n_before, o


def whole_molecules(ctx):
    import molli
    from molli.ftypes.cdxml import CDXMLFile

    root = Path(molli.__file__).resolve().parent / "files"
    p = root / "hadd_test.mol2"
    case = {"kind": "file", "file": "hadd_test.mol2"}
    m, n_before, o = _whole_one(ctx, lambda: Molecule.load_mol2(p), case, "mol2")
    ctx.outcome(("file", o[0], len(o[1]) if o[0] == "ok" and o[1] else 0))
    ctx.nontrivial(("hadd_test.mol2",))
    ctx.sample({**case, "atoms_before": n_before, "atoms_after": m.n_atoms, "outcome": o[0]})
    nfr = 0
    for path in sorted(root.rglob("*.cdxml")):
        with warnings.catch_warnings():
            warnings.simplefilter("ignore")
            f = CDXMLFile(path)
        jobs = []
        for k in f.keys():
            jobs.append(("label", k))
        for i in range(len(f.xfrags)):
            jobs.append(("fragment", i))
        seen = set()
        for kind, k in jobs:

            def load(kind=kind, k=k):
                with warnings.catch_warnings():
                    warnings.simplefilter("ignore")
                    if kind == "label":
                        return f[k]
                    return f._parse_fragment(f.xfrags[k], name=f"fragment{k}")

            try:
                if kind == "label":
                    load()
                    seen.add(id(f.xfrag_cache.get(k)))
                else:
                    if id(f.xfrags[k]) in seen:
                        continue
                    load()
            except Exception:
                ctx.add_note("cdxml_fragments_that_do_not_parse")
                continue
            nfr += 1
            case = {"kind": "cdxml", "file": path.name, "by": kind, "key": k}
            m, n_before, o = _whole_one(ctx, load, case, "cdxml")
            ctx.outcome(("cdxml", o[0], (m.n_atoms - n_before)))
            if m.n_atoms > n_before:
                ctx.nontrivial((path.name, kind, k))
            if nfr % 40 == 1:
                ctx.sample({**case, "atoms_before": n_before, "atoms_after": m.n_atoms, "outcome": o[0]})
    ctx.note("cdxml_fragments_run", nfr)


def _whole_part(sub, _):
    whole_molecules(sub)


def _dispatch(sub, part):
    if part[0] == "whole":
        whole_molecules(sub)
    elif part[0] == "history":
        _history_part(sub, part[1])
    elif part[0] == "ownership":
        _ownership_part(sub, part[1])
    elif part[0] == "mol2-tokens":
        _mol2_token_part(sub, part[1])
    elif part[0] == "sequence":
        _sequence_part(sub, part[1])
    elif part[0] == "cdxml-sequence":
        _cdxml_sequence_part(sub, part[1])
    else:
        _grammar_part(sub, part[1])


def tables_vs_molli(ctx):
    """informative only: the expected values never come from molli's tables."""
    from molli.chem import Element
    from molli.chem.atom import VALENCE_ELECTRONS

    diffs = []
    for z, r in RCOV.items():
        try:
            mr = Element(z).cov_radius_1
        except Exception as e:  # pragma: no cover
            mr = repr(e)
        if mr != r:
            diffs.append(f"r_cov(Z={z}): harness {r} molli {mr}")
    for z, g in GROUP.items():
        if Element(z).group != g:
            diffs.append(f"group(Z={z}): harness {g} molli {Element(z).group}")
    for g, v in VALENCE_E.items():
        if VALENCE_ELECTRONS.get(g) != v:
            diffs.append(f"valence electrons(group {g}): harness {v} molli {VALENCE_ELECTRONS.get(g)}")
    ctx.note("table_discrepancies_harness_vs_molli", diffs)


def validate_poses(ctx, nm):
    """every generated environment must be non-degenerate for the neighbours that fix the direction."""
    for k in (1, 2, 3):
        for els in sorted({e for e, _ in nm[k]}):
            for pname in pose_menu(ctx, k):
                for seed_scale in (1.0, 1.04):
                    P = np.array([d * NBR_LEN[el] * seed_scale for el, d in zip(els, POSES[k][pname]) if el != "M"])
                    if len(P) == 0:
                        continue
                    if np.linalg.norm(P.mean(axis=0)) < 0.2:
                        raise HarnessError(f"degenerate pose {pname} for {els}: centroid at the centre")
                    if len(P) == 2 and np.linalg.norm(np.cross(unit(P[0]), unit(P[1]))) < 0.2:
                        raise HarnessError(f"degenerate pose {pname} for {els}: collinear")
                    if len(P) == 3:
                        n = unit(np.cross(P[1] - P[0], P[2] - P[0]))
                        if abs(n @ P[0]) < 0.2:
                            raise HarnessError(f"degenerate pose {pname} for {els}: centre in the neighbours' plane")


class _Launcher(Ctx):
    def __init__(self, *a, **k):
        super().__init__(*a, **k)
        self.buffer = []

    def merge(self, d):
        self.buffer.append(d)

    def __getstate__(self):
        return {"pid": self.pid, "tier": self.tier, "seed": self.seed, "level": self.level, "scratch": self.scratch, "deadline": self.deadline}

    def __setstate__(self, st):
        Ctx.__init__(self, st["pid"], st["tier"], st["seed"], st["level"], st["scratch"])
        self.deadline = st["deadline"]
        self.buffer = []


def run(ctx):
    ctx.rule = (
        "every environment of the grammar (centre x charge x spin x hint x neighbour elements x bond types x pose) and every "
        "bundled whole molecule, each through the real add_implicit_hydrogens (twice when hint-free); oracle = count formula "
        "of the property text with the harness's own valence/bond-order/radius tables + frame conditions; a case is "
        "non-trivial when at least one hydrogen is due at the centre (or a hint is present); whole molecules: when hydrogens were added"
    )
    ctx.assumptions += [
        "only the default call add_implicit_hydrogens() (all atoms) is judged; the count clause speaks about every atom of groups 13-16",
        "bond orders: single 1, double 2, triple 3, aromatic 1.5, fractional = its f_order, amide 1, unknown/ligand/dummy/not-connected/H-acceptor 0 (a dative bond does not use up the donor's valence), quadruple..sextuple 4..6, every other bond type 1 - the library's documented Bond.order table, written out in the harness",
        "removing the consumed hint key from an atom's attrib is not a change of the atom",
        "'away from the centroid of the existing neighbours': the neighbours are the bonded atoms that are not typed CoordinationCenter, whatever the bond type (a dative/ligand bond to a metal typed Regular counts, a CoordinationCenter attached by a single bond does not); when an atom has only CoordinationCenter neighbours, those (the routine's documented rule); in whole molecules the clause is applied only where the surroundings fix a direction (centroid >= 0.2 A from the atom; three neighbours: atom >= 0.2 A out of their plane)",
        "direction clause: every new hydrogen individually when the atom ends with <= 4 substituents; when a hint over-saturates the atom (neighbours + hydrogens > 4) the mean direction of its new hydrogens must point away",
        "covalent radii: Pyykko & Atsumi 2009 single-bond radii; 'at the sum of covalent radii' is judged to 1e-3 A (the precision of the structure file formats); deviations above 1e-6 A are counted in a note (the two-hydrogen branch uses 4-digit sin/cos constants: 5.6e-5 A)",
        "representations and histories: the expected counts are always computed from what the molecule object holds right before the call (bond type numbers, f_order, formal charge/spin, hint), the order of an int-typed bond being that of the enum member with the same value; a failure of a variant (plain numbers, library/pickle round trip, query+edit history) is reported under '<symptom family>@<variant class>' and only for what the same molecule built plainly does not show",
        "explicit-atom calls add_implicit_hydrogens(*atoms) are judged call by call: the named atoms receive their count (hint where present, else formula), every other atom nothing; atoms are named in the ways this tree accepts (probed; rejected ways are listed in the notes, not judged); a default call after explicit calls is judged only where the atoms completed before it never had a hint (the property grants idempotence to hint-free atoms only: an atom completed by a hint smaller than the formula value is topped up by a later default call, which the property does not forbid)",
        "ownership: wrapping the atoms in a second container, copying, joining etc. are pre-histories; the frame condition after the call is unchanged (old atom list + new hydrogens, no object twice, finite coordinates)",
        "every class that inherits the method is judged alike: Molecule, Molecule(mol), Structure(mol), a Structure built through the api, Structure/Molecule read from mol2 text - an exception escaping on one of them is a finding",
        "the atom type of an atom never enters its count (selection is by element group; atoms typed Dummy/AttachmentPoint/LonePair with a real element are completed like any other - the unchanged tree's rule)",
        "an argument list that names an atom twice completes it once; judged for atoms that never had a hint",
        "seeds turn every pose about the z axis (so that z-aligned poses stay z-aligned), change the centre position and bond lengths and rotate the alphabets",
    ]
    tables_vs_molli(ctx)
    heads = head_menu(ctx)
    nm = nbr_menu(ctx)
    validate_poses(ctx, nm)
    ncase = sum(len(nm[k]) * len(pose_menu(ctx, k)) for k in (0, 1, 2, 3))
    ctx.bound["heads(centre,charge,spin,hint)"] = len(heads)
    ctx.bound["neighbour_specs"] = {str(k): len(v) for k, v in nm.items()}
    ctx.bound["poses"] = {str(k): pose_menu(ctx, k) for k in (0, 1, 2, 3)}
    ctx.bound["environments"] = ncase * len(heads)
    ctx.bound["bond_types_of_3_neighbours"] = "full 5^3" if ctx.thorough else "pairwise covering array OA(25,3,5)"
    ctx.bound["representations"] = "every environment as enum members/symbols and as plain ints / atomic numbers / numpy integers; (as plain numbers: quick the first pose - two for one neighbour -, thorough the first two poses;) the first pose of every (selected head, neighbour spec) and every whole molecule also after a MoleculeLibrary and a ConformerLibrary write+read and after pickle"
    hheads, hspecs = history_bases(ctx)
    ctx.bound["history_bases"] = len(hheads) * len(hspecs)
    ctx.bound["history"] = "queries " + "/".join(QUERIES) + " x edits connect_like (4 retypings, 1 bond fewer), del_bond(+connect), btype/f_order/formal_charge/formal_spin assigned in place, hint added/removed"
    nparts = 64 if ctx.thorough else 24
    parts = [("whole", None)]
    # negative spins: the count depends on |spin| only; every centre x charge x {-1,-2} x every neighbour
    # specification, on the first pose(s)
    neg_heads = [(c, q, sp, None) for c in rot(CENTRES, ctx.seed) for q in CHARGES for sp in (-1, -2)]
    ctx.bound["negative_spin_heads"] = len(neg_heads)
    nn = 8
    for i in range(nn):
        hs = neg_heads[i::nn]
        if hs:
            parts.append(("grammar", (hs, nm, ctx.seed, 2 if ctx.thorough else 1)))
    # the centre's atom type: every member of the AtomType enumeration (read at run time: an alphabet,
    # not an expectation); the count is by element, charge, spin and bonds - the atom type never matters
    from molli.chem import AtomType as _AT

    atypes = sorted({int(x) for x in _AT})
    ctx.bound["centre_atom_types"] = atypes
    theads = [(c, q, sp, None, t) for t in atypes for c in rot(CENTRES, ctx.seed) for (q, sp) in (((0, 0), (1, 0), (-1, 1)) if ctx.thorough else ((0, 0),))]
    tnm = {0: [((), ())], 1: [(("C",), ("single",)), (("C",), ("double",)), (("H",), ("aromatic",))], 2: [(("C", "C"), ("single", "single")), (("C", "F"), ("aromatic", "single"))], 3: [(("C", "H", "F"), ("single", "single", "single"))]}
    for i in range(4):
        hs = theads[i::4]
        if hs:
            parts.append(("grammar", (hs, tnm, ctx.seed, 1 if not ctx.thorough else 2, "atom-type")))
    # four and five neighbours with hydrogens still due: order-0 bonds, or a hint; the centre listed
    # first and listed last
    o0 = [("C", "ligand"), ("Q", "ligand"), ("C", "dummy"), ("F", "not-connected")]
    mnm = {4: [], 5: []}
    for el, bt in o0:
        mnm[4].append((("C", "C", "C", el), ("single", "single", "single", bt)))
        mnm[4].append((("C", "H", el, "C"), ("single", "single", bt, "ligand")))
        mnm[5].append((("C", "C", "C", el, "C"), ("single", "single", "single", bt, "ligand")))
    mnm[4].append((("C", "C", "C", "C"), ("single", "single", "single", "single")))
    mnm[4].append((("C", "H", "F", "M"), ("single", "single", "single", "single")))
    mnm[5].append((("C", "C", "C", "C", "C"), ("single", "single", "single", "single", "dummy")))
    mheads = [(c, q, 0, None) for c in rot(CENTRES, ctx.seed) for q in (0, 1, -1)] + [(c, 0, 0, h) for c in rot(CENTRES, ctx.seed) for h in (1, 2)]
    for k in (4, 5):
        for els in sorted({e for e, _ in mnm[k]}):
            for pname in pose_menu(ctx, k):
                P = np.array([d * NBR_LEN[el] for el, d in zip(els, POSES[k][pname]) if el != "M"])
                if np.linalg.norm(P.mean(axis=0)) < 0.2:
                    raise HarnessError(f"degenerate pose {pname} for {els}")
    ctx.bound["four_and_five_neighbours"] = f"{len(mheads)} heads x {len(mnm[4]) + len(mnm[5])} neighbour specifications (three real + one or two order-0 bonded neighbours; four single bonds with a hint) x poses x centre listed first / last"
    for i in range(4):
        hs = mheads[i::4]
        if hs:
            parts.append(("grammar", (hs, mnm, ctx.seed, None, "many-neighbours", [{}, {"centre_last": True}])))
    from molli.chem import BondType as _BT
    from molli.chem.bond import MOL2_BOND_TYPE_MAP as _M2

    tnames = list(ALL_TYPE_NAMES)
    ctx.bound["bond_types_on_the_judged_atom"] = tnames
    bnm = {1: [((el,), (t,)) for t in tnames for el in ("C", "H")], 2: [(("C", "C"), ("single", t)) for t in tnames] + [(("C", "F"), (t, "aromatic")) for t in tnames]}
    bheads = [(c, q, 0, None) for c in rot(CENTRES, ctx.seed) for q in (0, 1, -1)]
    for i in range(4):
        hs = bheads[i::4]
        if hs:
            parts.append(("grammar", (hs, bnm, ctx.seed, 3 if ctx.thorough else 1, "bond-types")))
    parts.append(("mol2-tokens", (sorted(_M2.keys()), ctx.seed)))
    dheads, dnm = dative_menu(ctx)
    validate_poses(ctx, dnm)
    ctx.bound["atom_type_x_bond_type"] = f"{len(dheads)} heads x {sum(len(v) for v in dnm.values())} neighbour specifications with (Regular metal | CoordinationCenter | carbon) x (ligand | single) crossed, every pose"
    for i in range(4):
        hs = dheads[i::4]
        if hs:
            parts.append(("grammar", (hs, dnm, ctx.seed, None, "dative")))
    oheads, ospecs = ownership_bases(ctx)
    ctx.bound["ownership"] = f"{len(oheads) * len(ospecs)} environments x {len(OWN_KINDS)} ways in which the atoms are (or were) also held by another container / the molecule came into being; whole molecules x 3"
    for i in range(4):
        hs = oheads[i::4]
        if hs:
            parts.append(("ownership", (hs, ospecs, ctx.seed)))
    addressing_modes(ctx)
    senvs = sequence_envs(ctx)
    ctx.bound["call_sequences"] = f"{len(senvs)} environments with hints that differ from the formula value x (single-atom calls, every ordered partition of the atoms into 2..3 explicit calls, the last block also through a default call); every CDXML fragment x hinted/unhinted, even/odd, mod-3 partitions in every order"
    ns = 8
    for i in range(ns):
        es = senvs[i::ns]
        if es:
            parts.append(("sequence", (es, ctx.seed)))
    import molli as _ml

    for p in sorted((Path(_ml.__file__).resolve().parent / "files").rglob("*.cdxml")):
        parts.append(("cdxml-sequence", [p.name]))
    nh = 16 if ctx.thorough else 8
    for i in range(nh):
        hs = hheads[i::nh]
        if hs:
            parts.append(("history", (hs, hspecs, ctx.seed)))
    for i in range(nparts):
        hs = heads[i::nparts]
        if hs:
            parts.append(("grammar", (hs, nm, ctx.seed)))
    # longest parts first (the partition only changes wall time)
    weight = {"grammar": 0, "whole": 1, "cdxml-sequence": 2, "history": 3, "sequence": 4, "ownership": 5, "mol2-tokens": 6}
    parts.sort(key=lambda p: (1 if (p[0] == "grammar" and len(p[1]) > 3) else weight[p[0]]))  # short grammar parts (negative spins, dative) after the long ones
    # core.Ctx.pmap pickles the parent context with every job while the main thread merges finished
    # parts into it; with many parts that races ("set changed size during iteration").  The jobs are
    # therefore launched from a context that pickles to its identity only and buffers the results.
    launcher = _Launcher(ctx.pid, ctx.tier, ctx.seed, ctx.level, ctx.scratch)
    launcher.deadline = ctx.deadline
    launcher.pmap(_dispatch, parts, nproc=int(os.environ.get("VERIF_NPROC", "0")) or min(16, os.cpu_count() or 1))
    for d in launcher.buffer:
        ctx.merge(d)


def replay(ctx, case):
    kind = case.get("kind")
    rep = case.get("rep", "members")
    variant = None
    if case.get("history"):
        variant = f"history[{case['history']['query']};{case['history']['edit'][0]}]"
    elif rep != "members":
        variant = REP_CLASS[rep]
    def members_baseline(mol, whole, keyclass=None):
        # a representation variant is judged against the same molecule as first built / loaded
        if rep == "members" or case.get("history"):
            return None
        b, _, _ = evaluate(ctx, mol, whole=whole, second=False, keyclass=keyclass, count=False)
        return {x for x, _ in b}

    if case.get("sequence"):
        addressing_modes()
        if kind == "environment":
            c = {**case, "nbrs": [tuple(x) for x in case["nbrs"]]}
            make = lambda: build(c, ctx.seed)
            run_sequence(ctx, make, case, _one_call_baseline(ctx, make, False), False)
        else:
            import molli
            from molli.ftypes.cdxml import CDXMLFile

            p = [q for q in (Path(molli.__file__).resolve().parent / "files").rglob("*.cdxml") if q.name == case["file"]][0]
            with warnings.catch_warnings():
                warnings.simplefilter("ignore")
                f = CDXMLFile(p)

            def make():
                with warnings.catch_warnings():
                    warnings.simplefilter("ignore")
                    return f[case["key"]] if case["by"] == "label" else f._parse_fragment(f.xfrags[case["key"]], name=f"fragment{case['key']}")

            run_sequence(ctx, make, case, _one_call_baseline(ctx, make, True), True)
        return
    if case.get("ownership") and kind == "environment":
        c = {**case, "nbrs": [tuple(x) for x in case["nbrs"]]}
        m = apply_ownership(build(c, ctx.seed), c, case["ownership"])
        run_one(ctx, m, case, whole=True, variant=f"ownership[{own_class(case['ownership'])}]", baseline=None)
        del KEEP[:]
        return
    if kind == "environment":
        base = members_baseline(materialise({**case, "rep": "members"}, ctx.seed, ctx.scratch), False)
        m = materialise(case, ctx.seed, ctx.scratch)
        hist = bool(case.get("history"))
        run_one(ctx, m, case, whole=hist, second=rep == "members" and not hist, variant=variant, baseline=base)
        return
    if kind == "mol2-text":
        run_one(ctx, load_mol2_env(case), case, whole=True, keyclass="mol2-text")
        return
    import molli

    root = Path(molli.__file__).resolve().parent / "files"
    if kind == "file":
        m = Molecule.load_mol2(root / case["file"])
        keyclass = "mol2"
    elif kind == "cdxml":
        from molli.ftypes.cdxml import CDXMLFile

        p = [q for q in root.rglob("*.cdxml") if q.name == case["file"]][0]
        with warnings.catch_warnings():
            warnings.simplefilter("ignore")
            f = CDXMLFile(p)
            m = f[case["key"]] if case["by"] == "label" else f._parse_fragment(f.xfrags[case["key"]], name=f"fragment{case['key']}")
        keyclass = "cdxml"
    else:
        raise HarnessError(f"unknown case kind {kind!r}")
    base = None
    w = None
    if case.get("ownership"):
        import molli as ml

        okind = case["ownership"]
        b, _, _ = evaluate(ctx, roundtrip(ctx.scratch, [m], "pickle")[0], whole=True, second=False, keyclass=keyclass, count=False)
        base = {x for x, _ in b}
        w = (ml.Promolecule if okind.startswith("promolecule") else ml.Connectivity)(list(m.atoms))
        if okind.endswith("dropped"):
            w = None
        variant = f"ownership[{own_class(okind)}]"
    elif rep != "members":
        m2 = roundtrip(ctx.scratch, [m], rep)[0]
        base = members_baseline(m, True, keyclass)
        m = m2
    run_one(ctx, m, case, whole=True, keyclass=keyclass, variant=variant, baseline=base)
