"""
C19, history dimension: 2..3 calls on the SAME object (ensemble, single geometry, grid array, kernel
input array) with an in-place edit between the calls.  Every result is compared with the float64
definition evaluated on the object's CURRENT state (read back from the object after the edit), so a
result remembered from an earlier state (a per-object cache, a buffer keyed by id()/address) shows.

Operation names are `<function>:history[<edit>]`; the symptom is `stale-result` when the returned
values are exactly what the definition gives with ONE component (radii, coordinates, charges,
weights, grid, number of conformers/atoms) taken from an earlier state of the same object - the edit
named is then the one that changed that component - and `wrong-value` otherwise.
"""
from __future__ import annotations

import zlib

import numpy as np

import molli as ml
import molli_xt
from molli.descriptor import gridbased as gb

from mc.props.c19 import (
    ALPHABET,
    BAND,
    DTYPES,
    EPS,
    NAME_RE,
    ULPS,
    SrcKernels,
    check_nearest,
    dist_all,
    lay2,
    lay3,
    make_ens,
    make_struct,
    offset,
    point_table,
    ref_dist,
    ref_indicator,
    so_names,
    window,
)

ENS_FUNCS = ("aso", "aeif", "atomic_indicator_field", "nearest_atom_index", "prune")
GEOM_FUNCS = ("nearest_atom_index", "prune")
ENS_EDITS = (
    "element-changed-in-place",
    "coords-changed-in-place",
    "charges-changed-in-place",
    "weights-changed",
    "conformer-appended",
    "conformers-extended",
    "scaled",
    "translated",
    "grid-mutated-in-place",
)
GEOM_EDITS = ("element-changed-in-place", "coords-changed-in-place", "atom-deleted", "atom-added", "scaled", "translated", "grid-mutated-in-place")
MD_SEQ = (1.0, 2.0, 0.5)  # the cut-off differs from call to call
COMPONENTS = ("radii", "coords", "charges", "weights", "grid")


# =================================================================================================
# state of the object as the definition needs it
# =================================================================================================
def read_state(obj, is_ens, grid):
    atoms = list(obj.atoms)
    st = {"radii": np.array([a.vdw_radius for a in atoms], dtype=np.float64), "grid": np.array(grid, dtype=np.float64), "gdtype": grid.dtype.name}
    if is_ens:
        st["coords"] = np.array(obj.coords, dtype=np.float64)
        st["charges"] = np.array(obj.atomic_charges, dtype=np.float64)
        st["weights"] = np.array(obj.weights, dtype=np.float64)
    else:
        st["coords"] = np.array(obj.coords, dtype=np.float64)[None]
        st["charges"] = np.zeros(st["coords"].shape[:2])
        st["weights"] = np.ones(1)
    return st


def consistent(st):
    c = st["coords"]
    return (
        c.ndim == 3
        and c.shape[2] == 3
        and c.shape[0] >= 1
        and c.shape[1] >= 1
        and st["radii"].shape == (c.shape[1],)
        and st["charges"].shape == c.shape[:2]
        and st["weights"].shape == (c.shape[0],)
        and np.isfinite(c).all()
        and np.isfinite(st["radii"]).all()
        and np.isfinite(st["charges"]).all()
        and np.isfinite(st["weights"]).all()
        and float(st["weights"].sum()) != 0.0
    )


def custom_args(st):
    nc, na = st["coords"].shape[:2]
    r = np.array([0.9, 2.05, 1.3, 1.6, 1.1, 1.45][:na])
    v = np.array([[1.0 + a + 10.0 * c for a in range(na)] for c in range(nc)])
    return v, r


# =================================================================================================
# one call and its judgement against a state
# =================================================================================================
def do_call(fn, obj, grid, st, step, weighted):
    md = MD_SEQ[step % len(MD_SEQ)]
    if fn == "aso":
        return gb.aso(obj, grid, weighted=weighted)
    if fn == "aeif":
        return gb.aeif(obj, grid, weighted=weighted)
    if fn == "atomic_indicator_field":
        v, r = custom_args(st)
        return gb.atomic_indicator_field(obj, grid, v, r, weighted=weighted)
    if fn == "nearest_atom_index":
        return gb.nearest_atom_index(grid, obj, max_dist=md)
    if fn == "prune":
        return gb.prune(grid, obj, max_dist=md, eps=0.5)
    raise ValueError(fn)


def call_line(fn, step, weighted):
    md = MD_SEQ[step % len(MD_SEQ)]
    return {
        "aso": f"print(gb.aso(obj, grid, weighted={weighted}))",
        "aeif": f"print(gb.aeif(obj, grid, weighted={weighted}))",
        "atomic_indicator_field": f"print(gb.atomic_indicator_field(obj, grid, np.array([[1.0 + a + 10.0 * c for a in range(obj.n_atoms)] for c in range(obj.n_conformers)]), np.array([0.9, 2.05, 1.3, 1.6, 1.1, 1.45][:obj.n_atoms]), weighted={weighted}))",
        "nearest_atom_index": f"print(gb.nearest_atom_index(grid, obj, max_dist={md}))",
        "prune": f"print(gb.prune(grid, obj, max_dist={md}, eps=0.5))",
    }[fn]


def judge(fn, got, st, is_ens, step, weighted):
    """-> None when `got` is what the definition gives on state st, else a short description"""
    coords, grid = st["coords"], st["grid"]
    M = max(1.0, float(np.abs(coords).max()), float(np.abs(grid).max(initial=0.0)))
    band = BAND * M
    d = dist_all(coords, grid)
    md = MD_SEQ[step % len(MD_SEQ)]
    if fn in ("aso", "aeif", "atomic_indicator_field"):
        if fn == "aso":
            vals, radii = None, st["radii"]
        elif fn == "aeif":
            vals, radii = st["charges"], st["radii"]
        else:
            vals, radii = custom_args(st)
        exp, ok = ref_indicator(d, radii, vals, st["weights"] if weighted else None, band)
        if not isinstance(got, np.ndarray) or got.shape != exp.shape or got.dtype.kind != "f":
            return f"returned {type(got).__name__} {getattr(got, 'shape', None)}, expected one float per grid point ({exp.shape})"
        err = np.abs(got.astype(np.float64) - exp)
        bad = ok & ~(err <= 1e-9 * max(1.0, float(np.abs(exp).max(initial=0.0))))
        if bad.any():
            g = int(np.argmax(bad))
            return f"grid point {g} {grid[g].tolist()}: returned {got[g]!r}, the definition on the current state gives {exp[g]!r}"
        return None
    if fn == "nearest_atom_index":
        if is_ens:
            if not isinstance(got, np.ndarray) or got.shape != (coords.shape[0], len(grid)):
                return f"returned shape {getattr(got, 'shape', None)}, expected {(coords.shape[0], len(grid))}"
            for c in range(coords.shape[0]):
                sym, det, _ = check_nearest(got[c], d[c], md, band)
                if sym:
                    return f"conformer {c}: {det}"
            return None
        sym, det, _ = check_nearest(got, d[0], md, band)
        return det if sym else None
    if fn == "prune":
        if not isinstance(got, np.ndarray) or got.ndim != 1 or got.dtype.kind not in "iu" or (got.size and (got.min() < 0 or got.max() >= len(grid))):
            return f"returned {type(got).__name__} {getattr(got, 'shape', None)} {getattr(got, 'dtype', None)}"
        dmin = d.min(axis=(0, 1))
        kept = set(int(x) for x in got)
        far = [g for g in sorted(kept) if dmin[g] > md + band]
        inner = md / 1.5
        lost = [g for g in range(len(grid)) if dmin[g] < inner - band and g not in kept]
        if far:
            return f"kept grid point {far[0]} whose closest atom is at {dmin[far[0]]:.6g} > {md}"
        if lost:
            return f"dropped grid point {lost[0]} whose closest atom is at {dmin[lost[0]]:.6g} < {md}/1.5"
        return None
    raise ValueError(fn)


# =================================================================================================
# in-place edits
# =================================================================================================
def apply_edit(obj, is_ens, edit, k, grid, seed):
    """-> python source line(s) of the edit (for the repro)"""
    na = obj.n_atoms
    off = offset(seed)
    if edit == "element-changed-in-place":
        a = obj.atoms[k % na]
        new = "Br" if a.element != ml.Element.Br else "H"
        a.element = ml.Element[new]
        return f"obj.atoms[{k % na}].element = ml.Element.{new}"
    if edit == "coords-changed-in-place":
        if is_ens:
            obj.coords[0, k % na] += np.array([0.5, -0.25, 0.75])
            return f"obj.coords[0, {k % na}] += np.array([0.5, -0.25, 0.75])"
        obj.coords[k % na] += np.array([0.5, -0.25, 0.75])
        return f"obj.coords[{k % na}] += np.array([0.5, -0.25, 0.75])"
    if edit == "charges-changed-in-place":
        obj.atomic_charges[:, k % na] += 1.0
        return f"obj.atomic_charges[:, {k % na}] += 1.0"
    if edit == "weights-changed":
        nc = obj.n_conformers
        w = [([3.0, 1.0, 0.25, 2.0, 0.5, 1.5, 4.0, 0.75] * 2)[(i + k) % 8] for i in range(nc)]
        obj.weights = w
        return f"obj.weights = {w!r}"
    if edit in ("conformer-appended", "conformers-extended"):
        base = np.array(obj.coords[0], dtype=np.float64)
        if edit == "conformer-appended":
            c = (base + np.array([1.0, 0.5, -0.75])).tolist()
            obj.append(ml.CartesianGeometry(n_atoms=na, coords=np.array(c)))
            return f"obj.append(ml.CartesianGeometry(n_atoms={na}, coords=np.array({c!r})))"
        c1 = (base + np.array([-0.5, 1.25, 0.25])).tolist()
        c2 = (base[::-1] + np.array([0.75, 0.0, -1.0])).tolist()
        obj.extend([ml.Molecule(n_atoms=na, coords=np.array(c1)), ml.Molecule(n_atoms=na, coords=np.array(c2))])
        return f"obj.extend([ml.Molecule(n_atoms={na}, coords=np.array({c1!r})), ml.Molecule(n_atoms={na}, coords=np.array({c2!r}))])"
    if edit == "scaled":
        obj.scale(2.0)
        return "obj.scale(2.0)"
    if edit == "translated":
        obj.translate([0.5, -0.25, 1.0])
        return "obj.translate([0.5, -0.25, 1.0])"
    if edit == "grid-mutated-in-place":
        grid += np.array([0.25, -0.5, 0.75], dtype=grid.dtype)
        return "grid += np.array([0.25, -0.5, 0.75], dtype=grid.dtype)"
    if edit == "atom-deleted":
        obj.del_atom(k % na)
        return f"obj.del_atom({k % na})"
    if edit == "atom-added":
        p = (np.array([0.25, 0.5, -0.75]) + off).tolist()
        obj.add_atom(ml.Atom("Cl"), p)
        return f"obj.add_atom(ml.Atom('Cl'), {p!r})"
    raise ValueError(edit)


COMPONENT_OF_LABEL = {"radii": "element-changed-in-place", "charges": "charges-changed-in-place", "weights": "weights-changed", "grid": "grid-mutated-in-place"}


def explain_stale(fn, got, states, edits_done, is_ens, step, weighted):
    """is `got` the definition's value with ONE component taken from an earlier state of the object?
    -> (edit that changed that component, description) or None"""
    cur = states[-1]
    # first: the current state with exactly one component as it was earlier; last: a whole earlier state
    # (covers a changed number of conformers / atoms)
    cands = []
    for j in range(len(states) - 2, -1, -1):
        prev = states[j]
        for c in COMPONENTS:
            if prev[c].shape == cur[c].shape and not np.array_equal(prev[c], cur[c]):
                h = dict(cur)
                h[c] = prev[c]
                cands.append((c, j, h))
    for j in range(len(states) - 2, -1, -1):
        cands.append(("all", j, states[j]))
    for c, j, h in cands:
        if not consistent(h):
            continue
        try:
            verdict = judge(fn, got, h, is_ens, step, weighted)
        except Exception:
            continue
        if verdict is None:
            later = edits_done[j:]
            if c == "all":
                label = later[-1] if len(later) == 1 else "+".join(later)
            elif c == "coords":
                geo = [e for e in later if e in ("coords-changed-in-place", "scaled", "translated")]
                label = geo[-1] if geo else later[-1]
            else:
                label = COMPONENT_OF_LABEL[c] if COMPONENT_OF_LABEL[c] in later else later[-1]
            what = "the whole state" if c == "all" else c
            return label, f"the result is what the definition gives with {what} as it was {len(later)} edit(s) ago"
    return None


# =================================================================================================
# one sequence
# =================================================================================================
def build_object(kind, els, coords, charges, weights):
    if kind == "ensemble":
        return make_ens(els, coords, charges, weights), True
    return make_struct(kind, els, coords[0]), False


def repro_head(kind, els, coords, charges, weights, grid):
    s = "import numpy as np, molli as ml\nfrom molli.descriptor import gridbased as gb\n"
    if kind == "ensemble":
        s += f"obj = ml.ConformerEnsemble(n_conformers={coords.shape[0]}, n_atoms={coords.shape[1]}, coords=np.array({coords.tolist()!r}), weights={list(map(float, weights))!r}, atomic_charges={np.asarray(charges).tolist()!r})\n"
    else:
        s += f"obj = ml.{kind}(n_atoms={coords.shape[1]}, coords=np.array({coords[0].tolist()!r}))\n"
    s += f"for a, e in zip(obj.atoms, {list(els)!r}): a.element = ml.Element[e]\n"
    s += f"grid = np.array({np.asarray(grid).tolist()!r}, dtype=np.{grid.dtype.name})\n"
    return s


def run_sequence(ctx, agg, kind, label, els, coords, charges, weights, grid0, funcs, edits, weighted, seed):
    """funcs: (f1, f2[, f3]); edits: (e1[, e2]) applied between the calls"""
    obj, is_ens = build_object(kind, els, coords, charges, weights)
    grid = np.array(grid0, copy=True)
    lines = []
    states = []
    edits_done = []
    ctx.count(states=1)
    two = len(funcs) == 2
    for step, fn in enumerate(funcs):
        if step > 0:
            edit = edits[step - 1]
            try:
                lines.append(apply_edit(obj, is_ens, edit, step - 1 + (seed % 3), grid, seed))
            except Exception as e:
                ctx.add_note(f"history_sequences_stopped_edit_raised[{edit}:{type(e).__name__}]", 1)
                return
            edits_done.append(edit)
            ctx.count(transitions=1)
        st = read_state(obj, is_ens, grid)
        if not consistent(st):
            # the edit left the object in a state the definition cannot be evaluated on (not a C19 matter)
            ctx.add_note("history_sequences_stopped_inconsistent_object_state", 1)
            return
        states.append(st)
        op = f"{fn}:history[{edits_done[-1] if edits_done else 'fresh-object'}]"
        attrs = {"input": kind}
        if two and step == 1:
            attrs["after"] = funcs[0]
        agg.tick(op, **attrs)
        ctx.count(evaluations=1, traces=1, transitions=1)
        lines.append(call_line(fn, step, weighted))
        sym = det = None
        try:
            got = do_call(fn, obj, grid, st, step, weighted)
        except Exception as e:
            sym, det = f"raised-{type(e).__name__}", f"raised {type(e).__name__}: {e}"
        else:
            det = judge(fn, got, st, is_ens, step, weighted)
            after = read_state(obj, is_ens, grid)
            touched = [c for c in COMPONENTS if not (after[c].shape == st[c].shape and np.array_equal(after[c], st[c]))] + ([] if after["gdtype"] == st["gdtype"] else ["grid-dtype"])
            if touched:
                sym, det = f"caller-input-mutated[{'+'.join(touched)}]", f"the call changed the caller's {', '.join(touched)}"
            elif det is not None:
                sym = "wrong-value"
                ex = explain_stale(fn, got, states, edits_done, is_ens, step, weighted) if edits_done else None
                if ex is not None:
                    sym = "stale-result"
                    op = f"{fn}:history[{ex[0]}]"
                    det = f"{det}; {ex[1]}"
        if sym:
            case = {
                "kind": "history", "op": op, "symptom": sym, "obj": kind, "label": label, "els": list(els), "coords": coords.tolist(), "charges": np.asarray(charges).tolist(),
                "weights": np.asarray(weights).tolist(), "grid": np.asarray(grid0).tolist(), "gdtype": grid0.dtype.name, "funcs": list(funcs), "edits": list(edits), "weighted": weighted, "seed": seed,
            }  # fmt: skip
            seq = " -> ".join([funcs[0]] + [f"[{e}] -> {f}" for e, f in zip(edits, funcs[1:])][: step])
            agg.fail(op, sym, attrs, f"call {step + 1} of {seq} on one {kind} ({label} {''.join(els)}): {det}", case, repro_head(kind, els, coords, charges, weights, grid0) + "\n".join(lines))
            return  # do not explore further from a violating step
        if step > 0:
            ctx.nontrivial((fn, edits_done[-1], kind, funcs[0] if two else "3"))
        ctx.outcome(("h", fn, zlib.crc32(np.round(np.asarray(got, dtype=np.float64), 9).tobytes()) % 1024))


def history_bases(seed, thorough):
    table = point_table(seed, 12)
    shapes = [(1, 2), (2, 2), (3, 3), (2, 1), (1, 3), (3, 2)]
    out = []
    for i, (nc, na) in enumerate(shapes):
        for st in (0, 7) if thorough else (0,):
            idx = [[(st + 2 * i + c * 5 + a * (c + 1)) % 12 for a in range(na)] for c in range(nc)]
            if any(len(set(r)) != na for r in idx):
                idx = [[(st + i + c * 3 + a) % 12 for a in range(na)] for c in range(nc)]
            coords = table[np.array(idx)]
            els = tuple(("H", "C", "Cl", "O")[(i + a + seed) % 4] for a in range(na))
            charges = np.array([[(-1) ** (a + c) * 0.25 * (a + 1) + 0.125 * c for a in range(na)] for c in range(nc)])
            weights = np.array([1.0, 2.0, 0.5][:nc])
            out.append((f"ens{nc}x{na}", els, coords, charges, weights))
    return out


def history_grid(seed):
    # every second point of the atoms' alphabet (32 points), float32: exact under the in-place shift
    return (ALPHABET[::2] + offset(seed)).astype(np.float32)


def descriptor_history_job(ctx, agg, arg):
    seed, thorough, part = arg["seed"], arg["thorough"], arg["part"]
    bases = history_bases(seed, thorough)
    grid0 = history_grid(seed)
    if part == "ens2":
        # every ordered pair of functions x every edit, on the same ensemble
        sel = bases[arg["lo"] : arg["hi"]]
        for bi, (label, els, coords, charges, weights) in enumerate(sel):
            for weighted in (True, False) if (thorough or arg["lo"] + bi < 2) else (True,):
                for f1 in ENS_FUNCS:
                    for e in ENS_EDITS:
                        for f2 in ENS_FUNCS:
                            run_sequence(ctx, agg, "ensemble", label, els, coords, charges, weights, grid0, (f1, f2), (e,), weighted, seed)
    elif part == "ens3":
        f3 = ("aso", "aeif", "nearest_atom_index") if not thorough else ENS_FUNCS
        e3 = ("element-changed-in-place", "coords-changed-in-place", "charges-changed-in-place", "weights-changed", "conformer-appended", "grid-mutated-in-place")
        for label, els, coords, charges, weights in bases[arg["lo"] : arg["hi"]]:
            for fa in f3:
                for ea in e3:
                    for fb in f3:
                        for eb in e3:
                            for fc in f3:
                                run_sequence(ctx, agg, "ensemble", label, els, coords, charges, weights, grid0, (fa, fb, fc), (ea, eb), True, seed)
    elif part == "geom":
        for label, els, coords, charges, weights in bases:
            if coords.shape[0] != 1 and not thorough:
                continue
            c1 = coords[:1]
            for kind in ("Molecule", "CartesianGeometry", "Structure"):
                for f1 in GEOM_FUNCS:
                    for e in GEOM_EDITS:
                        if e == "atom-deleted" and c1.shape[1] == 1:
                            continue
                        for f2 in GEOM_FUNCS:
                            run_sequence(ctx, agg, kind, label, els, c1, np.zeros((1, c1.shape[1])), np.ones(1), grid0, (f1, f2), (e,), False, seed)
                # three calls: delete, then add
                if c1.shape[1] > 1:
                    for fa in GEOM_FUNCS:
                        for fb in GEOM_FUNCS:
                            for fc in GEOM_FUNCS:
                                for ea, eb in (("atom-deleted", "atom-added"), ("atom-added", "element-changed-in-place"), ("coords-changed-in-place", "atom-deleted")):
                                    run_sequence(ctx, agg, kind, label, els, c1, np.zeros((1, c1.shape[1])), np.ones(1), grid0, (fa, fb, fc), (ea, eb), False, seed)


# =================================================================================================
# argument kinds and repeated calls
# =================================================================================================
GRID_KINDS = ("float32-C", "float64-C", "float32-non-contiguous", "float64-Fortran", "float32-read-only", "float64-read-only")


def make_grid(kind, seed):
    base = history_grid(seed)
    dt = np.float32 if kind.startswith("float32") else np.float64
    if kind.endswith("-C"):
        return np.ascontiguousarray(base.astype(dt)), f"np.ascontiguousarray(G.astype(np.{np.dtype(dt).name}))"
    if kind.endswith("non-contiguous"):
        big = np.full((2 * len(base), 3), 77, dtype=dt)
        big[::2] = base
        return big[::2], f"np.repeat(G.astype(np.{np.dtype(dt).name}), 2, axis=0)[::2]"
    if kind.endswith("Fortran"):
        return np.asfortranarray(base.astype(dt)), f"np.asfortranarray(G.astype(np.{np.dtype(dt).name}))"
    g = np.ascontiguousarray(base.astype(dt))
    g.setflags(write=False)
    return g, f"_ro(G.astype(np.{np.dtype(dt).name}))"


def argkind_case(ctx, agg, kind, label, els, coords, charges, weights, fn, gkind, weighted, seed, aux_readonly):
    """one call with the grid (and, for the field functions, the value/radius/index arrays) handed in as `gkind`;
    oracle: the definition, every caller-owned array bit-identical afterwards, and the same call again gives the same result"""
    from mc.props.c19 import snapshot, same_as_snapshot, same_result

    obj, is_ens = build_object(kind, els, coords, charges, weights)
    grid, gsrc = make_grid(gkind, seed)
    st = read_state(obj, is_ens, grid)
    op = fn
    # aux_readonly: None = the function builds its own nearest-atom table; False / True = the caller hands in a
    # writable / read-only table (and read-only value and radius arrays)
    attrs = {"argkind": gkind, "aux": {None: "none", False: "caller-writable", True: "caller-read-only"}[aux_readonly]}
    agg.tick(op, **attrs)
    ctx.count(states=1, evaluations=2, traces=2, transitions=2)
    aux = {}
    if fn == "atomic_indicator_field":
        v, r = custom_args(st)
        aux = {"indicator_values": v, "atomic_radii": r}
    if fn in ("aeif", "atomic_indicator_field") and aux_readonly is not None:
        d = dist_all(st["coords"], st["grid"])
        near = d.argmin(axis=1).astype(np.int64)  # the caller's own nearest-atom table
        aux["nearest_atom_idx"] = near
    if aux_readonly:
        for a in aux.values():
            a.setflags(write=False)

    def call():
        obj, grid, aux = H["obj"], H["grid"], H["aux"]
        if fn == "aso":
            return gb.aso(obj, grid, weighted=weighted)
        if fn == "aeif":
            return gb.aeif(obj, grid, weighted=weighted, **({"nearest_atom_idx": aux["nearest_atom_idx"]} if "nearest_atom_idx" in aux else {}))
        if fn == "atomic_indicator_field":
            return gb.atomic_indicator_field(obj, grid, aux["indicator_values"], aux["atomic_radii"], weighted=weighted, **({"nearest_atom_idx": aux["nearest_atom_idx"]} if "nearest_atom_idx" in aux else {}))
        if fn == "nearest_atom_index":
            return gb.nearest_atom_index(grid, obj, max_dist=MD_SEQ[0])
        return gb.prune(grid, obj, max_dist=MD_SEQ[0], eps=0.5)

    H = {"obj": obj, "grid": grid, "aux": aux}
    snaps = {"grid": snapshot(grid), **{k: snapshot(a) for k, a in aux.items()}}
    objs = {"grid": grid, **aux}
    sym = det = None
    try:
        got = call()
    except Exception as e:
        sym, det = f"raised-{type(e).__name__}", f"raised {type(e).__name__}: {e}"
    else:
        changed = [k for k in objs if not same_as_snapshot(objs[k], snaps[k])]
        after = read_state(obj, is_ens, grid)
        changed += [c for c in ("coords", "charges", "weights", "radii") if not np.array_equal(after[c], st[c])]
        if changed:
            sym, det = f"caller-input-mutated[{'+'.join(changed)}]", f"the call changed the caller's {', '.join(changed)}"
        else:
            det = judge(fn, got, st, is_ens, 0, weighted)
            if det is not None:
                sym = "wrong-value"
            else:
                # the result belongs to the caller: it is changed in place, then the same call is made again with the same
                # objects, and an equal call with freshly built equal objects
                from mc.props.c19 import owned_verdict, scribble

                snap = got.copy() if isinstance(got, np.ndarray) else got
                scribble(got)
                try:
                    again = call()
                except Exception as e:
                    sym, det = f"repeated-call-raised-{type(e).__name__}", f"the second identical call raised {type(e).__name__}: {e}"
                else:
                    sym, det = owned_verdict(got, snap, again, "the same call on the same caller objects")
                if not sym:
                    scribble(again)
                    obj2, _ = build_object(kind, els, coords, charges, weights)
                    grid2, _ = make_grid(gkind, seed)
                    aux2 = {k: np.array(a) for k, a in aux.items()}
                    H.update(obj=obj2, grid=grid2, aux=aux2)  # call() reads these
                    try:
                        third = call()
                    except Exception as e:
                        sym, det = f"repeated-call-raised-{type(e).__name__}", f"an equal call on equal, freshly built objects raised {type(e).__name__}: {e}"
                    else:
                        sym, det = owned_verdict(got, snap, third, "an equal call on equal, freshly built objects")
                got = snap
    if sym:
        case = {"kind": "argkind", "op": op, "symptom": sym, "obj": kind, "label": label, "els": list(els), "coords": coords.tolist(), "charges": np.asarray(charges).tolist(), "weights": np.asarray(weights).tolist(),
                "fn": fn, "gkind": gkind, "weighted": weighted, "seed": seed, "aux_readonly": aux_readonly}  # fmt: skip
        repro = repro_head(kind, els, coords, charges, weights, history_grid(seed)).replace("grid = np.array(", "G = np.array(") + "def _ro(a):\n    a = np.ascontiguousarray(a); a.setflags(write=False); return a\n" + f"grid = {gsrc}\n" + call_line(fn, 0, weighted) + "\n" + call_line(fn, 0, weighted)
        agg.fail(op, sym, attrs, f"{fn}({label} {''.join(els)}, grid handed in as {gkind}{'' if aux_readonly is None else (', own read-only value/radius/index arrays' if aux_readonly else ', own nearest-atom table')}, weighted={weighted}): {det}", case, repro)
        return
    ctx.nontrivial(("ak", fn, gkind, aux_readonly, label))
    ctx.outcome(("ak", fn, zlib.crc32(np.round(np.asarray(got, dtype=np.float64), 9).tobytes()) % 1024))


# =================================================================================================
# caller-supplied nearest-atom tables with -1 entries
# =================================================================================================
TABLE_CUTOFFS = ("all-minus-one", "tiny", "below-largest-radius", "at-largest-radius", "above-largest-radius")


def table_case(ctx, agg, label, els, coords, charges, weights, fn, cutoff_kind, weighted, seed):
    """aeif / atomic_indicator_field with the caller's own nearest_atom_idx table computed with the given cut-off.
    Definition per conformer and grid point: value of the table's atom when the table entry is >= 0 and the point lies
    inside some sphere, otherwise 0 (-1 means 'no atom', never 'the last atom')."""
    obj, _ = build_object("ensemble", els, coords, charges, weights)
    grid = history_grid(seed)
    st = read_state(obj, True, grid)
    d = dist_all(st["coords"], st["grid"])  # nc, na, ng
    nc, na, ng = d.shape
    if fn == "aeif":
        vals, radii = st["charges"], st["radii"]
    else:
        vals, radii = custom_args(st)
    rmax = float(np.max(radii))
    cut = {"all-minus-one": -1.0, "tiny": 0.3, "below-largest-radius": 1.2 if rmax > 1.2 else 0.75 * rmax, "at-largest-radius": rmax, "above-largest-radius": rmax + 0.75}[cutoff_kind]
    dmin = d.min(axis=1)
    table = np.where(dmin <= cut, d.argmin(axis=1), -1).astype(np.int64)
    op = fn
    attrs = {"table": cutoff_kind}
    agg.tick(op, **attrs)
    ctx.count(states=1, evaluations=1, traces=1, transitions=1)
    M = max(1.0, float(np.abs(st["coords"]).max()), float(np.abs(grid).max()))
    band = BAND * M
    r = np.asarray(radii, dtype=np.float64)[None, :, None]
    comparable = ~(np.abs(d - r) <= band).any(axis=(0, 1))
    inside = (d <= r).any(axis=1)  # nc, ng
    per = np.zeros((nc, ng))
    v = np.asarray(vals, dtype=np.float64)
    for c in range(nc):
        sel = inside[c] & (table[c] >= 0)
        per[c, sel] = v[c, table[c, sel]]
    w = st["weights"] if weighted else np.ones(nc)
    exp = (per * w[:, None]).sum(axis=0) / w.sum()
    snap = table.copy()
    sym = det = None
    try:
        if fn == "aeif":
            got = gb.aeif(obj, grid, nearest_atom_idx=table, weighted=weighted)
        else:
            got = gb.atomic_indicator_field(obj, grid, vals, radii, nearest_atom_idx=table, weighted=weighted)
    except Exception as e:
        sym, det = f"raised-{type(e).__name__}", f"raised {type(e).__name__}: {e}"
    else:
        if not np.array_equal(table, snap):
            sym, det = "caller-input-mutated[nearest_atom_idx]", "the caller's table was changed"
        elif not isinstance(got, np.ndarray) or got.shape != exp.shape or got.dtype.kind != "f":
            sym, det = "malformed-result", f"returned {type(got).__name__} {getattr(got, 'shape', None)}"
        else:
            bad = comparable & ~(np.abs(got.astype(np.float64) - exp) <= 1e-9 * max(1.0, float(np.abs(exp).max(initial=0.0))))
            if bad.any():
                g = int(np.argmax(bad))
                minus = [c for c in range(nc) if table[c, g] < 0 and inside[c, g]]
                sym = "minus-one-table-entry-taken-as-an-atom" if minus else "wrong-value-with-caller-table"
                det = f"grid point {g} {grid[g].tolist()}: table entries {table[:, g].tolist()}, inside a sphere per conformer {inside[:, g].tolist()}: returned {got[g]!r}, definition gives {exp[g]!r}"
    if sym:
        case = {"kind": "table", "op": op, "symptom": sym, "label": label, "els": list(els), "coords": coords.tolist(), "charges": np.asarray(charges).tolist(), "weights": np.asarray(weights).tolist(), "fn": fn, "cutoff_kind": cutoff_kind, "weighted": weighted, "seed": seed}
        tbl = f"d = np.sqrt(((obj.coords[:, :, None, :] - grid[None, None, :, :].astype(float)) ** 2).sum(-1)); table = np.where(d.min(axis=1) <= {cut!r}, d.argmin(axis=1), -1)\n"
        if fn == "aeif":
            line = f"print(gb.aeif(obj, grid, nearest_atom_idx=table, weighted={weighted}))"
        else:
            line = f"print(gb.atomic_indicator_field(obj, grid, np.array({np.asarray(vals).tolist()!r}), np.array({np.asarray(radii).tolist()!r}), nearest_atom_idx=table, weighted={weighted}))"
        agg.fail(op, sym, attrs, f"{fn}({label} {''.join(els)}, caller's nearest_atom_idx computed with cut-off {cut:g} [{cutoff_kind}; largest radius {rmax:g}], weighted={weighted}): {det}", case, repro_head("ensemble", els, coords, charges, weights, grid) + tbl + line)
        return
    if (table < 0).any() and (table >= 0).any():
        ctx.nontrivial(("tb", fn, cutoff_kind, label, weighted))
    ctx.outcome(("tb", fn, zlib.crc32(np.round(exp, 9).tobytes()) % 1024))
    ctx.add_note(f"{fn}_caller_table_points_with_minus_one_inside_a_sphere", int(((table < 0) & inside).sum()))


def table_job(ctx, agg, arg):
    seed, thorough = arg["seed"], arg["thorough"]
    for label, els, coords, charges, weights in history_bases(seed, thorough):
        for fn in ("aeif", "atomic_indicator_field"):
            for ck in TABLE_CUTOFFS:
                for weighted in (False, True):
                    table_case(ctx, agg, label, els, coords, charges, weights, fn, ck, weighted, seed)


def replay_table(ctx, agg, case):
    coords = np.array(case["coords"], dtype=np.float64)
    table_case(ctx, agg, case["label"], tuple(case["els"]), coords, np.array(case["charges"]), np.array(case["weights"]), case["fn"], case["cutoff_kind"], case["weighted"], case["seed"])


def argkind_job(ctx, agg, arg):
    seed, thorough = arg["seed"], arg["thorough"]
    for label, els, coords, charges, weights in history_bases(seed, thorough):
        for gkind in GRID_KINDS:
            for fn in ENS_FUNCS:
                for aux_ro in (None, False, True) if fn in ("aeif", "atomic_indicator_field") else (None,):
                    argkind_case(ctx, agg, "ensemble", label, els, coords, charges, weights, fn, gkind, True, seed, aux_ro)
            if coords.shape[0] == 1:
                for kind in ("Molecule", "CartesianGeometry"):
                    for fn in GEOM_FUNCS:
                        argkind_case(ctx, agg, kind, label, els, coords, np.zeros((1, coords.shape[1])), np.ones(1), fn, gkind, False, seed, None)


def replay_argkind(ctx, agg, case):
    coords = np.array(case["coords"], dtype=np.float64)
    argkind_case(ctx, agg, case["obj"], case["label"], tuple(case["els"]), coords, np.array(case["charges"]), np.array(case["weights"]), case["fn"], case["gkind"], case["weighted"], case["seed"], case["aux_readonly"])


def replay_history(ctx, agg, case):
    coords = np.array(case["coords"], dtype=np.float64)
    grid0 = np.array(case["grid"], dtype=np.dtype(case["gdtype"])).reshape(-1, 3)
    run_sequence(ctx, agg, case["obj"], case["label"], tuple(case["els"]), coords, np.array(case["charges"]), np.array(case["weights"]), grid0, tuple(case["funcs"]), tuple(case["edits"]), case["weighted"], case["seed"])


# =================================================================================================
# kernels: the same input array object mutated in place between calls
# =================================================================================================
def kernel_history_case(ctx, agg, impl, src, name, A, B, dt, la, lb):
    fam, width, sq = NAME_RE.match(name).groups()
    squared = sq == "2"
    dta, dtb = DTYPES[dt]
    scale = 4.0 if dt == "i8" else 1.0
    a = (A * scale).astype(dta)
    b = (B * scale).astype(dtb)
    a = lay3(a, la) if a.ndim == 3 else lay2(a, la)
    b = lay2(b, lb)
    if a.size == 0 or b.size == 0:
        return
    if impl == "src":
        psize = 4 if dt == "f4" else 8
        if name not in src.names[psize]:
            return
    else:
        psize = 4 if width == "f" else (8 if width == "d" else (8 if dt == "f8" else 4))

    def call():
        if impl == "so":
            return getattr(molli_xt, name)(a, b)
        rc, got = src.call(name, a, b, psize)
        return got if rc == 0 else None

    def agrees(got, ref):
        if not isinstance(got, np.ndarray) or got.shape != ref.shape or got.dtype.kind != "f":
            return False
        M = max(1.0, float(np.abs(a).max()), float(np.abs(b).max()), float(np.sqrt(np.abs(ref).max())) if squared else float(np.abs(ref).max()))
        mag = np.maximum(np.abs(ref), M * M if squared else M)
        return bool(np.all(np.abs(got.astype(np.float64) - ref) <= ULPS * EPS[min(psize, got.dtype.itemsize)] * mag))

    attrs = {"dtype": dt, "layout": "contiguous" if (la == "C" and lb == "C") else "non-contiguous"}
    ctx.count(states=1, evaluations=1, traces=1, transitions=1)
    try:
        r0 = call()
    except Exception:
        return  # one-shot failures are reported by the plain enumeration
    ref0 = ref_dist(a, b, squared)
    if not agrees(r0, ref0):
        return
    refs = [ref0]
    one = 4 if dt == "i8" else 1
    steps = (
        ("first-input-mutated-in-place", lambda: a.__setitem__((Ellipsis, 0), a[..., 0] + one), "a[..., 0] += 1"),
        ("second-input-mutated-in-place", lambda: b.__setitem__((Ellipsis, 1), b[..., 1] - 2 * one), "b[..., 1] -= 2"),
        ("previous-result-mutated-in-place", lambda: r0.__setitem__(Ellipsis, -1.0), "r[...] = -1"),
        ("equal-inputs-in-new-arrays", None, "a = a.copy(); b = b.copy()"),
    )
    lines = []
    for edit, mutate, line in steps:
        op = f"kernel[{impl}]:{name}:history[{edit}]"
        agg.tick(op, **attrs)
        if mutate is None:
            a = a.copy()
            b = b.copy()
        else:
            mutate()
        lines.append(line)
        ctx.count(evaluations=1, traces=1, transitions=2)
        ref = ref_dist(a, b, squared)
        sym = what = None
        try:
            got = call()
        except Exception as e:
            sym, what = f"raised-{type(e).__name__}", f"raised {type(e).__name__}: {e}"
        else:
            if isinstance(got, np.ndarray) and isinstance(r0, np.ndarray) and impl == "so" and np.shares_memory(got, r0):
                sym, what = "result-not-caller-owned", "returned an array that shares memory with an earlier result"
            elif not agrees(got, ref):
                stale = any(agrees(got, r) for r in refs) or (isinstance(got, np.ndarray) and got.size and bool(np.all(got == -1.0)))
                sym = "stale-result" if stale else "wrong-value"
                what = f"after {'; '.join(lines)} the second call returned {np.asarray(got).ravel()[:4].tolist() if got is not None else None}..., the definition on the current arrays gives {ref.ravel()[:4].tolist()}..."
        if sym:
            case = {"kind": "kernel-history", "op": op, "symptom": sym, "impl": impl, "name": name, "A": A.tolist(), "B": B.tolist(), "dt": dt, "la": la, "lb": lb}
            repro = None
            if impl == "so":
                repro = (
                    "import numpy as np, molli_xt\n"
                    f"a = np.array({(A * scale).tolist()!r}, dtype=np.{np.dtype(dta).name})\nb = np.array({(B * scale).tolist()!r}, dtype=np.{np.dtype(dtb).name})\n"
                    f"r = molli_xt.{name}(a, b)\n" + "\n".join(lines) + f"\nprint(molli_xt.{name}(a, b))"
                )
            agg.fail(op, sym, attrs, f"{name}[{impl}] on the same array objects (shapes {a.shape} x {b.shape}, dtype {dt}, layouts {la}/{lb}): {what}", case, repro)
            return
        refs.append(ref)
        ctx.nontrivial(("kh", impl, name, edit, dt, la, lb))
    ctx.outcome(("kh", ref.shape, zlib.crc32(np.round(ref, 6).tobytes()) % 1024))


def kernel_history_job(ctx, agg, arg):
    impl, seed, thorough, libpath = arg["impl"], arg["seed"], arg["thorough"], arg.get("lib")
    src = SrcKernels(libpath) if impl == "src" else None
    names = so_names() if impl == "so" else sorted({n for s in (4, 8) for n in src.names[s] if NAME_RE.match(n)})
    table = point_table(seed, 12)
    lays_a2 = ("C", "F", "sliced", "T") if impl == "so" else ("C",)
    lays_a3 = ("C", "F", "sliced", "sliced1", "T") if impl == "so" else ("C",)
    lays_b = ("C", "F", "sliced", "T") if impl == "so" else ("C",)
    dts = tuple(DTYPES) if impl == "so" else ("f4", "f8")
    for name in names:
        three = name.startswith("cdist32")
        for n, m, st in ((1, 1, 0), (2, 3, 4), (4, 2, 9)) + (((3, 4, 2), (6, 5, 6)) if thorough else ()):
            A = window(table, st, n)
            if three:
                A = np.stack([A + np.array([0, 0, 0.25 * c]) for c in range(2)], axis=0)
            B = window(table, st + 5, m)
            for la in lays_a3 if three else lays_a2:
                for lb in lays_b:
                    for dt in dts:
                        kernel_history_case(ctx, agg, impl, src, name, A, B, dt, la, lb)
