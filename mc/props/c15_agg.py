"""
Helpers of the C15 check: failure aggregation into stable class-level signatures, and forked
execution of partitions with a timeout (results merged in partition order, so the first case kept
per signature does not depend on scheduling).
"""
from __future__ import annotations

import os
import pickle
import signal
import time
import traceback
from pathlib import Path

from mc.core import HarnessError


class Agg:
    """Failures are collected per (operation, symptom) over the whole enumeration together with the
    input classes (attributes) in which they occurred; the signature names an input class only when
    the failure is confined to part of the classes that were tried.  One root cause -> one signature,
    the same for every seed."""

    def __init__(self):
        self.tried: dict = {}
        self.fails: dict = {}

    def tick(self, op, attrs):
        t = self.tried.setdefault(op, {})
        for k, v in attrs.items():
            t.setdefault(k, set()).add(str(v))

    def fail(self, op, symptom, attrs, what, case, repro=None):
        f = self.fails.setdefault((op, symptom), {"attrs": {}, "first": None, "n": 0})
        f["n"] += 1
        for k, v in attrs.items():
            f["attrs"].setdefault(k, set()).add(str(v))
        if f["first"] is None:
            f["first"] = (what, case, repro)

    def merge(self, o: "Agg"):
        for op, t in o.tried.items():
            mine = self.tried.setdefault(op, {})
            for k, s in t.items():
                mine.setdefault(k, set()).update(s)
        for key, f in o.fails.items():
            m = self.fails.setdefault(key, {"attrs": {}, "first": None, "n": 0})
            m["n"] += f["n"]
            for k, s in f["attrs"].items():
                m["attrs"].setdefault(k, set()).update(s)
            if m["first"] is None:
                m["first"] = f["first"]

    def signatures(self, consequential=(), known=(), depends=None):
        """consequential: [(downstream op, upstream op)] - a downstream failure with a symptom the
        upstream operation shows as well is the same finding (the downstream operation returns the
        upstream result) and is not listed twice."""
        def sig_of(op, symptom, f):
            restr = ""
            for k in sorted(f["attrs"]):
                if f["attrs"][k] != self.tried.get(op, {}).get(k, f["attrs"][k]):
                    restr += f"[{k}={'|'.join(sorted(f['attrs'][k]))}]"
            return f"{op}:{symptom}{restr}"

        def split(op):
            k = op.find(":history[")
            return (op, "") if k < 0 else (op[:k], op[k:])

        def upstream_broken(op):
            """`depends`: operation -> operations it is implemented on.  A failure of an operation whose upstream
            operation fails too (same history suffix, finding not recorded as known) is a consequence, not a finding."""
            base, sfx = split(op)
            for up in (depends or {}).get(base, ()):
                for (o2, sy2), f2 in self.fails.items():
                    if o2 == up + sfx and sig_of(o2, sy2, f2) not in known:
                        return True
            return False

        out = []
        for (op, symptom), f in sorted(self.fails.items()):
            if any(op == d and (u, symptom) in self.fails for d, u in consequential):
                continue
            if upstream_broken(op):
                continue
            # `<op>:history[<edit>]` failing with a symptom that `<op>` already shows on FRESH objects is that same finding
            # (unless the fresh-object finding is a recorded known one: then the history finding must stay visible)
            if ":history[" in op:
                base = op[: op.index(":history[")]
                bf = self.fails.get((base, symptom))
                if bf is not None and sig_of(base, symptom, bf) not in known:
                    continue
            out.append((sig_of(op, symptom, f), f["n"]) + tuple(f["first"]))
        return out

    def emit(self, ctx, consequential=(), replay_of=None, known=(), depends=None):
        for sig, n, what, case, repro in self.signatures(consequential, known, depends):
            case = dict(case)
            if replay_of is not None and replay_of.get("sig"):
                # one re-executed case cannot see the class restrictions: same (op, symptom) => same finding
                if (case.get("op"), case.get("symptom")) == (replay_of.get("op"), replay_of.get("symptom")):
                    sig = replay_of["sig"]
            case["sig"] = sig
            ctx.violation(sig, what, case, repro)
            ctx.violation_counts[sig] = n


def run_forked(ctx, agg, jobs, nproc, timeout):
    """jobs: [(label, func, arg)]; func(sub_ctx, sub_agg, arg).  Every job is completed."""
    scratch = Path(ctx.scratch)
    pending = list(enumerate(jobs))
    running = {}
    while pending or running:
        while pending and len(running) < nproc:
            i, (label, func, arg) = pending.pop(0)
            out = scratch / f"job{i}.pkl"
            pid = os.fork()
            if pid == 0:
                code = 0
                try:
                    sc = ctx.sub(1000 + i)
                    sa = Agg()
                    func(sc, sa, arg)
                    with open(out, "wb") as fh:
                        pickle.dump((sc.export(), sa), fh)
                except BaseException:
                    try:
                        (scratch / f"job{i}.err").write_text(traceback.format_exc())
                    except Exception:
                        pass
                    code = 3
                os._exit(code)
            running[pid] = (i, label, time.time())
        done = []
        for pid, (i, label, t0) in list(running.items()):
            r, status = os.waitpid(pid, os.WNOHANG)
            if r == 0:
                if time.time() - t0 > timeout:
                    for p in running:
                        try:
                            os.kill(p, signal.SIGKILL)
                            os.waitpid(p, 0)
                        except Exception:
                            pass
                    raise HarnessError(f"partition {label!r} exceeded {timeout} s")
                continue
            done.append(pid)
            if os.WIFSIGNALED(status) or os.WEXITSTATUS(status) != 0:
                err = scratch / f"job{i}.err"
                for p in running:
                    if p != pid:
                        try:
                            os.kill(p, signal.SIGKILL)
                            os.waitpid(p, 0)
                        except Exception:
                            pass
                raise HarnessError(f"partition {label!r} failed:\n{err.read_text() if err.exists() else status}")
        for pid in done:
            del running[pid]
        if not done:
            time.sleep(0.02)
    for i in range(len(jobs)):
        f = scratch / f"job{i}.pkl"
        with open(f, "rb") as fh:
            exp, sa = pickle.load(fh)
        f.unlink()
        ctx.merge(exp)
        agg.merge(sa)
