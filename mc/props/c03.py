"""
C03 - a crash while appending never damages committed records or shows a torn one.

Engine crashx: record the byte-level write history of an append session on the real code, build
the file image for EVERY crash point (every completed-op prefix, every byte of every write), run
every recovery history of a small menu with real UKVFile / Collection objects on each image and
compare with the reference (committed records exact; session records complete-and-exact or
absent; no other key listed; later appends read back and disturb nothing).  Depth-2: the recovery
append itself is crashed at every byte.
"""
from __future__ import annotations

import hashlib
import itertools
import os
import struct
from pathlib import Path

from mc import crashx
from mc.core import HarnessError
from mc.props.c02 import parse_ukv

from molli.storage.ukvfile import UKVFile
from molli.storage import Collection
from molli.storage.backends import UkvCollectionBackend

LEVEL = "fault_enumeration"

NEWKEY, NEWVAL = b"N", b"new-value-after-recovery"
NEWKEY2, NEWVAL2 = b"M", b"2nd"

SIZE_CLASSES = {
    "k1v0": (1, 0),
    "k1v1": (1, 1),
    "k3v8": (3, 8),
    "k255v1": (255, 1),
    "k1v70k": (1, 70_000),
    "k2v300": (2, 300),
    # value CONTENTS that look like file structure: zero bytes (= empty blocks with empty keys) and a
    # run of well-formed little blocks; whatever is left of such a value behind a too-short cut or an
    # overwrite parses as records
    "k0v0": (0, 0),  # its block is five zero bytes
    "k9uv1": (9, 1, "utf8key"),  # a key of 2-, 3- and 4-byte characters: cuts fall inside a character
    "k1v40z": (1, 40, "zeros"),
    "k2v42b": (2, 42, "blocks"),
}


def mk_kv(cls: str, pos: int, seed: int):
    kl, vl, *content = SIZE_CLASSES[cls]
    tag = "pqrs"[pos]
    key = (tag * kl).encode() if kl < 255 else (tag.encode() + b"k" * 254)
    blk = hashlib.sha256(f"{cls}{pos}{seed}".encode()).digest()
    # never all-zero, never starting with a byte sequence that equals its own prefix padding
    val = (blk * (vl // len(blk) + 1))[:vl]
    if content == ["utf8key"]:
        key = "\u03b2\u20ac\U0001d11e".encode()
    if content == ["zeros"]:
        val = bytes(vl)
    elif content == ["blocks"]:
        val = (b"\x01\x00\x00\x00\x01Kx" * (vl // 7 + 1))[:vl]
    return key, val


F0_VARIANTS = ["hdr", "1rec", "2rec", "custom1"]
# further pre-states used by dedicated cases: "zrec" = a committed record with empty key AND empty value (an
# all-zero block) between two others; "pad<N>" = one record with an N-byte value followed by three small
# ones, so that block headers fall on every offset relative to the reader's buffer windows


def make_f0(variant: str, path: Path):
    if path.exists():
        path.unlink()
    committed = {}
    kw = {}
    if variant == "custom1":
        kw = dict(h1=b"ML10Library", h2=b"comment", b0=b"\x01\x02\x03")
    with UKVFile(path, mode="x", **kw) as f:
        if variant == "zrec":
            for k, v in ((b"c1", b"committed-one"), (b"", b""), (b"c3", b"three")):
                f.put(k, v)
                committed[k] = v
        if variant.startswith("pad"):
            n = int(variant[3:])
            for k, v in ((b"pad", bytes(range(1, 256)) * (n // 255) + bytes(range(1, 1 + n % 255))), (b"s1", b"one"), (b"s2", b""), (b"s3", b"three")):
                f.put(k, v)
                committed[k] = v
        if variant in ("1rec", "2rec", "custom1"):
            f.put(b"c1", b"committed-one")
            committed[b"c1"] = b"committed-one"
        if variant == "2rec":
            f.put(b"c2", b"")
            committed[b"c2"] = b""
    return path.read_bytes(), committed


def run_session(path: Path, f0: bytes, puts, via: str):
    """Runs the append session on the real code under the recorder; returns the op log."""
    path.write_bytes(f0)
    log = []
    with crashx.recording(path, log):
        if via == "ukv":
            with UKVFile(path, mode="a") as f:
                for k, v in puts:
                    f.put(k, v)
        else:
            buf = int(via.split(":")[1])
            c = Collection(path, UkvCollectionBackend, readonly=False, bufsize=buf)
            with c.writing(timeout=1.0):
                for k, v in puts:
                    c[k.decode()] = v
            _forget(c)
    return log


def _forget(c):
    import atexit

    atexit.unregister(c._backend.flush)


def cut_class(f_final: bytes, f0len: int, img_len: int, point, ops):
    """where does the crash fall, in terms of the final record layout"""
    k, j = point
    if k < len(ops) and ops[k][0] == "t" or (k > 0 and ops[k - 1][0] == "t" and all(o[0] == "t" for o in ops[:k])):
        if all(o[0] == "t" for o in ops[:k]):
            return "before-first-write"
    if img_len <= f0len and k == 0:
        return "nothing-written"
    # walk the final layout
    try:
        h1, h2len, b0len = struct.unpack(">16sHI10x", f_final[:32])
    except struct.error:
        return "unclassified"
    pos = 32 + h2len + b0len
    L = img_len
    while pos < len(f_final):
        if pos + 5 > len(f_final):
            break
        kl, vl = struct.unpack(">BI", f_final[pos : pos + 5])
        if L == pos:
            return "record-boundary"
        if L < pos + 5:
            return "cut-in-block-header"
        if L < pos + 5 + kl:
            return "cut-in-key" if L > pos + 5 else "cut-after-header"
        if L < pos + 5 + kl + vl:
            return "cut-in-value" if L > pos + 5 + kl else "cut-after-key"
        pos += 5 + kl + vl
    if L == pos:
        return "record-boundary"
    return "unclassified"


def torn_kind(got: bytes, exp: bytes):
    if len(got) < len(exp) and exp.startswith(got):
        return "truncated-value"
    if len(got) == len(exp) and got.rstrip(b"\0") != got and exp.startswith(got.rstrip(b"\0")):
        return "zero-padded-value"
    return "wrong-value"


class Rec:
    """runs recoveries on images and reports"""

    def __init__(self, ctx, workdir: Path):
        self.ctx = ctx
        self.dir = workdir
        self.dir.mkdir(parents=True, exist_ok=True)
        self.path = self.dir / "img.ukv"

    def viol(self, recov, symptom, cutc, what, case):
        self.ctx.violation(f"{recov}:{symptom}:{cutc}", what, case)

    # ---- the reference ---------------------------------------------------------------------
    def check_listing(self, recov, listing: dict, committed: dict, session: dict, extra: dict, cutc, case, must_have=()):
        """listing: key -> value as read through molli (or an exception marker)."""
        ok = True
        allowed = set(committed) | set(session) | set(extra)
        for k in committed:
            if k not in listing:
                self.viol(recov, "committed-record-missing", cutc, f"a record that was complete before the session ({k[:8]!r}) is no longer listed", case)
                ok = False
            elif listing[k] != committed[k]:
                self.viol(recov, "committed-record-changed", cutc, f"a record that was complete before the session ({k[:8]!r}) reads back differently", case)
                ok = False
        for k in must_have:
            if k not in listing:
                self.viol(recov, "append-after-recovery-lost", cutc, "a record appended after recovery is not listed", case)
                ok = False
        for k, v in listing.items():
            if k in committed:
                continue
            if k not in allowed:
                self.viol(recov, "partial-or-garbage-key-listed", cutc, f"a key that was never put is listed ({k[:12]!r}, len {len(k)})", case)
                ok = False
                continue
            exp = session.get(k, extra.get(k))
            if isinstance(v, tuple):
                self.viol(recov, "listed-key-unreadable", cutc, f"listed key cannot be read: {v[1]}", case)
                ok = False
            elif v != exp:
                sym = torn_kind(v, exp)
                who = "session-record" if k in session else "post-recovery-record"
                self.viol(recov, f"{who}-{sym}", cutc, f"record {k[:8]!r} is shown with a {sym} ({len(v)} of {len(exp)} bytes)", case)
                ok = False
        return ok

    def read_ukv(self, mode="r"):
        h = UKVFile(self.path, mode=mode)
        try:
            out = {}
            for k in list(h.keys()):
                try:
                    out[k] = h.get(k)
                except Exception as e:
                    out[k] = ("EXC", type(e).__name__)
            return out
        finally:
            h.close()

    def read_coll(self):
        c = Collection(self.path, UkvCollectionBackend, readonly=True)
        try:
            out = {}
            with c.reading(timeout=1.0):
                for k in sorted(c.keys()):
                    try:
                        out[k.encode()] = c[k]
                    except Exception as e:
                        out[k.encode()] = ("EXC", type(e).__name__)
            return out
        finally:
            _forget(c)

    # ---- recovery histories ----------------------------------------------------------------
    def recover_all(self, img: bytes, committed, session, cutc, case, depth2: bool, coll: bool, f0: bytes = None, light: bool = False):
        ctx = self.ctx
        n = 0
        # R1: reopen read-only, full read
        self.path.write_bytes(img)
        ok = self._try("R1[ukv-r]", lambda: self.read_ukv("r"), committed, session, {}, cutc, case)
        n += 1
        if coll:
            self.path.write_bytes(img)
            self._try("R1[coll-reading]", self.read_coll, committed, session, {}, cutc, case)
            n += 1
        # R2: reopen for append, put a new record, close, reopen read-only, full read
        self.path.write_bytes(img)
        log2 = []

        def r2():
            with crashx.recording(self.path, log2):
                with UKVFile(self.path, mode="a") as h:
                    h.put(NEWKEY, NEWVAL)
            return self.read_ukv("r")

        ok2 = self._try("R2[ukv-a+put+r]", r2, committed, session, {NEWKEY: NEWVAL}, cutc, case, must_have=(NEWKEY,))
        n += 1
        if log2 and crashx.apply_ops(img, log2, len(log2)) != self.path.read_bytes():
            raise HarnessError("recorded op log of the recovery session does not reproduce its final file")
        if ok2:
            # the file must be well-formed for an independent reader too: a later scan starts from it
            after = self.path.read_bytes()
            recs, _, clean = parse_ukv(after)
            if not clean:
                self.viol("R2[ukv-a+put+r]", "file-not-wellformed-after-append", cutc, "after recovery+append the file does not parse as header|records to its end", case)
        if light:
            return n
        # R2t: the recovery append is the smallest possible record (shorter than any torn tail)
        self.path.write_bytes(img)

        def r2t():
            with UKVFile(self.path, mode="a") as h:
                h.put(b"T", b"")
            return self.read_ukv("r")

        if self._try("R2t[ukv-a+tiny-put+r]", r2t, committed, session, {b"T": b""}, cutc, case, must_have=(b"T",)):
            recs, _, clean = parse_ukv(self.path.read_bytes())
            if not clean:
                self.viol("R2t[ukv-a+tiny-put+r]", "file-not-wellformed-after-append", cutc, "after recovery + a tiny append the file does not parse as header|records to its end", case)
        n += 1
        # R0: open for append and close again without writing, then read
        self.path.write_bytes(img)

        def r0():
            UKVFile(self.path, mode="a").close()
            return self.read_ukv("r")

        self._try("R0[ukv-a+close+r]", r0, committed, session, {}, cutc, case)
        n += 1
        if coll:
            self.path.write_bytes(img)

            def r2c():
                c = Collection(self.path, UkvCollectionBackend, readonly=False)
                try:
                    with c.writing(timeout=1.0):
                        c[NEWKEY.decode()] = NEWVAL
                finally:
                    _forget(c)
                return self.read_coll()

            self._try("R2[coll-writing+put+reading]", r2c, committed, session, {NEWKEY: NEWVAL}, cutc, case, must_have=(NEWKEY,))
            n += 1
        # R4: ONE long-lived object runs the whole recovery history (the backend keeps its UKVFile and
        # its cached index between sessions): append-open + put, read, append-open + put, read
        self.path.write_bytes(img)

        def r4():
            h = UKVFile(self.path, mode="a")
            try:
                h.put(NEWKEY, NEWVAL)
                h.close()
                h.open("r")
                first = {k: h.get(k) for k in list(h.keys())}
                h.close()
                h.open("a")
                h.put(NEWKEY2, NEWVAL2)
                h.close()
                h.open("r")
                out = {k: h.get(k) for k in list(h.keys())}
                if any(first[k] != out.get(k) for k in first):
                    out[b"<first-read-differs>"] = b""
                return out
            finally:
                if not h.closed:
                    h.close()

        self._try("R4[one-handle:a+put,r,a+put,r]", r4, committed, session, {NEWKEY: NEWVAL, NEWKEY2: NEWVAL2}, cutc, case, must_have=(NEWKEY, NEWKEY2))
        n += 1
        if coll:
            self.path.write_bytes(img)

            def r4c():
                c = Collection(self.path, UkvCollectionBackend, readonly=False)
                try:
                    with c.writing(timeout=1.0):
                        c[NEWKEY.decode()] = NEWVAL
                    with c.reading(timeout=1.0):
                        first = {k.encode(): c[k] for k in sorted(c.keys())}
                    with c.writing(timeout=1.0):
                        c[NEWKEY2.decode()] = NEWVAL2
                    with c.reading(timeout=1.0):
                        out = {k.encode(): c[k] for k in sorted(c.keys())}
                    if any(first[k] != out.get(k) for k in first):
                        out[b"<first-read-differs>"] = b""
                    return out
                finally:
                    _forget(c)

            self._try("R4[one-collection:writing,reading,writing,reading]", r4c, committed, session, {NEWKEY: NEWVAL, NEWKEY2: NEWVAL2}, cutc, case, must_have=(NEWKEY, NEWKEY2))
            n += 1
        # R5: ONE long-lived object whose FIRST session after the crash is a read, then an append, then a
        # fresh reader (anything the object remembers from an earlier open - mode, index, end of file -
        # is carried into the append)
        self.path.write_bytes(img)

        def r5():
            h = UKVFile(self.path, mode="r")
            try:
                first = {k: h.get(k) for k in list(h.keys())}
                h.close()
                h.open("a")
                h.put(NEWKEY, NEWVAL)
                h.close()
            finally:
                if not h.closed:
                    h.close()
            out = self.read_ukv("r")
            if any(first[k] != out.get(k) for k in first):
                out[b"<first-read-differs>"] = b""
            return out

        self._try("R5[one-handle:r,a+put;fresh-r]", r5, committed, session, {NEWKEY: NEWVAL}, cutc, case, must_have=(NEWKEY,))
        n += 1
        if coll:
            self.path.write_bytes(img)

            def r5c():
                c = Collection(self.path, UkvCollectionBackend, readonly=False)
                try:
                    with c.reading(timeout=1.0):
                        first = {k.encode(): c[k] for k in sorted(c.keys())}
                    with c.writing(timeout=1.0):
                        c[NEWKEY.decode()] = NEWVAL
                finally:
                    _forget(c)
                out = self.read_coll()
                if any(first[k] != out.get(k) for k in first):
                    out[b"<first-read-differs>"] = b""
                return out

            self._try("R5[one-collection:reading,writing+put;fresh-reading]", r5c, committed, session, {NEWKEY: NEWVAL}, cutc, case, must_have=(NEWKEY,))
            n += 1
        # R6: a SURVIVOR - a handle of another process that used the library before the crashing session
        # started (one idle session of either kind on the pre-session file) and goes on using it after the
        # crash: first a read, or first an append, each followed by a fresh reader
        if f0 is not None:
            for pre in ("r", "a"):
                for then in ("r", "a+put"):

                    def r6(pre=pre, then=then):
                        self.path.write_bytes(f0)
                        h = UKVFile(self.path, mode=pre)
                        try:
                            h.close()
                            self.path.write_bytes(img)
                            if then == "r":
                                h.open("r")
                                out = {k: h.get(k) for k in list(h.keys())}
                                h.close()
                                return out
                            h.open("a")
                            h.put(NEWKEY, NEWVAL)
                            h.close()
                        finally:
                            if not h.closed:
                                h.close()
                        return self.read_ukv("r")

                    ex, mh = ({}, ()) if then == "r" else ({NEWKEY: NEWVAL}, (NEWKEY,))
                    self._try(f"R6[survivor-handle({pre});{then}]", r6, committed, session, ex, cutc, case, must_have=mh)
                    n += 1
                    if coll:

                        def r6c(pre=pre, then=then):
                            self.path.write_bytes(f0)
                            c = Collection(self.path, UkvCollectionBackend, readonly=False)
                            try:
                                with (c.reading(timeout=1.0) if pre == "r" else c.writing(timeout=1.0)):
                                    pass
                                self.path.write_bytes(img)
                                if then == "r":
                                    with c.reading(timeout=1.0):
                                        return {k.encode(): c[k] for k in sorted(c.keys())}
                                with c.writing(timeout=1.0):
                                    c[NEWKEY.decode()] = NEWVAL
                            finally:
                                _forget(c)
                            return self.read_coll()

                        self._try(f"R6[survivor-collection({'reading' if pre == 'r' else 'writing'});{'reading' if then == 'r' else 'writing+put'}]", r6c, committed, session, ex, cutc, case, must_have=mh)
                        n += 1
        # R3: the recovery append itself crashes at every byte; then R1 and R2 again
        if depth2 and ok2 and log2:
            for img2, pt2 in crashx.images(img, log2):
                self.path.write_bytes(img2)
                c2 = dict(case)
                c2["second_crash"] = list(pt2)
                self._try("R3[2nd-crash;ukv-r]", lambda: self.read_ukv("r"), committed, session, {NEWKEY: NEWVAL}, cutc, c2)
                self.path.write_bytes(img2)

                def r3b():
                    with UKVFile(self.path, mode="a") as h:
                        h.put(NEWKEY2, NEWVAL2)
                    return self.read_ukv("r")

                self._try("R3[2nd-crash;ukv-a+put+r]", r3b, committed, session, {NEWKEY: NEWVAL, NEWKEY2: NEWVAL2}, cutc, c2, must_have=(NEWKEY2,))
                n += 2
        return n

    def _try(self, recov, fn, committed, session, extra, cutc, case, must_have=()):
        try:
            listing = fn()
        except Exception as e:
            self.viol(recov, f"recovery-raised[{type(e).__name__}]", cutc, f"{recov} raised {type(e).__name__}: {e}", case)
            return False
        self.ctx.outcome((recov, tuple(sorted((k, v if isinstance(v, bytes) else str(v)) for k, v in listing.items()))).__hash__())
        return self.check_listing(recov, listing, committed, session, extra, cutc, case, must_have)


def case_list(ctx):
    """(f0 variant, session spec (tuple of size classes), via, depth2)"""
    small = ["k1v0", "k1v1", "k3v8", "k255v1"]
    cases = []
    vias_all = ["ukv", "coll:-1", "coll:4", "coll:1000000"]
    for f0v in F0_VARIANTS:
        for L in (1, 2):
            for spec in itertools.product(small, repeat=L):
                for via in (vias_all if (L == 1 or ctx.thorough) else ["ukv", "coll:1000000"]):
                    cases.append((f0v, spec, via, L == 1 and via in ("ukv", "coll:4") or ctx.thorough and L == 2 and via == "ukv"))
        three = itertools.product(["k1v0", "k3v8"] if not ctx.thorough else small, repeat=3)
        for spec in three:
            cases.append((f0v, spec, "ukv", False))
    if ctx.thorough:
        for f0v in ("hdr", "2rec"):
            cases.append((f0v, ("k1v70k",), "ukv", False))
            cases.append((f0v, ("k2v300", "k1v1"), "coll:4", True))
    else:
        cases.append(("1rec", ("k2v300",), "ukv", False))
        # a value beyond every buffer/threshold size also in the quick tier: all op-log invariants,
        # every byte of the small writes, a stride inside the 70 kB write (thorough: every byte)
        cases.append(("1rec", ("k1v1", "k1v70k", "k1v1"), "ukv", False))
        cases.append(("hdr", ("k1v70k",), "coll:4", False))
    for f0v in (F0_VARIANTS if ctx.thorough else ("1rec",)):
        for cls in ("k1v40z", "k2v42b"):
            for via in (vias_all if ctx.thorough else ["ukv", "coll:4"]):
                cases.append((f0v, (cls,), via, via == "ukv"))
            cases.append((f0v, (cls, "k1v1"), "ukv", False))
            cases.append((f0v, ("k1v1", cls), "coll:1000000", False))
    for spec, via in ((("k1v1",), "ukv"), (("k1v1", "k3v8"), "coll:4"), (("k1v1",), "coll:1000000")):
        cases.append(("zrec", spec, via, via == "ukv"))
    # alignment of block headers with the reader's buffer windows (st_blksize / 8 KiB multiples): the pad
    # record shifts everything behind it by one byte per case; light = 3 crash points x (R1, R1[coll], R2)
    if ctx.thorough:
        pads = range(0, 12400)
    else:
        pads = sorted(set(list(range(0, 40)) + [n for k in (1, 2, 3) for n in range(4096 * k - 120, 4096 * k + 24)] + list(range(300, 12400, 257))))
    for n in pads:
        cases.append((f"pad{n}", ("k1v1",), "ukv", "light"))
    for spec, via in ((("k9uv1",), "ukv"), (("k9uv1",), "coll:4"), (("k1v1", "k9uv1"), "coll:1000000")):
        cases.append(("1rec", spec, via, via == "ukv"))
    for spec, via in ((("k0v0",), "ukv"), (("k0v0", "k1v1"), "ukv"), (("k1v1", "k0v0", "k1v1"), "coll:4")):
        cases.append(("1rec", spec, via, via == "ukv" and len(spec) == 1))
    # deterministic rotation by the seed (order only)
    r = ctx.seed % len(cases)
    return cases[r:] + cases[:r]


def run_case(ctx, case):
    f0v, spec, via, depth2 = case
    d = Path(ctx.scratch) / f"c03-{os.getpid()}"
    d.mkdir(parents=True, exist_ok=True)
    spath = d / "session.ukv"
    f0, committed = make_f0(f0v, spath)
    puts = [mk_kv(cls, i, ctx.seed) for i, cls in enumerate(spec)]
    session = dict(puts)
    try:
        ops = run_session(spath, f0, puts, via)
    except Exception as e:
        ctx.violation(f"session:{via.split(':')[0]}:raised[{type(e).__name__}]", f"a plain append session raised {e}", {"f0": f0v, "spec": list(spec), "via": via})
        return
    final = spath.read_bytes()
    # premise of the crash model + the property's mechanism: append-only, in issue order
    na = crashx.non_append_writes(ops)
    if na:
        ctx.violation("session:non-append-write", "a write of the append session did not land at the current end of file (in-place update or hole)", {"f0": f0v, "spec": list(spec), "via": via, "replay_kind": "session"})
    if crashx.extending_truncates(ops):
        ctx.violation("session:file-extended-before-write", "the append session grew the file with truncate() before writing the record: until the writes land the reserved region reads as zeros", {"f0": f0v, "spec": list(spec), "via": via, "replay_kind": "session"})
    if crashx.apply_ops(f0, ops, len(ops)) != final:
        raise HarnessError("recorded op log does not reproduce the final file: the recorder missed a mutation")
    recs, _, clean = parse_ukv(final)
    if not clean or dict(recs) != {**committed, **session}:
        ctx.violation("session:clean-session-wrong-file", "after a clean append session the file does not hold committed + session records", {"f0": f0v, "spec": list(spec), "via": via, "replay_kind": "session"})
        return
    rec = Rec(ctx, d / "rec")
    nimg = 0
    stride = None if ctx.thorough else 4096
    light = depth2 == "light"
    if light:
        depth2 = False
    for img, pt in crashx.images(f0, ops, stride_above=stride):
        if light and len(img) - len(f0) not in (0, 2, len(final) - len(f0)):
            continue
        cutc = cut_class(final, len(f0), len(img), pt, ops)
        cdesc = {"f0": f0v, "spec": list(spec), "via": via, "crash_point": list(pt), "depth2": depth2, "light": light}
        n = rec.recover_all(img, committed, session, cutc, cdesc, depth2, coll=(len(final) < 2000) or light, f0=f0, light=light)
        ctx.count(evaluations=n, transitions=n, traces=n, states=1)
        nimg += 1
        if 0 < len(img) - len(f0) < len(final) - len(f0):
            ctx.nontrivial((f0v, spec, via, pt))
        if nimg in (3, 40) and f0v == "1rec" and via == "ukv":
            ctx.sample({"f0": f0v, "session_sizes": list(spec), "via": via, "crash_point(ops_done,bytes_of_next_write)": list(pt), "cut": cutc, "image_len": len(img), "final_len": len(final)})
    ctx.add_note("sessions", 1)
    ctx.add_note("crash_images", nimg)


def run(ctx):
    ctx.rule = (
        "for every append session of the alphabet (pre-state x 1..3 puts over size classes x UKVFile/Collection with each buffer size): "
        "the real write history is recorded, EVERY crash image (every op prefix, every byte of every write) is built and every recovery "
        "history of the menu (reopen r; reopen a+put+close+reopen r; through UKVFile and Collection; second crash at every byte of the "
        "recovery append, then both again) is executed on it with real molli objects. states = distinct crash images, transitions = recovery "
        "histories executed. non-trivial = distinct crash points that cut the session's byte stream strictly inside (neither empty nor complete)"
    )
    ctx.assumptions += [
        "crash = process death: the file holds a prefix, in issue order, of the session's writes (the recorder checks the append-only premise); power-loss reordering is outside the property",
        "the reference knows committed/session records by construction; file well-formedness after recovery is judged by an independent 30-line parser",
    ]
    cases = case_list(ctx)
    ctx.bound = {
        "sessions": len(cases),
        "max_puts_per_session": 3,
        "size_classes": sorted(set(c for case in cases for c in case[1])),
        "crash_depth": 2,
        "every_byte_offset": True if ctx.thorough else "every byte of every write up to 4 KiB; inside longer writes (the 70 kB value) the first/last 64 cut positions and every 4099th (thorough: every byte)",
    }
    ctx.pmap(run_case, cases)


def replay(ctx, case):
    if case.get("replay_kind") == "session":
        run_case(ctx, (case["f0"], tuple(case["spec"]), case["via"], False))
        return
    f0v, spec, via = case["f0"], tuple(case["spec"]), case["via"]
    d = Path(ctx.scratch) / "c03-replay"
    d.mkdir(parents=True, exist_ok=True)
    spath = d / "session.ukv"
    f0, committed = make_f0(f0v, spath)
    puts = [mk_kv(cls, i, ctx.seed) for i, cls in enumerate(spec)]
    ops = run_session(spath, f0, puts, via)
    final = spath.read_bytes()
    pt = tuple(case["crash_point"])
    img = crashx.apply_ops(f0, ops, pt[0], pt[1])
    rec = Rec(ctx, d / "rec")
    rec.recover_all(img, committed, dict(puts), cut_class(final, len(f0), len(img), pt, ops), case, case.get("depth2", False), coll=True, f0=f0, light=bool(case.get("light")))
