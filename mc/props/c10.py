"""
C10 - damaged or truncated mol2 / xyz input is rejected, never returned as a partial molecule; the
readers terminate on every input.

Engine: enumx / faultx (DESIGN 3.4).  For every base text (bundled files and molli-written
multi-molecule files with a DIFFERENT molecule in every block) every single structural fault is
generated (c10_text.enumerate_faults): truncation at every line boundary and at every byte offset of
the last record, deletion / duplication of every line, deletion / garbling of every structural token,
an extra token at either end of every fixed-grammar line, every count off by +-1, every record type
indicator renamed; a stray non-keyword line in front of every line; token-ADDING damage that keeps every
token well-formed (a stray number at every position of every fixed-grammar line, every numeric token
doubled, every numeric token split in two at every interior position).  Base texts include molli-written
files carrying TRIPOS records molli does not implement (COMMENT / SUBSTRUCTURE / SET before ATOM, between
ATOM and BOND, after BOND).  Thorough tier: more bundled files (incl. isornitrate with its UNITY record) and
all pairs of faults at different places of the small texts (a pair is judged only if neither member alone
violates and neither member alone is a well-formed edit).

Oracle (exactly the property text): the reader raises, or returns a list of molecules which
  (a) are, in order, molecules of the undamaged file (same name, atoms, coordinates, types, charges,
      bonds - compared by the harness's own snapshot), and
  (b) have the atom / bond counts some header of the damaged text declares (in order), and
the call finishes within a step budget (counting LineReader) and a CPU-time watchdog.

What is NOT generated / judged (DESIGN section 2, "only structural damage"): edits of free-text
tokens (xyz comment, mol2 name / molecule type / charge type / status lines, atom labels,
substructure names) are not generated; every damaged text is additionally put through a strict
reference reader of the harness - if that reader finds it to be a well-formed file with OTHER content
the edit was not damage and the case is only checked for termination.  The one exception the property
text quantifies over explicitly - truncation at every byte offset of the last record - is judged even
then and reported under its own signature.
"""
from __future__ import annotations

import hashlib
import signal
from pathlib import Path

import numpy as np

import molli as ml
import molli.parsing.mol2 as _pm2
import molli.parsing.xyz as _pxyz
from molli.parsing._reader import LineReader as _LineReader

from mc.core import HarnessError
from mc.props import c10_text as T

LEVEL = "fault_enumeration"

FILES = Path(ml.files.ROOT)
FILLS = ("?!", "!?", "~!")
INFIXES = ("x", "q", "k")
NUMS = ("7", "9", "8")  # stray numeric token (an integer that is not a mol2 bond type)


# ---- termination guards ---------------------------------------------------------------------------
class _Stop(BaseException):
    """raised inside the reader when the step budget or the watchdog fires"""


class _Guard:
    budget = 10**9
    used = 0
    blown = None  # None | "step-budget" | "cpu-watchdog" | "wall-watchdog"


class CountingReader(_LineReader):
    def __next__(self):
        _Guard.used += 1
        if _Guard.used > _Guard.budget:
            _Guard.blown = _Guard.blown or "step-budget"
            raise _Stop("step budget")
        return super().__next__()


def _on_vtalrm(signum, frame):
    _Guard.blown = _Guard.blown or "cpu-watchdog"
    raise _Stop("cpu watchdog")


def _on_alrm(signum, frame):
    _Guard.blown = _Guard.blown or "wall-watchdog"
    raise _Stop("wall watchdog")


_installed = False


def install_guards():
    global _installed
    _pm2.LineReader = CountingReader
    _pxyz.LineReader = CountingReader
    if not _installed:
        signal.signal(signal.SIGVTALRM, _on_vtalrm)
        signal.signal(signal.SIGALRM, _on_alrm)
        _installed = True


CPU_LIMIT_S = 10.0  # per damaged text (a read takes 0.3 .. 10 ms)
CPU_LIMIT_AFTER_HANGS_S = 1.0  # once two texts have run into the watchdog the others get less
MAX_HANGS_PER_PARTITION = 25  # after that the partition is abandoned and reported as a cap
WALL_LIMIT_S = 300.0
_hangs = 0


def guarded_read(fmt, text, nlines, call=None):
    """-> ("ok", value) | ("exc", type name, message) | ("hang", which guard).
    `call`: a thunk to run instead of the string reader (path-taking entry points)"""
    global _hangs
    if call is None:
        reader = ml.Molecule.loads_all_mol2 if fmt == "mol2" else ml.Molecule.loads_all_xyz
    else:
        reader = lambda _t: call()  # noqa: E731
    _Guard.budget = 4 * nlines + 64
    _Guard.used = 0
    _Guard.blown = None
    signal.setitimer(signal.ITIMER_VIRTUAL, CPU_LIMIT_S if _hangs < 2 else CPU_LIMIT_AFTER_HANGS_S, 1.0)
    signal.setitimer(signal.ITIMER_REAL, WALL_LIMIT_S, 5.0)
    try:
        try:
            v = reader(text)
            out = ("ok", v)
        except _Stop:
            out = ("hang", _Guard.blown)
        except Exception as e:  # noqa: BLE001
            out = ("exc", type(e).__name__, str(e)[:120])
    except _Stop:  # fired between the inner handler and here
        out = ("hang", _Guard.blown)
    finally:
        try:
            signal.setitimer(signal.ITIMER_VIRTUAL, 0)
            signal.setitimer(signal.ITIMER_REAL, 0)
        except _Stop:
            signal.setitimer(signal.ITIMER_VIRTUAL, 0)
            signal.setitimer(signal.ITIMER_REAL, 0)
    _Guard.budget = 10**9  # library calls made outside a guarded read are not budgeted
    if _Guard.blown:
        if _Guard.blown != "step-budget":
            _hangs += 1
        return ("hang", _Guard.blown)
    return out


# ---- the harness's own notion of "same content" ------------------------------------------------------
def _ev(v):
    return getattr(v, "name", None) if v is not None else None


def msnap(m):
    """(atoms part, bonds part, name) of a returned molecule; -0.0 and 0.0 are the same value"""
    idx = {id(a): i for i, a in enumerate(m.atoms)}
    coords = np.asarray(m.coords, dtype=np.float64)
    atoms = tuple(
        (
            _ev(a.element),
            a.label,
            _ev(a.atype),
            _ev(a.geom),
            a.formal_charge,
            a.formal_spin,
            tuple(sorted((str(k), str(v)) for k, v in (a.attrib or {}).items())),
            tuple(repr(float(x) + 0.0) for x in coords[i]) if i < len(coords) else None,
        )
        for i, a in enumerate(m.atoms)
    )
    ch = getattr(m, "_atomic_charges", None)
    charges = tuple(repr(x + 0.0) if isinstance(x, float) else repr(x) for x in np.asarray(ch).tolist()) if ch is not None else None
    bonds = tuple((idx.get(id(b.a1), -1), idx.get(id(b.a2), -1), _ev(b.btype), _ev(b.stereo), tuple(sorted((str(k), str(v)) for k, v in (b.attrib or {}).items()))) for b in m.bonds)
    return ((atoms, charges, coords.shape), bonds, m.name)


# ---- base texts ----------------------------------------------------------------------------------
def lone_atom():
    m = ml.Molecule(n_atoms=1, name="lone_atom")
    m.atoms[0].element = "He"
    m.coords[0] = [0.5, -0.25, 1.5]
    return m


# TRIPOS records molli does not implement (it skips their data lines), placed at every position a
# record can take inside a molecule
OTHER_RECORDS = {
    "before-ATOM": "@<TRIPOS>COMMENT\ngenerated for the C10 check\n",
    "before-BOND": "@<TRIPOS>SUBSTRUCTURE\n     1 UNL1        1 TEMP              0 ****  ****    0 ROOT\n",
    "after-BOND": "@<TRIPOS>SET\nSTATIC_SET STATIC ATOMS <user> **** a set of two atoms\n2 1 2\n",
}
SUBSTR_BASES = {
    "gen_record_single.mol2": [("dmf.mol2", "before-BOND")],
    "gen_record_multi.mol2": [("dummy.mol2", "before-ATOM"), ("dmf.mol2", "before-BOND"), ("propyne.mol2", "after-BOND"), ("dummy.mol2", None)],
}


def with_record(block, where):
    """one molli-written mol2 block with an unimplemented record inserted"""
    if where is None:
        return block
    rec = OTHER_RECORDS[where]
    if where == "before-ATOM":
        return block.replace("@<TRIPOS>ATOM\n", rec + "@<TRIPOS>ATOM\n", 1)
    if where == "before-BOND":
        return block.replace("@<TRIPOS>BOND\n", rec + "@<TRIPOS>BOND\n", 1)
    return block + rec


def big_xyz_frame(n, tag="big"):
    return f"{n}\n{tag}_{n}\n" + "".join(f"{'CHNO'[i % 4]:<5} {i * 0.001 + 0.125:12.6f} {(i % 7) * 0.5 - 1.25:12.6f} {-(i % 11) * 0.25 + 0.375:12.6f}\n" for i in range(n))


def big_mol2_block(n, tag="big"):
    out = [f"# generated for the C10 check\n@<TRIPOS>MOLECULE\n{tag}_{n}\n{n} {n - 1} 0 0 0\nSMALL\nUSER_CHARGES\n\n@<TRIPOS>ATOM\n"]
    for i in range(n):
        e = "CHNO"[i % 4]
        out.append(f"{i + 1:>6} {e + str(i + 1):<6} {i * 0.001 + 0.125:>12.6f} {(i % 7) * 0.5 - 1.25:>12.6f} {-(i % 11) * 0.25 + 0.375:>12.6f} {e:<10} 1 UNL1 {((i % 5) - 2) * 0.1:0.3f}\n")
    out.append("@<TRIPOS>BOND\n")
    for i in range(n - 1):
        out.append(f"{i + 1:>6} {i + 1:>6} {i + 2:>6} {'1':>3}\n")
    return "".join(out)


BIG_XYZ = (511, 512, 513, 1023, 1024, 1025, 4096)
BIG_MOL2 = (256, 1024)
QUICK_BIG = (
    [f"big:xyz:{n}" for n in BIG_XYZ]
    + ["big:xyz:512:sandwich", "big:xyz:1024:sandwich", "gen_nanotube.xyz"]
    + [f"big:mol2:{n}" for n in BIG_MOL2]
    + ["big:mol2:256:sandwich"]
)
THOROUGH_BIG = QUICK_BIG + [f"big:xyz:{n}:sandwich" for n in BIG_XYZ if n not in (512, 1024)] + ["big:mol2:1024:sandwich", "file:nanotube.mol2"]
LARGE_LINES = 400  # a text with more lines than this gets the fault menu on a stride of its lines


def base_text(name):
    """name -> (fmt, text).  'file:<bundled file>' or a generated text."""
    if name.startswith("big:"):
        # texts on both sides of plausible size thresholds of a reader (a frame of n atoms, alone or
        # between two small frames)
        parts = name.split(":")
        fmt, n = parts[1], int(parts[2])
        sandwich = len(parts) > 3
        if fmt == "xyz":
            t = big_xyz_frame(n)
            if sandwich:
                t = lone_atom().dumps_xyz() + t + ml.Molecule.load_mol2(FILES / "dummy.mol2").dumps_xyz()
        else:
            t = big_mol2_block(n)
            if sandwich:
                t = lone_atom().dumps_mol2() + t + ml.Molecule.load_mol2(FILES / "dummy.mol2").dumps_mol2()
        return (fmt, t)
    if name == "gen_nanotube.xyz":
        return ("xyz", ml.Molecule.load_mol2(FILES / "nanotube.mol2").dumps_xyz())
    if name.startswith("file:"):
        p = FILES / name[5:]
        return (p.suffix[1:], p.read_text())
    load = lambda f: ml.Molecule.load_mol2(FILES / f)  # noqa: E731
    if name in ("gen_mixed.mol2", "gen_mixed.xyz"):
        mols = [load("dummy.mol2"), lone_atom(), load("dmf.mol2"), load("benzene.mol2")]
    elif name in ("gen_tiny.mol2", "gen_tiny.xyz"):
        mols = [lone_atom(), load("dummy.mol2")]
    elif name in ("gen_tiny3.mol2", "gen_tiny3.xyz"):
        third = lone_atom()
        third.name = "second_lone_atom"
        third.atoms[0].element = "Ne"
        third.coords[0] = [-1.25, 0.75, 2.5]
        mols = [lone_atom(), load("dummy.mol2"), third]
    elif name in ("gen_confs3.mol2", "gen_confs3.xyz"):
        mols = ml.Molecule.load_all_mol2(FILES / "pentane_confs.mol2")[:3]
    elif name == "gen_confs3_named.mol2":
        # the same constitution and counts in every block, but every block under a name of its own: a
        # block that ends up with the header of its neighbour is then not a molecule of the file
        mols = ml.Molecule.load_all_mol2(FILES / "pentane_confs.mol2")[:3]
        for k, m in enumerate(mols):
            m.name = f"conformer_{k + 1}"
    elif name == "gen_unity.mol2":
        # count-driven attribute records molli DOES implement: UNITY_ATOM_ATTR between ATOM and BOND
        # (formal charges and a free attribute), UNITY_BOND_ATTR after BOND, then a second molecule
        blk = load("dmf.mol2").dumps_mol2()
        blk = blk.replace("@<TRIPOS>BOND\n", "@<TRIPOS>UNITY_ATOM_ATTR\n3 1\ncharge 1\n5 2\ncharge -1\nlabel_colour red\n@<TRIPOS>BOND\n", 1)
        blk += "@<TRIPOS>UNITY_BOND_ATTR\n2 1\nstereo_hint up\n4 2\ncolour blue\nwidth 2\n"
        # (the next block starts right at its MOLECULE record: molli's attribute loop does not skip a
        #  "# ..." comment line, and an attribute record at the very end of a file is not readable either)
        return ("mol2", blk + load("dummy.mol2").dumps_mol2().split("\n", 1)[1])
    elif name in SUBSTR_BASES:
        return ("mol2", "".join(with_record(load(f).dumps_mol2(), where) for f, where in SUBSTR_BASES[name]))
    elif name == "gen_nocharge.mol2":
        # blocks that declare NO_CHARGES and carry no charge column (the bundled dummy.mol2 verbatim, then
        # two molli-written blocks edited to the same shape): the partial-charge array is then not a
        # second, accidental length check on the atom list
        t = (FILES / "dummy.mol2").read_text()
        t += "" if t.endswith("\n") else "\n"
        for f in ("dmf.mol2", "propyne.mol2"):
            inatoms = False
            for l in load(f).dumps_mol2().replace("USER_CHARGES", "NO_CHARGES").splitlines(keepends=True):
                if l.startswith("@<TRIPOS>"):
                    inatoms = l.strip() == "@<TRIPOS>ATOM"
                elif inatoms:
                    l = l.rstrip("\n").rsplit(None, 1)[0] + "\n"  # no charge column, as in dummy.mol2
                t += l
        return ("mol2", t)
    else:
        raise HarnessError(f"unknown base text {name}")
    if name.endswith(".mol2"):
        return ("mol2", "".join(m.dumps_mol2() for m in mols))
    return ("xyz", "".join(m.dumps_xyz() for m in mols))


QUICK_BASES = [
    "file:dummy.mol2",
    "file:dummy.xyz",
    "file:benzene.mol2",
    "file:dmf.mol2",
    "gen_tiny.mol2",
    "gen_tiny.xyz",
    "gen_mixed.mol2",
    "gen_mixed.xyz",
    "gen_nocharge.mol2",
    "file:isornitrate.mol2",
    "gen_unity.mol2",
    "gen_record_single.mol2",
    "gen_record_multi.mol2",
    "gen_confs3.mol2",
    "gen_confs3_named.mol2",
    "file:dendrobine.xyz",
    "file:dendrobine.mol2",
    "file:pentane_confs.xyz",
]
PAIR_BASES = ["file:dummy.mol2", "file:dummy.xyz", "gen_tiny.mol2", "gen_tiny.xyz", "gen_tiny3.mol2", "gen_tiny3.xyz", "file:propyne.mol2"]
THOROUGH_SKIP = {"nanotube.mol2", "pdb_4a05.mol2", "zincdb_fda.mol2"}


def thorough_bases(ctx):
    out = list(QUICK_BASES) + ["file:pentane_confs.mol2", "gen_confs3.xyz", "gen_tiny3.mol2", "gen_tiny3.xyz", "file:isornitrate.mol2"]
    for p in sorted(FILES.glob("*.mol2")):
        nm = "file:" + p.name
        if nm in out or p.name in THOROUGH_SKIP:
            continue
        try:
            T.annotate_mol2(p.read_text())
            T.ref_mol2(p.read_text())
        except T.Illformed:
            continue
        secs = {l.strip() for l in p.read_text().splitlines() if l.startswith("@<TRIPOS>")}
        if secs - {"@<TRIPOS>MOLECULE", "@<TRIPOS>ATOM", "@<TRIPOS>BOND"}:
            ctx.notes.setdefault("bases_skipped_other_sections", []).append(p.name)
            continue
        out.append(nm)
    return out


class Base:
    def __init__(self, name):
        self.name = name
        self.fmt, self.text = base_text(name)
        self.doc = (T.annotate_mol2 if self.fmt == "mol2" else T.annotate_xyz)(self.text)
        if T.doc_text(self.doc) != self.text:
            raise HarnessError(f"annotation of {name} does not reproduce the text")
        self.ref = (T.ref_mol2 if self.fmt == "mol2" else T.ref_xyz)(self.text)
        r = guarded_read(self.fmt, self.text, len(self.doc))
        self.steps_counted = _Guard.used
        if r[0] != "ok" or not isinstance(r[1], list):
            raise HarnessError(f"the undamaged base text {name} is not readable: {r[:2]}")
        self.orig = [msnap(m) for m in r[1]]
        if name in SUBSTR_BASES:
            # the extra records must not change what is read
            load = lambda f: ml.Molecule.load_mol2(FILES / f)  # noqa: E731
            plain = "".join(load(f).dumps_mol2() for f, _ in SUBSTR_BASES[name])
            rp = guarded_read("mol2", plain, len(plain.splitlines()))
            if rp[0] != "ok" or [msnap(m) for m in rp[1]] != self.orig:
                raise HarnessError(f"base text {name}: the unimplemented records change what molli reads from the undamaged text")
        if len(self.orig) != len(self.ref):
            raise HarnessError(f"base text {name}: molli reads {len(self.orig)} molecules, the reference reader {len(self.ref)}")


# ---- judging one damaged text ------------------------------------------------------------------------
def classify_bad(r, orig, pos):
    """symptom class of a returned molecule that is not (in order) a molecule of the original"""
    atoms, bonds, name = r
    if r in orig:
        return "content-of-another-block"  # a block returned twice / out of order
    same_atoms = [k for k, o in enumerate(orig) if o[0] == atoms]
    if same_atoms:
        ks = set(same_atoms)
        if any(orig[k][1] == bonds for k in ks):
            return "content-of-another-block"  # atoms and bonds of one block under the name of another
        if any(o[1] == bonds for k2, o in enumerate(orig) if k2 not in ks):
            return "content-of-another-block"  # atoms of one block, bonds of another
        k = same_atoms[0]
        if len(bonds) < len(orig[k][1]) and bonds == orig[k][1][: len(bonds)]:
            return "bonds-missing"
        return "altered-molecule"
    (alist, charges, shape) = atoms
    for o in orig:
        oal = o[0][0]
        if len(alist) < len(oal) and alist == oal[: len(alist)]:
            return "atoms-missing"
    if any(c is not None and any(x == "nan" for x in c) for (*_, c) in alist):
        return "partial-molecule-with-unset-coordinates"
    return "altered-molecule"


def judge(ctx, base, doc2, faults, record=True):
    """run the reader on the damaged document and apply the oracle.  -> (violated, outcome digest)"""
    fmt = base.fmt
    text = T.doc_text(doc2)
    h = hashlib.sha1((fmt + "\0" + text).encode()).hexdigest()[:20]
    ctx.state_keys.add(h)
    out = guarded_read(fmt, text, len(doc2))
    if len(base.doc) > LARGE_LINES and out[0] == "exc":
        # a large text the reader refused needs no verdict of the reference reader (it is only asked
        # whether something that was RETURNED may differ); such cases are not counted as non-trivial
        cat = "large-rejected-unclassified"
    else:
        cat = T.classify(fmt, text, base.ref)
    ctx.count(evaluations=1, transitions=1, traces=1)
    f0 = faults[-1]
    loc = T.fault_location(base.doc, f0) if len(faults) == 1 else None
    case = {"base": base.name, "fmt": fmt, "faults": faults, "text": text}

    def sig(symptom, special=None):
        if special:
            return f"{fmt}|{special}:{symptom}"
        if len(faults) > 1:
            return f"{fmt}|fault-pair:{symptom}"
        cls, bpos, role = loc
        if cls.startswith("boundary-before-"):
            cls = cls[len("boundary-before-") :]  # the first line lost, whether cut before or inside it
        r = f"/{role}" if role and f0["kind"] in ("garble-token", "delete-token", "count+1", "count-1", "retarget", "pad-token") else ""
        w = f"-{f0['where']}" if f0["kind"] == "extra-token" else ""
        return f"{fmt}|{f0['kind']}{w}|{cls}{r}|{bpos}:{symptom}"

    def viol(symptom, what, special=None):
        if record:
            ctx.violation(sig(symptom, special), f"{base.name}, {describe_faults(base, faults)}: {what}", case, repro(fmt, text))
        return True

    if cat == "damaged":
        ctx.nontrivial(h)
    ctx.add_note("texts_" + cat)

    if out[0] == "hang":
        ctx.outcome(("hang", out[1]))
        return viol(f"reader-did-not-terminate({out[1]})", f"the reader exceeded the {out[1]} on a {len(text)}-character text"), "hang"
    if out[0] == "exc":
        ctx.outcome(("exc", out[1]))
        return False, "exc:" + out[1]
    res = out[1]
    if not isinstance(res, (list, tuple)) or not all(isinstance(m, ml.Promolecule) for m in res):
        ctx.outcome(("foreign", type(res).__name__))
        return viol("result-not-a-sequence-of-molecules", f"returned {type(res).__name__}"), "foreign"
    snaps = [msnap(m) for m in res]
    ctx.outcome(("list", len(res), cat))
    # the exception the property text makes is for cuts at BYTE offsets; a cut at a line boundary that
    # leaves a well-formed file (an optional trailing record dropped) is treated like any other edit
    truncation = all(f["kind"] == "truncate" for f in faults) and any(f.get("byte") for f in faults)
    if cat == "different" and not truncation:
        # a different but well-formed file: not damage in the property's sense - termination only
        ctx.add_note("texts_excluded_wellformed_different")
        return False, "excluded"
    # (a) in order, molecules of the undamaged file
    j = 0
    for pos, s in enumerate(snaps):
        k = j
        while k < len(base.orig) and base.orig[k] != s:
            k += 1
        if k >= len(base.orig):
            sym = classify_bad(s, base.orig, pos)
            if cat == "different":
                return viol("well-formed-shorter-value-accepted", f"a cut inside the last number leaves a shorter well-formed number; {len(res)} molecule(s) returned, number {pos + 1} differs from the undamaged file ({sym})", special="truncate|inside-last-value"), "altered"
            return viol(sym, f"{len(res)} molecule(s) returned; number {pos + 1} ({res[pos].n_atoms} atoms, {res[pos].n_bonds} bonds, name {res[pos].name!r}) is not the next molecule of the undamaged file: {sym}"), sym
        j = k + 1
    # (b) the counts its own header declares
    hdrs = T.scan_headers(fmt, text)
    j = 0
    for pos, m in enumerate(res):
        na, nb = m.n_atoms, (m.n_bonds if fmt == "mol2" else None)
        k = j
        while k < len(hdrs) and not (hdrs[k][0] == na and (hdrs[k][1] is None or nb is None or hdrs[k][1] == nb)):
            k += 1
        if k >= len(hdrs):
            return viol("counts-differ-from-own-header", f"molecule {pos + 1} has {na} atoms / {nb} bonds; the headers of the damaged text declare {hdrs[:6]}"), "header"
        j = k + 1
    return False, f"list:{len(res)}"


# ---- single-structure loaders ---------------------------------------------------------------------------
LINE_KINDS = ("truncate", "delete-line", "duplicate-line", "insert-line")


def single_entries(fmt):
    return [
        (f"Structure.loads_{fmt}", lambda t: getattr(ml.Structure, f"loads_{fmt}")(t)),
        (f"ml.loads(..., {fmt!r})", lambda t: ml.loads(t, fmt)),  # = Molecule.loads_<fmt>
    ]


def single_eligible(base, f):
    """faults that touch what a single-structure loader consumes (the first record): everything on a small
    text; on larger ones the header / count / section lines and every line-level fault of the first block"""
    i = f["line"]
    if i >= len(base.doc) or base.doc[i][2] != 0:
        return False
    if len(base.doc) <= 30:
        return True
    cls = base.doc[i][1]
    if cls not in ("atom", "bond", "xyz-atom"):
        return True
    # of a run of atom / bond lines: line-level faults on its first and last line
    edge = i == 0 or base.doc[i - 1][1] != cls or i + 1 >= len(base.doc) or base.doc[i + 1][1] != cls
    return edge and f["kind"] in LINE_KINDS


def judge_single_frame(ctx, base, doc2, f):
    """loads_<fmt> / ml.loads return ONE structure, read from the first record only: it is that of the
    undamaged text, or the call raises - unless the first record of the damaged text is, by the strict
    reference, a well-formed record with other content (then only termination is checked)."""
    fmt = base.fmt
    text = T.doc_text(doc2)
    if not hasattr(base, "single_ref"):
        base.single_ref = {}
        for name_, fn in single_entries(fmt):
            r = guarded_read(fmt, None, len(base.doc), call=lambda fn=fn: fn(base.text))
            if r[0] == "ok" and isinstance(r[1], ml.Promolecule):
                base.single_ref[name_] = msnap(r[1])
    cat1 = None
    cls, bpos, role = T.fault_location(base.doc, f)
    if cls.startswith("boundary-before-"):
        cls = cls[len("boundary-before-") :]
    for name_, fn in single_entries(fmt):
        if name_ not in base.single_ref:
            continue
        out = guarded_read(fmt, None, len(doc2) + 2, call=lambda fn=fn: fn(text))
        ctx.count(evaluations=1, transitions=1, traces=1)
        case = {"layer": "single", "base": base.name, "fmt": fmt, "faults": [f], "text": text, "entry": name_}

        def viol(symptom, what):
            r = f"/{role}" if role and f["kind"] in ("garble-token", "delete-token", "count+1", "count-1", "retarget", "pad-token", "replace-token") else ""
            ctx.violation(f"{fmt}|{f['kind']}|{cls}{r}|single-structure-loader:{symptom}", f"{base.name}, {describe_faults(base, [f])}, read by {name_}: {what}", case, None)

        if out[0] == "hang":
            ctx.outcome(("single-hang", out[1]))
            viol(f"reader-did-not-terminate({out[1]})", "the call did not finish")
            continue
        if out[0] == "exc":
            ctx.outcome(("single-exc", out[1]))
            continue
        ctx.outcome(("single-ok",))
        if cat1 is None:
            cat1 = T.classify_first_record(fmt, text, base.ref)
        if cat1 == "different":
            ctx.add_note("single_loader_first_record_wellformed_different")
            continue
        if not isinstance(out[1], ml.Promolecule):
            viol("result-not-a-molecule", f"returned {type(out[1]).__name__}")
            continue
        got, ref = msnap(out[1]), base.single_ref[name_]
        if got != ref:
            na, nr = len(got[0][0]), len(ref[0][0])
            sym = "partial-molecule-fewer-atoms-than-the-first-record" if na < nr else "altered-molecule"
            viol(sym, f"returned {type(out[1]).__name__} {out[1].name!r} with {na} atoms; the first record of the undamaged text has {nr}")


def describe_faults(base, faults):
    out = []
    for f in faults:
        d = f["kind"]
        if f["kind"] == "truncate":
            d += f" at line {f['line']}" + (f" byte {f['byte']}" if f["byte"] else "")
        else:
            d += f" line {f['line']}" + (f" token {f['tok']}" if "tok" in f else "")
        out.append(d)
    return " then ".join(out)


def repro(fmt, text):
    if len(text) > 6000:
        return None
    return f"import molli as ml\ntext = {text!r}\nr = ml.Molecule.loads_all_{fmt}(text)\nprint(r, [(m.n_atoms, m.n_bonds) for m in r])\n"


# ---- drivers -----------------------------------------------------------------------------------------
def fills(ctx):
    return FILLS[ctx.seed % len(FILLS)], INFIXES[ctx.seed % len(INFIXES)], True, NUMS[ctx.seed % len(NUMS)]


def chosen_lines(base, thorough):
    """None for an ordinary text; for a large one the stride of lines the fault menu is applied to"""
    if len(base.doc) <= LARGE_LINES:
        return None
    runs = max(sum(1 for l in base.doc if l[1] in ("atom", "xyz-atom")), 1)
    stride = 50 if thorough else max(50, (runs + 1) // 2)  # quick: first, middle, last line of every run
    return T.stride_lines(base.doc, stride)


def run_single(ctx, part):
    """part = (base name, chunk index, number of chunks): every single fault of the base text whose
    ordinal is congruent to the chunk index"""
    install_guards()
    name, ci, nc = part
    base = Base(name)
    fargs = fills(ctx) + (chosen_lines(base, ctx.thorough),)
    n = 0
    for f in T.enumerate_faults(base.doc, *fargs):
        if n % nc == ci:
            if _hangs >= MAX_HANGS_PER_PARTITION:
                ctx.cap_hit(f"{name}: partition abandoned after {_hangs} watchdog time-outs")
                break
            d = T.apply_fault(base.doc, f)
            judge(ctx, base, d, [f])
            if single_eligible(base, f):
                judge_single_frame(ctx, base, d, f)
                ctx.add_note("faults_also_read_by_single_structure_loaders")
            ctx.add_note("faults_" + f["kind"])
        n += 1
    if ci == 0:
        ctx.add_note("base_texts", 1)
        ctx.add_note("base_lines", len(base.doc))
        ctx.add_note("single_faults_enumerated", n)


def _pair_key(f):
    """where a fault sits in the base text: (line position, position inside the line) or None when the
    fault cannot be combined with another one on the same line"""
    k = f["kind"]
    if k == "insert-line":
        return (f["line"] - 0.5, 0)
    if k in ("truncate", "delete-line"):
        return (f["line"], None)
    if k == "duplicate-line":
        return (f["line"], 10**6)
    if k == "extra-token":
        return (f["line"], 10**5 if f["where"] == "end" else -1)
    if k == "insert-number":
        return (f["line"], f["pos"] - 0.5)
    return (f["line"], f["tok"])


def run_pairs(ctx, part):
    """every unordered pair {fa, fb} of single faults of the BASE text at different places (fa before fb
    in the text; fb is applied first so that the position of fa stays valid).  A pair is judged only
    if neither member alone is a violation (no consequential noise) and neither member alone turns the
    text into a well-formed file with other content (then the pair contains an edit that is not damage
    and the reader may rightly return the other content); the combined text is classified once more."""
    install_guards()
    name, ci, nc = part
    base = Base(name)
    fargs = fills(ctx)
    singles = []
    quiet = _Quiet(ctx)
    for f in T.enumerate_faults(base.doc, *fargs):
        d = T.apply_fault(base.doc, f)
        cat = T.classify(base.fmt, T.doc_text(d), base.ref)
        bad = False
        if cat != "different":
            bad, _ = judge(quiet, base, d, [f], record=False)
        singles.append((f, _pair_key(f), cat, bad))
    for ia, (fa, ka, cata, bada) in enumerate(singles):
        if ia % nc != ci:
            continue
        if bada or cata == "different":
            ctx.add_note("pair_members_not_combined_(violating_or_not_damage)")
            continue
        if fa["kind"] == "truncate":
            continue  # everything behind a cut is gone: the pair is the cut itself
        for fb, kb, catb, badb in singles:
            if badb or catb == "different":
                continue
            if kb[0] < ka[0] or (kb[0] == ka[0] and (ka[1] is None or kb[1] is None or kb[1] <= ka[1])):
                continue
            if _hangs >= MAX_HANGS_PER_PARTITION:
                ctx.cap_hit(f"{name}: pair partition abandoned after {_hangs} watchdog time-outs")
                return
            d2 = T.apply_fault(T.apply_fault(base.doc, fb), fa)
            judge(ctx, base, d2, [fb, fa])
            ctx.add_note("fault_pairs")


class _Quiet:
    """a context that swallows counters (used to pre-judge the first fault of a pair)"""

    def __init__(self, ctx):
        self.state_keys = set()

    def count(self, **kw):
        pass

    def nontrivial(self, k):
        pass

    def outcome(self, k):
        pass

    def add_note(self, k, inc=1):
        pass

    def violation(self, *a, **k):
        pass


def _dispatch(ctx, part):
    if part[0] == "bytes":
        from mc.props import c10_bytes

        c10_bytes.run_bytes(ctx, part[1:])
    elif part[0] == "single":
        run_single(ctx, part[1:])
    else:
        run_pairs(ctx, part[1:])


def run(ctx):
    ctx.rule = (
        "every single structural fault of every base text (truncation at every line boundary and at every byte offset of the last "
        "molecule block; deletion and duplication of every line; deletion of every token of every fixed-grammar line; two garblings of every "
        "structural token; an extra token at either end of every fixed-grammar / section line; every count +-1; every section keyword renamed; a stray line before every line; "
        "a stray number at every token position, every numeric token doubled / split at every interior position), "
        "thorough tier additionally every pair of faults on the small texts; each damaged text is read by Molecule.loads_all_mol2 / loads_all_xyz "
        "under a step budget and a CPU watchdog; a case is non-trivial when the harness's strict reference reader finds the damaged text NOT to be a "
        "well-formed file (distinct damaged texts are counted)"
    )
    ctx.assumptions += [
        "only structural damage is generated: tokens the formats treat as free text (xyz comment line; mol2 molecule name, molecule type, charge type, status/comment lines; atom labels; substructure names; status bits) are never garbled",
        "a damaged text that the harness's strict reference reader accepts as a well-formed file with other content is not damage (checked for termination only) - except byte-offset truncation, which the property text quantifies over explicitly and which is judged and reported under the signature '<fmt>|truncate|inside-last-value:well-formed-shorter-value-accepted'",
        "'same content' = name, per-atom element / label / type / geometry / formal charge / attributes / coordinates (exact), partial charges, bonds (endpoints, type); 'corresponding molecule' = order-preserving match into the molecules molli reads from the undamaged text (a reader that drops a damaged block and returns the complete others passes)",
        "'its own header' = some block header of the damaged text, matched in order (lenient scan: counts line after @<TRIPOS>MOLECULE / single-integer lines of an xyz text)",
        "the strict reference reader accepts whatever a reader may rightly take for a well-formed record: bond orders 4-6 (molli's documented extension), surplus trailing tokens of mol2 count/atom/bond lines (status bits), unvalidated substructure id/name columns; xyz atom lines have exactly four tokens; -0.0 equals 0.0",
        "a pair of faults is judged only if neither member alone makes the text a well-formed file with other content (such a member is an edit, not damage) and the combined text is not one either",
        "count-1 is not generated for a declared count of 0 (a negative count is not 'off by one'); an inserted extra token is always a non-number, non-keyword",
        "termination: at most 4*lines+64 LineReader steps and %.0f s of CPU per damaged text" % CPU_LIMIT_S,
        "bundled files with sections other than MOLECULE/ATOM/BOND and the two large files (nanotube, pdb_4a05) are not used as base texts",
    ]
    install_guards()
    bases = thorough_bases(ctx) if ctx.thorough else list(QUICK_BASES)
    ctx.bound["base_texts"] = bases
    ctx.bound["faults_per_text"] = "all single faults" + ("; all pairs on " + ", ".join(PAIR_BASES) if ctx.thorough else "")
    # sizes decide the number of chunks per base (partition only; every chunk is completed)
    parts = []
    bigs = THOROUGH_BIG if ctx.thorough else QUICK_BIG
    ctx.bound["large_base_texts"] = list(bigs)
    ctx.bound["large_base_texts_lines"] = "every header / count / section line, and of every run of atom / bond lines the first, the last and every " + ("50th" if ctx.thorough else "middle one") + "; byte cuts on the last line; token splits in the middle"
    for b in bases + list(bigs):
        base = Base(b)
        nf = sum(1 for _ in T.enumerate_faults(base.doc, only_lines=chosen_lines(base, ctx.thorough)))
        nc = max(1, min(32, (nf * len(base.doc)) // 150_000))
        parts += [("single", b, i, nc) for i in range(nc)]
    if ctx.thorough:
        for b in PAIR_BASES:
            nch = 48 if b == "file:propyne.mol2" else 16
            parts += [("pair", b, i, nch) for i in range(nch)]
    # path-level byte damage (c10_bytes): the same base texts as FILES, read by every path-taking loader
    from mc.props import c10_bytes

    bbases = c10_bytes.THOROUGH_BASES if ctx.thorough else c10_bytes.QUICK_BASES
    ctx.bound["byte_damage_base_files"] = list(bbases)
    ctx.bound["byte_damage"] = "one byte of {FF,80,C5,00,1A,0D} replaced / inserted at every position of the structural tokens of " + ("every line" if ctx.thorough else "the first and last line of every record kind in the first and last block") + ", read through every path-taking entry point"
    for b in bbases:
        nch = 12 if ctx.thorough else 6
        parts += [("bytes", b, i, nch) for i in range(nch)]
    # a few real cases
    b0 = Base(bases[0])
    ctx.note("line_reader_steps_counted_on_first_base_text", b0.steps_counted)  # 0 would mean the step budget is not wired in
    fl = list(T.enumerate_faults(b0.doc, *fills(ctx)))
    for f in (fl[0], fl[len(fl) // 5], fl[2 * len(fl) // 5], fl[3 * len(fl) // 5], fl[4 * len(fl) // 5], fl[-1]):
        ctx.sample({"base": b0.name, "fault": f, "damaged_text": T.doc_text(T.apply_fault(b0.doc, f))})
    # interpreter configuration: a compact subset once more under python -O and python -OO (started now,
    # collected after the main enumeration)
    from mc.props import c10_child

    ctx.bound["interpreter_configurations"] = {"flags": ["-O", "-OO"], "base_texts": c10_child.CONFIG_BASES, "faults": "record type indicator faults, line deletions, count / id / first atom and bond line token faults"}
    kids = [(flag, c10_child.spawn(flag, {"bases": c10_child.CONFIG_BASES, "seed": ctx.seed})) for flag in ("-O", "-OO")]
    try:
        ctx.pmap(_dispatch, parts)
        for flag, p in kids:
            c10_child.collect(ctx, flag, p)
    finally:
        for _, p in kids:
            if p.poll() is None:
                p.kill()


def replay(ctx, case):
    install_guards()
    if case.get("config"):
        from mc.props import c10_child

        job = {"cases": [{"base": case["base"], "faults": case["faults"]}], "seed": ctx.seed}
        c10_child.collect(ctx, case["config"], c10_child.spawn(case["config"], job))
        return
    if case.get("layer") == "single":
        base = Base(case["base"])
        doc = T.apply_fault(base.doc, case["faults"][0])
        if T.doc_text(doc) != case["text"]:
            raise HarnessError("replay: the fault descriptor no longer produces the recorded text")
        return judge_single_frame(ctx, base, doc, case["faults"][0])
    if case.get("layer") == "bytes":
        from mc.props import c10_bytes

        return c10_bytes.replay_bytes(ctx, case)
    base = Base(case["base"])
    doc = base.doc
    for f in case["faults"]:
        doc = T.apply_fault(doc, f)
    if T.doc_text(doc) != case["text"]:
        raise HarnessError("replay: the fault descriptors no longer produce the recorded text")
    judge(ctx, base, doc, case["faults"])
